#!/usr/bin/env python3
"""Regenerate /verif/MANIFEST.json from the metadata of the property modules in props/."""
import importlib
import json
import os
import sys

VERIF = os.path.dirname(os.path.dirname(os.path.abspath(__file__)))
sys.path.insert(0, VERIF)
sys.path.insert(0, "/repo/src")

NA_REASONS = {
    "C12": "quantitative absorption bound over a long floating-point trajectory; no function contract implies a reflection bound (DESIGN.md section 6)",
    "C13": "quantitative directionality (numerical-dispersion leakage) bound over a trajectory; not expressible as a function contract (DESIGN.md section 6)",
    "C42": "decided by XLA's SPMD partitioner at run time; Python-level contracts say nothing about multi-device numerics (DESIGN.md section 6)",
}
NOT_YET = "no contract-based check has been completed for this property yet (see DESIGN.md section 4 for the plan); not claimed"


def main():
    props = [json.loads(l)["id"] for l in open(os.path.join(VERIF, "properties.jsonl"))]
    checks = []
    claimed = set()
    READY = set(open(os.path.join(VERIF, "props", "READY")).read().split())
    for pid in props:
        if not os.path.exists(os.path.join(VERIF, "props", f"{pid}.py")) or pid not in READY:
            continue
        m = importlib.import_module(f"props.{pid}")
        if getattr(m, "DISABLED", False):
            continue
        claimed.add(pid)
        checks.append(
            {
                "property_id": pid,
                "quick_cmd": f"./check {pid} --tier quick",
                "thorough_cmd": f"./check {pid} --tier thorough",
                "evidence_file": f"evidence/{pid}.json",
                "replay_cmd_template": f"./check {pid} --replay {{path}}",
                "engine": "vc",
                "level_claimed": {"category": m.LEVEL, "text": getattr(m, "LEVEL_TEXT", m.__doc__.strip().split("\n\n")[0]), "design_ref": getattr(m, "DESIGN_REF", f"DESIGN.md section 4 ({pid})")},
                "level_note": getattr(m, "LEVEL_NOTE", "; ".join(getattr(m, "ASSUMPTIONS", []))),
                "technique": m.TECHNIQUE,
            }
        )
    na = []
    for pid in props:
        if pid in claimed:
            continue
        na.append({"property_id": pid, "reason": NA_REASONS.get(pid, NOT_YET)})
    man = {
        "version": 1,
        "setup_cmd": "./setup.sh",
        "hooks": {
            "guard": "FDTDX_VERIF",
            "enable": "none needed: contracts live in the sidecar (/verif/props, /verif/spec) and the checks import the real functions from /repo/src; no source hooks exist",
            "baseline_off_cmd": "cd /repo && /venv/bin/python -m pytest -ra -q -p no:cacheprovider --timeout=900 --continue-on-collection-errors",
            "source_commits": [],
            "add_only": True,
        },
        "engines": [
            {
                "name": "vc",
                "path": "vc/",
                "serves_properties": sorted(claimed),
                "kind_free_text": "contract-based deductive verification: symbolic execution of the real Python functions from /repo/src under symbolic jnp/jax shims (symbolic shapes, index->term arrays), sidecar contracts/spec functions, modular callee stubs, obligations discharged by z3 5.1, exact ring normal form and cvc5; counterexamples replayed on the real code under real JAX",
            }
        ],
        "checks": checks,
        "notes": "No hooks/instrumentation commits exist. Unguarded 'fix:' commits in /repo (genuine defects found by the checks, see known_findings.json): " + ", ".join(json.load(open(os.path.join(VERIF, "known_findings.json"))).get("fix_commits", [])) + ". Exit codes of ./check: 0 held (KNOWN-FINDING lines for listed findings), 1 violation (VIOLATION line), 2 undecided (never a violation), 3 crash. See DESIGN.md.",
        "not_applicable": na,
    }
    with open(os.path.join(VERIF, "MANIFEST.json"), "w") as f:
        json.dump(man, f, indent=1)
    print(f"claimed {len(checks)}: {sorted(claimed)}; not claimed {len(na)}")


if __name__ == "__main__":
    main()
