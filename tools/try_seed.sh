#!/bin/bash
# usage: tools/try_seed.sh <seed-id> <property-id> [check args...]
# Applies /verif/seeded/<seed-id>/patch.diff to a scratch copy of /repo (never to /repo itself while
# other work is running), runs the demo on the original and on the changed source, then runs the
# property's check against the changed copy (dev-only VERIF_REPO_SRC override).
set -u
SID=$1; PID=$2; shift 2
D=/verif/seeded/$SID
W=/tmp/seedrun_$SID
rm -rf $W; mkdir -p $W
git -C /repo archive HEAD | tar -x -C $W
( cd $W && git init -q . >/dev/null 2>&1; git apply --whitespace=nowarn $D/patch.diff ) || { echo "patch does not apply"; exit 3; }
echo "== demo on original"; PYTHONPATH=/repo/src JAX_PLATFORMS=cpu JAX_ENABLE_X64=1 timeout 900 /venv/bin/python $D/demo.py 2>&1 | grep -v conda | tail -2; echo "exit=${PIPESTATUS[0]}"
echo "== demo on changed";  PYTHONPATH=$W/src JAX_PLATFORMS=cpu JAX_ENABLE_X64=1 timeout 900 /venv/bin/python $D/demo.py 2>&1 | grep -v conda | tail -2; echo "exit=${PIPESTATUS[0]}"
echo "== check $PID on changed"; cd /verif && VERIF_REPO_SRC=$W/src ./check $PID "$@" 2>&1 | grep -v conda | grep -E "^VIOLATION|^KNOWN|^UNDECIDED|^C[0-9]+ \[" | cut -c1-220 | head -12
rm -rf $W
