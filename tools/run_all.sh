#!/bin/bash
# Runs every claimed quick (or thorough) check in turn against /repo and prints one line per property.
# usage: tools/run_all.sh [quick|thorough] [ID ...]   (default: every claimed check)
cd "$(dirname "$0")/.."
TIER=${1:-quick}
shift || true
IDS="$*"
[ -z "$IDS" ] && IDS=$(python3 -c "import json;print(' '.join(c['property_id'] for c in json.load(open('MANIFEST.json'))['checks']))")
rc=0
for id in $IDS; do
  t0=$(date +%s)
  out=$(./check $id --tier $TIER 2>&1)
  e=$?
  echo "$id exit=$e $(( $(date +%s) - t0 ))s $(echo "$out" | grep -E "^$id \[" | tail -1)"
  echo "$out" | grep -E "^VIOLATION|^UNDECIDED|^KNOWN-FINDING" | cut -c1-200 | head -5
  [ $e -ne 0 ] && rc=1
done
exit $rc
