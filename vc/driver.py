"""./check <ID> [--tier quick|thorough] [--jobs N] [--only REGEX] [--replay FILE]"""
import argparse
import json
import os
import sys
import traceback

VERIF = os.path.dirname(os.path.dirname(os.path.abspath(__file__)))
sys.path.insert(0, VERIF)


def main():
    ap = argparse.ArgumentParser()
    ap.add_argument("prop")
    ap.add_argument("--tier", default=os.environ.get("VERIF_TIER", "quick"))
    ap.add_argument("--jobs", type=int, default=None)
    ap.add_argument("--only", default=None)
    ap.add_argument("--replay", default=None)
    a = ap.parse_args()
    seed = int(os.environ.get("VERIF_SEED", "0") or 0)
    import vc

    vc.assert_repo_import()
    if a.replay:
        import importlib

        mod = importlib.import_module(f"props.{a.prop}")
        rec = json.load(open(a.replay))
        if not hasattr(mod, "replay"):
            print("no replay function for this property; the replay file carries the failed obligation and solver output")
            print(json.dumps({k: rec[k] for k in ("failed_obligation", "solver_detail", "replay_detail")}, indent=1))
            return 0
        ok, detail = mod.replay(rec["task"], rec["failed_obligation"], rec["witness"])
        print(detail)
        print("REPRODUCED" if ok else "NOT-REPRODUCED")
        return 1 if ok else 0
    from vc.harness import run_property

    try:
        return run_property(a.prop, a.tier if a.tier in ("quick", "thorough") else "quick", seed, a.jobs, a.only)
    except Exception:  # noqa: BLE001
        traceback.print_exc()
        return 3


if __name__ == "__main__":
    sys.exit(main())
