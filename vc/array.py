"""SymArray: arrays with (possibly symbolic) shapes, represented as index -> value functions.

Semantics implemented here are those of numpy / jax.numpy for the operations fdtdx uses.
Every operation is cross-checked against real JAX on random concrete inputs by
vc/crosscheck.py (concrete SymArrays hold python floats).
"""

from __future__ import annotations

import builtins
import itertools
import math
from fractions import Fraction

import numpy as _np
import z3

from .core import (
    SymBool,
    SymNum,
    Unsupported,
    _is_pyint,
    _num_parts,
    apply_uf,
    ctx,
    have_ctx,
    is_z3,
    ite,
    sym_floor,
    sym_round,
    sym_sqrt,
    to_z3_int,
    v_eq,
    zbool,
)


class ShapeError(ValueError):
    """Raised where numpy/JAX would raise a broadcasting / shape error."""


def is_sym(x):
    return isinstance(x, (SymNum, SymBool))


def dim_eq(a, b):
    """decide (possibly forking) whether two dims are equal"""
    if _is_pyint(a) and _is_pyint(b):
        return a == b
    r = v_eq(a, b)
    return bool(r)


def dim_is(a, k):
    if _is_pyint(a):
        return a == k
    return bool(v_eq(a, k))


def _dim_same_syntactic(a, b):
    if _is_pyint(a) and _is_pyint(b):
        return a == b
    if isinstance(a, SymNum) and isinstance(b, SymNum):
        return z3.is_true(z3.simplify(a.re == b.re))
    return False


def as_dim(x):
    """normalise a dimension value: python int or SymNum(int)"""
    if isinstance(x, SymNum):
        if not x.is_int:
            raise Unsupported("non-integer dimension")
        return x
    if isinstance(x, (_np.integer,)):
        return int(x)
    if _is_pyint(x):
        return x
    if isinstance(x, SymArray) and x.ndim == 0:
        return as_dim(x.item())
    raise Unsupported(f"dimension of type {type(x).__name__}")


def idx_key(idx):
    return tuple(i if _is_pyint(i) else ("z", i.get_id()) if is_z3(i) else ("s", id(i)) for i in idx)


def _raw_index(i):
    """index component -> python int or z3 Int term"""
    if _is_pyint(i):
        return i
    if isinstance(i, SymNum):
        return to_z3_int(i.re) if is_z3(i.re) else int(i.re)
    if is_z3(i):
        return i
    if isinstance(i, (_np.integer,)):
        return int(i)
    raise Unsupported(f"index of type {type(i).__name__}")


def _wrap_idx(i):
    """python int or z3 Int -> value usable in python arithmetic/comparisons"""
    if is_z3(i):
        return SymNum.wrap(i)
    return i


class _Dtype:
    def __init__(self, kind):
        self.kind_name = kind

    def __eq__(self, other):
        if isinstance(other, _Dtype):
            return self.kind_name == other.kind_name
        try:
            k = _np.dtype(other).kind
        except Exception:  # noqa: BLE001
            return False
        return {"f": "real", "c": "complex", "b": "bool", "i": "int", "u": "int"}.get(k) == self.kind_name

    def __hash__(self):
        return hash(self.kind_name)

    def __repr__(self):
        return f"symdtype({self.kind_name})"

    @property
    def kind(self):
        return {"real": "f", "complex": "c", "bool": "b", "int": "i"}[self.kind_name]


def _kind_of_value(v):
    if isinstance(v, (bool, SymBool, z3.BoolRef)):
        return "bool"
    if isinstance(v, complex):
        return "complex"
    if isinstance(v, SymNum):
        if v.im is not None:
            return "complex"
        return "int" if v.is_int else "real"
    if _is_pyint(v):
        return "int"
    return "real"


def _join_kind(*ks):
    order = ["bool", "int", "real", "complex"]
    return order[max(order.index(k) for k in ks)]


class SymArray:
    __array_priority__ = 1000

    def __init__(self, shape, fn, kind="real", memo=True):
        self.shape = tuple(as_dim(d) for d in shape)
        self._fn = fn
        self.kind = kind
        self._memo = {} if memo else None

    # ------------------------------------------------------------------ basics
    @property
    def ndim(self):
        return len(self.shape)

    @property
    def dtype(self):
        return _Dtype(self.kind)

    @property
    def size(self):
        r = 1
        for d in self.shape:
            r = r * d
        return r

    def __len__(self):
        if not self.shape:
            raise TypeError("len() of 0-d array")
        d = self.shape[0]
        if _is_pyint(d):
            return d
        raise Unsupported("len() of array with symbolic leading dimension")

    def at_index(self, idx):
        """value at raw index tuple (python ints / z3 Int terms)"""
        idx = tuple(idx)
        if len(idx) != len(self.shape):
            raise Unsupported(f"rank mismatch in element access: {len(idx)} vs {len(self.shape)}")
        if self._memo is None:
            return self._fn(idx)
        k = idx_key(idx)
        hit = self._memo.get(k)
        if hit is not None:
            return hit[1]
        v = self._fn(idx)
        self._memo[k] = (idx, v)
        return v

    def item(self):
        if self.ndim != 0:
            if all(_is_pyint(d) and d == 1 for d in self.shape):
                return self.at_index((0,) * self.ndim)
            raise ValueError("item() of non-scalar array")
        return self.at_index(())

    def is_concrete_shape(self):
        return all(_is_pyint(d) for d in self.shape)

    def concrete_indices(self):
        return itertools.product(*[range(d) for d in self.shape])

    def to_numpy(self, dtype=None):
        if not self.is_concrete_shape():
            raise Unsupported("to_numpy of symbolic-shaped array")
        out = _np.empty(self.shape, dtype=object)
        for idx in self.concrete_indices():
            out[idx] = self.at_index(idx)
        if dtype is not None:
            conv = out.astype(object)
            flat = [complex(v.re, v.im) if isinstance(v, SymNum) and v.im is not None else v for v in conv.ravel()]
            return _np.array(flat, dtype=dtype).reshape(self.shape)
        return out

    def __repr__(self):
        return f"SymArray(shape={self.shape}, kind={self.kind})"

    def __bool__(self):
        if self.ndim == 0 or all(_is_pyint(d) and d == 1 for d in self.shape):
            return bool(self.item())
        raise ValueError("truth value of an array with more than one element is ambiguous")

    def __iter__(self):
        n = len(self)
        for i in range(n):
            yield self[i]

    def __index__(self):
        v = self.item()
        if _is_pyint(v):
            return v
        raise Unsupported("symbolic array element used as python index")

    def __int__(self):
        v = self.item()
        return int(v)

    def __float__(self):
        v = self.item()
        return float(v)

    def __hash__(self):
        return id(self)

    # ------------------------------------------------------------------ elementwise
    def _map(self, f, kind=None):
        src = self
        return SymArray(self.shape, lambda idx: f(src.at_index(idx)), kind or self.kind)

    def astype(self, dt):
        k = _dtype_kind(dt)
        if k == self.kind:
            return self
        if k == "bool":
            return self._map(lambda v: v != 0 if not isinstance(v, (bool, SymBool)) else v, "bool")
        if self.kind == "bool":
            return self._map(lambda v: _bool_to_num(v), k)
        if k == "int" and self.kind == "real":
            return self._map(lambda v: _trunc(v), "int")
        if k == "real" and self.kind == "complex":
            return self._map(lambda v: _real(v), "real")
        return SymArray(self.shape, self._fn, k)

    @property
    def real(self):
        if self.kind != "complex":
            return self
        return self._map(_real, "real")

    @property
    def imag(self):
        if self.kind != "complex":
            return self._map(lambda v: 0, "real")
        return self._map(_imag, "real")

    def conj(self):
        if self.kind != "complex":
            return self
        return self._map(_conj)

    conjugate = conj

    @property
    def T(self):
        return transpose(self)

    def transpose(self, *axes):
        if len(axes) == 1 and isinstance(axes[0], (tuple, list)):
            axes = tuple(axes[0])
        return transpose(self, axes or None)

    def reshape(self, *shape, **kw):
        if len(shape) == 1 and isinstance(shape[0], (tuple, list)):
            shape = tuple(shape[0])
        return reshape(self, shape)

    def flatten(self):
        return reshape(self, (-1,))

    ravel = flatten

    def squeeze(self, axis=None):
        return squeeze(self, axis)

    def sum(self, axis=None, keepdims=False, **kw):
        return reduce_sum(self, axis, keepdims)

    def mean(self, axis=None, keepdims=False, **kw):
        return reduce_mean(self, axis, keepdims)

    def prod(self, axis=None, keepdims=False, **kw):
        return reduce_generic(self, axis, keepdims, lambda a, b: a * b, 1)

    def max(self, axis=None, keepdims=False, **kw):
        from .core import sym_max

        return reduce_generic(self, axis, keepdims, sym_max, None)

    def min(self, axis=None, keepdims=False, **kw):
        from .core import sym_min

        return reduce_generic(self, axis, keepdims, sym_min, None)

    def any(self, axis=None, keepdims=False, **kw):
        return reduce_generic(self.astype("bool"), axis, keepdims, lambda a, b: _vor(a, b), False, kind="bool")

    def all(self, axis=None, keepdims=False, **kw):
        return reduce_generic(self.astype("bool"), axis, keepdims, lambda a, b: _vand(a, b), True, kind="bool")

    def copy(self):
        return self

    def block_until_ready(self):
        return self

    def tolist(self):
        if self.ndim == 0:
            return self.item()
        return [self[i].tolist() for i in range(len(self))]

    @property
    def at(self):
        return _At(self)

    # operators
    def _bin(self, other, f, kind=None, reflected=False):
        o = asarray(other, allow_fail=True)
        if o is None:
            return NotImplemented
        a, b = (o, self) if reflected else (self, o)
        return elementwise2(a, b, f, kind)

    def __add__(self, o):
        return self._bin(o, lambda x, y: x + y)

    def __radd__(self, o):
        return self._bin(o, lambda x, y: x + y, reflected=True)

    def __sub__(self, o):
        return self._bin(o, lambda x, y: x - y)

    def __rsub__(self, o):
        return self._bin(o, lambda x, y: x - y, reflected=True)

    def __mul__(self, o):
        return self._bin(o, _vmul)

    def __rmul__(self, o):
        return self._bin(o, _vmul, reflected=True)

    def __truediv__(self, o):
        return self._bin(o, _vtruediv, kind="div")

    def __rtruediv__(self, o):
        return self._bin(o, _vtruediv, kind="div", reflected=True)

    def __floordiv__(self, o):
        return self._bin(o, lambda x, y: _as_sym(x) // y)

    def __rfloordiv__(self, o):
        return self._bin(o, lambda x, y: _as_sym(x) // y, reflected=True)

    def __mod__(self, o):
        return self._bin(o, lambda x, y: _as_sym(x) % y)

    def __rmod__(self, o):
        return self._bin(o, lambda x, y: _as_sym(x) % y, reflected=True)

    def __pow__(self, o):
        if _is_pyint(o) or isinstance(o, float):
            return self._map(lambda v: _vpow(v, o), "real" if self.kind in ("int", "bool") and not (_is_pyint(o) and o >= 0) else None)
        return self._bin(o, _vpow)

    def __rpow__(self, o):
        return self._bin(o, _vpow, reflected=True)

    def __neg__(self):
        return self._map(lambda v: -_bool_to_num(v))

    def __pos__(self):
        return self

    def __abs__(self):
        return self._map(_vabs, "real" if self.kind == "complex" else None)

    def __invert__(self):
        if self.kind != "bool":
            raise Unsupported("bitwise invert of non-bool array")
        return self._map(_vnot, "bool")

    def __and__(self, o):
        return self._bin(o, _vand, kind="bool")

    __rand__ = __and__

    def __or__(self, o):
        return self._bin(o, _vor, kind="bool")

    __ror__ = __or__

    def __xor__(self, o):
        return self._bin(o, lambda a, b: _vnot(v_eq(a, b)), kind="bool")

    __rxor__ = __xor__

    def __lt__(self, o):
        return self._bin(o, lambda x, y: _as_sym(x) < y, kind="bool")

    def __le__(self, o):
        return self._bin(o, lambda x, y: _as_sym(x) <= y, kind="bool")

    def __gt__(self, o):
        return self._bin(o, lambda x, y: _as_sym(x) > y, kind="bool")

    def __ge__(self, o):
        return self._bin(o, lambda x, y: _as_sym(x) >= y, kind="bool")

    def __eq__(self, o):
        if o is None:
            return False
        return self._bin(o, v_eq, kind="bool")

    def __ne__(self, o):
        if o is None:
            return True
        return self._bin(o, lambda x, y: _vnot(v_eq(x, y)), kind="bool")

    def __matmul__(self, o):
        return matmul(self, asarray(o))

    def __rmatmul__(self, o):
        return matmul(asarray(o), self)

    # ------------------------------------------------------------------ indexing
    def __getitem__(self, idx):
        return getitem(self, idx)


# ---------------------------------------------------------------------------------------
# scalar value helpers
# ---------------------------------------------------------------------------------------


def _as_sym(x):
    """make sure python operators dispatch to SymNum for python-number left operands"""
    if isinstance(x, (SymNum, SymBool)):
        return x
    return x


def _bool_to_num(v):
    if isinstance(v, bool):
        return int(v)
    if isinstance(v, SymBool):
        return v._num()
    return v


def _vmul(x, y):
    return _bool_to_num(x) * _bool_to_num(y)


def _vtruediv(x, y):
    x, y = _bool_to_num(x), _bool_to_num(y)
    if not is_sym(x) and not is_sym(y):
        if y == 0:
            # numpy semantics (inf/nan) are outside the real-number model
            raise Unsupported("concrete division by zero (IEEE inf/nan semantics not modelled)")
        if _is_pyint(x) and _is_pyint(y):
            return Fraction(x, y)
        return x / y
    return x / y


def _vpow(x, p):
    x = _bool_to_num(x)
    if is_sym(p):
        raise Unsupported("symbolic exponent")
    if is_sym(x):
        return x**p
    return x**p


def _vabs(v):
    v = _bool_to_num(v)
    return abs(v)


def _vnot(v):
    if isinstance(v, bool):
        return not v
    if isinstance(v, SymBool):
        return ~v
    return SymBool.wrap(z3.Not(zbool(v)))


def _tobool(v):
    if isinstance(v, (bool, SymBool)):
        return v
    if isinstance(v, SymNum):
        return v != 0
    return bool(v)


def _vand(a, b):
    a, b = _tobool(a), _tobool(b)
    if isinstance(a, bool):
        return b if a else False
    if isinstance(b, bool):
        return a if b else False
    return a & b


def _vor(a, b):
    a, b = _tobool(a), _tobool(b)
    if isinstance(a, bool):
        return True if a else b
    if isinstance(b, bool):
        return True if b else a
    return a | b


def _real(v):
    if isinstance(v, SymNum):
        return v.real
    if isinstance(v, complex):
        return v.real
    return v


def _imag(v):
    if isinstance(v, SymNum):
        return v.imag
    if isinstance(v, complex):
        return v.imag
    return 0


def _conj(v):
    if isinstance(v, (SymNum, complex)):
        return v.conjugate()
    return v


def _trunc(v):
    """float -> int conversion (truncation toward zero)"""
    if is_sym(v):
        fl = sym_floor(v)
        return ite(v >= 0, fl, -sym_floor(-v))
    return int(v)


def _dtype_kind(dt):
    if isinstance(dt, _Dtype):
        return dt.kind_name
    if isinstance(dt, str) and dt in ("real", "complex", "bool", "int"):
        return dt
    if dt is bool:
        return "bool"
    if dt is int:
        return "int"
    if dt is float:
        return "real"
    if dt is complex:
        return "complex"
    try:
        k = _np.dtype(dt).kind
    except Exception as e:  # noqa: BLE001
        raise Unsupported(f"dtype {dt!r}") from e
    return {"f": "real", "c": "complex", "b": "bool", "i": "int", "u": "int", "V": "real"}[k]


# ---------------------------------------------------------------------------------------
# construction
# ---------------------------------------------------------------------------------------


def _py_scalar(x):
    if isinstance(x, (_np.generic,)):
        return x.item()
    return x


def asarray(x, dtype=None, allow_fail=False):
    if isinstance(x, SymArray):
        return x if dtype is None else x.astype(dtype)
    if isinstance(x, (SymNum, SymBool, bool, int, float, complex, Fraction)):
        v = x
        r = SymArray((), lambda idx: v, _kind_of_value(v), memo=False)
        return r if dtype is None else r.astype(dtype)
    if isinstance(x, _np.generic):
        return asarray(x.item(), dtype)
    if isinstance(x, _np.ndarray):
        return from_numpy(x, dtype)
    try:
        import jax

        if isinstance(x, jax.Array):
            return from_numpy(_np.asarray(x), dtype)
    except ImportError:  # pragma: no cover
        pass
    if isinstance(x, (list, tuple)):
        if len(x) == 0:
            return SymArray((0,), lambda idx: 0, "real")
        parts = [asarray(e) for e in x]
        r = stack(parts, 0)
        return r if dtype is None else r.astype(dtype)
    if allow_fail:
        return None
    raise Unsupported(f"asarray of {type(x).__name__}")


def from_numpy(a, dtype=None):
    a = _np.asarray(a)
    if a.dtype == object:
        data = a
        kind = "real"
        for v in a.ravel():
            kind = _join_kind(kind, _kind_of_value(v)) if kind != "real" or _kind_of_value(v) != "int" else kind
    else:
        data = a
        kind = {"f": "real", "c": "complex", "b": "bool", "i": "int", "u": "int"}[a.dtype.kind]

    def fn(idx, data=data):
        if all(_is_pyint(i) for i in idx):
            v = data[idx]
            return v.item() if isinstance(v, _np.generic) else v
        # symbolic index into concrete data: build an ite chain over the (small) symbolic axes
        return _select_concrete(data, idx)

    r = SymArray(a.shape, fn, kind)
    return r if dtype is None else r.astype(dtype)


def _select_concrete(data, idx):
    """data[idx] for partially symbolic idx over concrete numpy data (ite chain)."""
    for ax, i in enumerate(idx):
        if not _is_pyint(i):
            n = data.shape[ax]
            if n == 0:
                raise Unsupported("symbolic index into empty axis")
            if n > 512:
                raise Unsupported("symbolic index into a long concrete axis")
            res = None
            for k in reversed(range(n)):
                sub = idx[:ax] + (k,) + idx[ax + 1 :]
                v = _select_concrete(data, sub)
                if res is None:
                    res = v
                else:
                    res = ite(SymBool.wrap(i == k), v, res)
            return res
    v = data[tuple(idx)]
    return v.item() if isinstance(v, _np.generic) else v


def full(shape, value, dtype=None):
    if _is_pyint(shape) or isinstance(shape, SymNum):
        shape = (shape,)
    value = _py_scalar(value)
    if isinstance(value, SymArray):
        value = value.item()
    kind = _dtype_kind(dtype) if dtype is not None else _kind_of_value(value)
    return SymArray(tuple(shape), lambda idx: value, kind, memo=False)


def zeros(shape, dtype=None):
    k = _dtype_kind(dtype) if dtype is not None else "real"
    return full(shape, False if k == "bool" else 0, k)


def ones(shape, dtype=None):
    k = _dtype_kind(dtype) if dtype is not None else "real"
    return full(shape, True if k == "bool" else 1, k)


def fresh_array(name, shape, kind="real", fact=None):
    """A fully symbolic array: elements are applications of a fresh uninterpreted function.

    fact(value, idx) -> condition: a universally quantified hypothesis about the elements
    (e.g. positivity).  It is instantiated explicitly at every index at which the array is
    evaluated (the solver never sees an open quantifier)."""
    c = ctx()
    shape = tuple(as_dim(d) for d in shape)
    n = len(shape)
    base = c.fresh_name(name)

    def with_fact(mk):
        if fact is None:
            return mk

        def fn(idx):
            v = mk(idx)
            cc = ctx()
            f = fact(v, tuple(_wrap_idx(i) for i in idx))
            if f is not True:
                cc.assume(zbool(f), f"fact:{name}")
            return v

        return fn

    if kind == "bool":
        f = z3.Function(base, *([z3.IntSort()] * n), z3.BoolSort()) if n else z3.Bool(base)
        arr = SymArray(shape, with_fact((lambda idx: SymBool.wrap(f(*[to_z3_int(i) for i in idx]))) if n else (lambda idx: SymBool(f))), "bool")
        arr._z3funcs = (f,)
        return arr
    sort = z3.IntSort() if kind == "int" else z3.RealSort()
    if kind == "complex":
        fr = z3.Function(base + ".re", *([z3.IntSort()] * n), z3.RealSort()) if n else z3.Real(base + ".re")
        fi = z3.Function(base + ".im", *([z3.IntSort()] * n), z3.RealSort()) if n else z3.Real(base + ".im")
        if n:
            arr = SymArray(shape, with_fact(lambda idx: SymNum(fr(*[to_z3_int(i) for i in idx]), fi(*[to_z3_int(i) for i in idx]))), "complex")
        else:
            arr = SymArray(shape, with_fact(lambda idx: SymNum(fr, fi)), "complex")
        arr._z3funcs = (fr, fi)
        return arr
    f = z3.Function(base, *([z3.IntSort()] * n), sort) if n else z3.Const(base, sort)
    arr = SymArray(shape, with_fact((lambda idx: SymNum(f(*[to_z3_int(i) for i in idx]))) if n else (lambda idx: SymNum(f))), kind)
    arr._z3funcs = (f,)
    arr._name = base
    return arr


# ---------------------------------------------------------------------------------------
# broadcasting
# ---------------------------------------------------------------------------------------


def broadcast_shapes(*shapes):
    n = builtins.max((len(s) for s in shapes), default=0)
    out = []
    for k in range(n):
        dims = []
        for s in shapes:
            j = k - (n - len(s))
            if j >= 0:
                dims.append(s[j])
        cur = None
        for d in dims:
            if _is_pyint(d) and d == 1:
                continue
            if cur is None:
                cur = d
                continue
            if _dim_same_syntactic(cur, d):
                continue
            if dim_eq(cur, d):
                continue
            # not equal: numpy allows it only if one of them is 1
            if not _is_pyint(cur) and dim_is(cur, 1):
                cur = d
                continue
            if not _is_pyint(d) and dim_is(d, 1):
                continue
            raise ShapeError(f"operands could not be broadcast together with shapes {shapes}")
        out.append(1 if cur is None else cur)
    return tuple(out)


def _bcast_index(shape, out_shape, idx):
    """map an index of the broadcast result to an index of an operand of `shape`"""
    off = len(out_shape) - len(shape)
    res = []
    for j, d in enumerate(shape):
        if _is_pyint(d) and d == 1:
            res.append(0)
        elif _dim_same_syntactic(d, out_shape[j + off]):
            res.append(idx[j + off])
        else:
            # dims were decided equal on this path, or d == 1 was decided
            if not _is_pyint(d) and have_ctx() and ctx().implied(v_eq(d, 1)) and not ctx().implied(v_eq(out_shape[j + off], 1)):
                res.append(0)
            else:
                res.append(idx[j + off])
    return tuple(res)


def broadcast_to(a, shape):
    a = asarray(a)
    shape = tuple(as_dim(d) for d in shape)
    out = broadcast_shapes(a.shape, shape)
    if len(out) != len(shape):
        raise ShapeError(f"cannot broadcast {a.shape} to {shape}")
    for x, y in zip(out, shape):
        if not _dim_same_syntactic(x, y) and not dim_eq(x, y):
            raise ShapeError(f"cannot broadcast {a.shape} to {shape}")
    src = a
    return SymArray(shape, lambda idx: src.at_index(_bcast_index(src.shape, shape, idx)), a.kind)


def elementwise2(a, b, f, kind=None):
    a, b = asarray(a), asarray(b)
    out = broadcast_shapes(a.shape, b.shape)
    if kind is None:
        k = _join_kind(a.kind, b.kind)
        if k == "bool":
            k = "int"
    elif kind == "div":
        k = _join_kind(a.kind, b.kind, "real")
    else:
        k = kind
    ash, bsh = a.shape, b.shape
    return SymArray(out, lambda idx: f(a.at_index(_bcast_index(ash, out, idx)), b.at_index(_bcast_index(bsh, out, idx))), k)


def elementwise(f, *arrs, kind=None):
    arrs = [asarray(a) for a in arrs]
    out = broadcast_shapes(*[a.shape for a in arrs])
    k = kind or _join_kind(*[a.kind for a in arrs])
    return SymArray(out, lambda idx: f(*[a.at_index(_bcast_index(a.shape, out, idx)) for a in arrs]), k)


def where(c, a=None, b=None):
    if a is None and b is None:
        raise Unsupported("one-argument where")
    c, a, b = asarray(c), asarray(a), asarray(b)
    k = _join_kind(a.kind, b.kind)
    return elementwise(lambda cc, x, y: ite(_tobool(cc), x, y), c, a, b, kind=k)


# ---------------------------------------------------------------------------------------
# indexing
# ---------------------------------------------------------------------------------------


def _norm_slice(sl, n):
    """-> (start, step, length); start/length python ints or SymNum; forks via bool(SymBool)."""
    step = sl.step if sl.step is not None else 1
    if isinstance(step, SymNum):
        raise Unsupported("symbolic slice step")
    step = int(step)
    if step == 0:
        raise ValueError("slice step cannot be zero")
    start, stop = sl.start, sl.stop
    start = _py_scalar(start)
    stop = _py_scalar(stop)
    if isinstance(start, SymArray):
        start = start.item()
    if isinstance(stop, SymArray):
        stop = stop.item()
    if step > 0:
        if start is None:
            s = 0
        else:
            s = start
            if s < 0:
                s = s + n
                if s < 0:
                    s = 0
            elif s > n:
                s = n
        if stop is None:
            e = n
        else:
            e = stop
            if e < 0:
                e = e + n
                if e < 0:
                    e = 0
            elif e > n:
                e = n
        if step == 1:
            ln = e - s
            if ln < 0:
                ln = 0
        else:
            ln = e - s
            if ln < 0:
                ln = 0
            else:
                ln = (ln + step - 1) // step
        return s, step, ln
    # negative step: only the patterns numpy code in fdtdx uses
    if start is None and stop is None:
        ln = n if step == -1 else (n + (-step) - 1) // (-step)
        return n - 1, step, ln
    if not is_sym(n) and not is_sym(start) and not is_sym(stop):
        r = range(*sl.indices(n))
        return r.start, step, len(r)
    raise Unsupported("negative-step slice with symbolic bounds")


def _expand_index(idx, ndim):
    if not isinstance(idx, tuple):
        idx = (idx,)
    idx = list(idx)
    # unpack 0-d SymArray / numpy ints
    n_consume = sum(1 for i in idx if i is not None and i is not Ellipsis)
    if any(i is Ellipsis for i in idx):
        k = [j for j, i in enumerate(idx) if i is Ellipsis]
        if len(k) > 1:
            raise IndexError("an index can only have a single ellipsis")
        k = k[0]
        idx = idx[:k] + [slice(None)] * (ndim - n_consume) + idx[k + 1 :]
    else:
        idx = idx + [slice(None)] * (ndim - n_consume)
    if sum(1 for i in idx if i is not None) > ndim:
        raise IndexError("too many indices for array")
    return idx


def getitem(a, idx):
    idxs = _expand_index(idx, a.ndim)
    # detect advanced (array) indices
    adv = [(p, i) for p, i in enumerate(idxs) if isinstance(i, (SymArray, _np.ndarray, list)) and not (isinstance(i, SymArray) and i.ndim == 0) and not (isinstance(i, _np.ndarray) and i.ndim == 0)]
    if adv:
        return _advanced_getitem(a, idxs, adv)
    out_shape = []
    plan = []  # per input axis: ('fix', value) | ('sl', start, step, out_pos)
    ax = 0
    for it in idxs:
        if it is None:
            out_shape.append(1)
            continue
        n = a.shape[ax]
        if isinstance(it, slice):
            s, st, ln = _norm_slice(it, n)
            plan.append(("sl", s, st, len(out_shape)))
            out_shape.append(ln)
        else:
            v = _py_scalar(it)
            if isinstance(v, SymArray):
                v = v.item()
            if isinstance(v, _np.ndarray):
                v = v.item()
            if isinstance(v, (bool, SymBool)):
                raise Unsupported("boolean scalar index")
            if _is_pyint(v):
                if v < 0:
                    v = v + n
                if _is_pyint(n):
                    # JAX clamps out-of-range static indices (numpy would raise)
                    v = builtins.min(builtins.max(v, 0), n - 1) if n > 0 else 0
            elif isinstance(v, SymNum):
                if not v.is_int:
                    raise Unsupported("non-integer index")
                v = ite(v < 0, v + n, v)
            else:
                raise Unsupported(f"index of type {type(v).__name__}")
            plan.append(("fix", v))
        ax += 1
    src = a

    def fn(idx):
        res = []
        for p in plan:
            if p[0] == "fix":
                res.append(_raw_index(p[1]))
            else:
                _, s, st, pos = p
                i = idx[pos]
                if st == 1:
                    v = _wrap_idx(i) + s if not (_is_pyint(s) and s == 0) else _wrap_idx(i)
                else:
                    v = s + _wrap_idx(i) * st
                res.append(_raw_index(v))
        return src.at_index(tuple(res))

    return SymArray(tuple(out_shape), fn, a.kind)


def _advanced_getitem(a, idxs, adv):
    """Integer-array / boolean-mask indexing: supported for a single 1-D integer index array."""
    if len(adv) != 1:
        raise Unsupported("multiple advanced indices")
    p, ia = adv[0]
    ia = asarray(ia)
    if ia.kind == "bool":
        raise Unsupported("boolean mask indexing")
    if any(i is None for i in idxs):
        raise Unsupported("advanced indexing with newaxis")
    # every other index must be slice or scalar; build via take along axis then basic indexing
    taken = take(a, ia, axis=p)
    rest = list(idxs)
    rest[p : p + 1] = [slice(None)] * ia.ndim
    return getitem(taken, tuple(rest))


class _At:
    def __init__(self, arr):
        self.arr = arr

    def __getitem__(self, idx):
        return _AtIdx(self.arr, idx)


class _AtIdx:
    def __init__(self, arr, idx):
        self.arr = arr
        self.idx = idx

    def _apply(self, values, comb):
        a = self.arr
        idxs = _expand_index(self.idx, a.ndim)
        if any(i is None for i in idxs):
            raise Unsupported("newaxis inside .at[]")
        for i in idxs:
            if isinstance(i, (SymArray, _np.ndarray, list)) and getattr(i, "ndim", 1) != 0:
                raise Unsupported(".at[] with array index")
        plan = []
        region_shape = []
        for ax, it in enumerate(idxs):
            n = a.shape[ax]
            if isinstance(it, slice):
                s, st, ln = _norm_slice(it, n)
                plan.append(("sl", s, st, ln, len(region_shape)))
                region_shape.append(ln)
            else:
                v = _py_scalar(it)
                if isinstance(v, SymArray):
                    v = v.item()
                if _is_pyint(v):
                    if v < 0:
                        v = v + n
                elif isinstance(v, SymNum):
                    v = ite(v < 0, v + n, v)
                else:
                    raise Unsupported(f".at[] index of type {type(v).__name__}")
                plan.append(("fix", v))
        vals = broadcast_to(asarray(values), tuple(region_shape))
        src = a
        kind = _join_kind(a.kind, vals.kind) if a.kind != "bool" else a.kind

        def fn(idx):
            conds = []
            ridx = [None] * len(region_shape)
            for axn, p in enumerate(plan):
                i = _wrap_idx(idx[axn])
                if p[0] == "fix":
                    conds.append(v_eq(i, p[1]))
                else:
                    _, s, st, ln, pos = p
                    if st == 1:
                        r = i - s
                        conds.append(_vand(r >= 0, r < ln))
                        ridx[pos] = r
                    elif st > 1:
                        r = i - s
                        q = r // st
                        conds.append(_vand(_vand(r >= 0, v_eq(r % st, 0)), q < ln))
                        ridx[pos] = q
                    else:
                        r = s - i
                        q = r // (-st)
                        conds.append(_vand(_vand(r >= 0, v_eq(r % (-st), 0)), q < ln))
                        ridx[pos] = q
            c = True
            for cc in conds:
                c = _vand(c, cc)
            old = src.at_index(idx)
            if c is False:
                return old
            new = comb(old, vals.at_index(tuple(_raw_index(r) for r in ridx)))
            return ite(c, new, old)

        return SymArray(a.shape, fn, kind)

    def set(self, values, **kw):
        return self._apply(values, lambda old, v: v)

    def add(self, values, **kw):
        return self._apply(values, lambda old, v: old + v)

    def subtract(self, values, **kw):
        return self._apply(values, lambda old, v: old - v)

    def multiply(self, values, **kw):
        return self._apply(values, lambda old, v: _vmul(old, v))

    def divide(self, values, **kw):
        return self._apply(values, lambda old, v: _vtruediv(old, v))

    def get(self, **kw):
        return getitem(self.arr, self.idx)

    def max(self, values, **kw):
        from .core import sym_max

        return self._apply(values, sym_max)

    def min(self, values, **kw):
        from .core import sym_min

        return self._apply(values, sym_min)


# ---------------------------------------------------------------------------------------
# shape manipulation
# ---------------------------------------------------------------------------------------


def _norm_axis(ax, nd):
    ax = int(ax)
    if ax < 0:
        ax += nd
    if not 0 <= ax < nd:
        raise ValueError(f"axis {ax} out of bounds for ndim {nd}")
    return ax


def transpose(a, axes=None):
    a = asarray(a)
    if axes is None:
        axes = tuple(reversed(range(a.ndim)))
    axes = tuple(_norm_axis(x, a.ndim) for x in axes)
    if sorted(axes) != list(range(a.ndim)):
        raise ValueError("axes don't match array")
    shape = tuple(a.shape[x] for x in axes)

    def fn(idx):
        src = [None] * len(axes)
        for k, x in enumerate(axes):
            src[x] = idx[k]
        return a.at_index(tuple(src))

    return SymArray(shape, fn, a.kind)


def moveaxis(a, source, destination):
    a = asarray(a)
    src = [source] if _is_pyint(source) else list(source)
    dst = [destination] if _is_pyint(destination) else list(destination)
    src = [_norm_axis(s, a.ndim) for s in src]
    dst = [_norm_axis(d, a.ndim) for d in dst]
    order = [n for n in range(a.ndim) if n not in src]
    for d, s in sorted(zip(dst, src)):
        order.insert(d, s)
    return transpose(a, order)


def swapaxes(a, a1, a2):
    a = asarray(a)
    order = list(range(a.ndim))
    a1, a2 = _norm_axis(a1, a.ndim), _norm_axis(a2, a.ndim)
    order[a1], order[a2] = order[a2], order[a1]
    return transpose(a, order)


def expand_dims(a, axis):
    a = asarray(a)
    axes = [axis] if _is_pyint(axis) else list(axis)
    nd = a.ndim + len(axes)
    axes = sorted(_norm_axis(x, nd) for x in axes)
    idx = []
    it = iter(range(a.ndim))
    for k in range(nd):
        if k in axes:
            idx.append(None)
        else:
            next(it)
            idx.append(slice(None))
    return getitem(a, tuple(idx))


def squeeze(a, axis=None):
    a = asarray(a)
    if axis is None:
        axes = [k for k, d in enumerate(a.shape) if _is_pyint(d) and d == 1]
    else:
        axes = [axis] if _is_pyint(axis) else list(axis)
        axes = [_norm_axis(x, a.ndim) for x in axes]
        for x in axes:
            if not dim_is(a.shape[x], 1):
                raise ValueError("cannot select an axis to squeeze out which has size not equal to one")
    idx = tuple(0 if k in axes else slice(None) for k in range(a.ndim))
    return getitem(a, idx)


def _prod_dims(ds):
    r = 1
    for d in ds:
        r = r * d
    return r


def reshape(a, shape):
    a = asarray(a)
    if _is_pyint(shape) or isinstance(shape, SymNum):
        shape = (shape,)
    shape = [as_dim(d) if not (_is_pyint(d) and d == -1) else -1 for d in shape]
    # resolve -1
    if any(_is_pyint(d) and d == -1 for d in shape):
        known = _prod_dims([d for d in shape if not (_is_pyint(d) and d == -1)])
        total = a.size
        if _is_pyint(known) and _is_pyint(total):
            missing = total // known if known else 0
        elif _is_pyint(known) and known == 1:
            missing = total
        else:
            raise Unsupported("reshape(-1) with symbolic sizes")
        shape = [missing if (_is_pyint(d) and d == -1) else d for d in shape]
    shape = tuple(shape)
    # strategy: match the non-unit dims of both shapes in order; they must agree pairwise,
    # otherwise fall back to a concrete row-major re-indexing (concrete shapes only).
    src_nz = [(k, d) for k, d in enumerate(a.shape) if not (_is_pyint(d) and d == 1)]
    dst_nz = [(k, d) for k, d in enumerate(shape) if not (_is_pyint(d) and d == 1)]
    if len(src_nz) == len(dst_nz) and all(_dim_same_syntactic(x[1], y[1]) or dim_eq(x[1], y[1]) for x, y in zip(src_nz, dst_nz)):
        mapping = {s[0]: d[0] for s, d in zip(src_nz, dst_nz)}

        def fn(idx):
            return a.at_index(tuple(idx[mapping[k]] if k in mapping else 0 for k in range(a.ndim)))

        return SymArray(shape, fn, a.kind)
    if a.is_concrete_shape() and all(_is_pyint(d) for d in shape):
        if _prod_dims(shape) != a.size:
            raise ShapeError(f"cannot reshape array of shape {a.shape} into shape {shape}")
        sshape = a.shape

        def fn2(idx):
            if all(_is_pyint(i) for i in idx):
                flat = 0
                for i, d in zip(idx, shape):
                    flat = flat * d + i
                src = []
                for d in reversed(sshape):
                    src.append(flat % d)
                    flat //= d
                return a.at_index(tuple(reversed(src)))
            flat = 0
            for i, d in zip(idx, shape):
                flat = flat * d + _wrap_idx(i)
            src = []
            for d in reversed(sshape):
                src.append(_raw_index(flat % d))
                flat = flat // d
            return a.at_index(tuple(reversed(src)))

        return SymArray(shape, fn2, a.kind)
    # general symbolic reshape: split/merge of a concrete leading block with symbolic trailing dims
    return _reshape_symbolic(a, shape)


def _reshape_symbolic(a, shape):
    # handle (K*, S...) <-> (k1, k2, S...) where the symbolic trailing dims agree pairwise
    t = 0
    while t < builtins.min(a.ndim, len(shape)) and (_dim_same_syntactic(a.shape[a.ndim - 1 - t], shape[len(shape) - 1 - t])):
        t += 1
    head_src = a.shape[: a.ndim - t]
    head_dst = shape[: len(shape) - t]
    if all(_is_pyint(d) for d in head_src) and all(_is_pyint(d) for d in head_dst) and _prod_dims(head_src) == _prod_dims(head_dst):
        hs, hd = head_src, head_dst

        def fn(idx):
            hi = idx[: len(hd)]
            flat = 0
            for i, d in zip(hi, hd):
                flat = flat * d + _wrap_idx(i)
            src = []
            for d in reversed(hs):
                src.append(_raw_index(flat % d))
                flat = flat // d
            return a.at_index(tuple(reversed(src)) + tuple(idx[len(hd) :]))

        return SymArray(shape, fn, a.kind)
    return _reshape_middle_block(a, shape)


def _reshape_middle_block(a, shape):
    """row-major reshape where src and dst agree (syntactically) on a common leading and a common
    trailing run of dims and only the middle block is merged/split:
        (L..., s1..sm, T...) -> (L..., d1..dn, T...)   with  prod(s) == prod(d)  (provably).
    The middle dims may be symbolic.  In-range indices are assumed (as everywhere in this module):
    a flat index built here from components (c_k < dim_k) is remembered per path so that splitting
    it again over the same dims returns the components instead of div/mod terms."""
    src, dst = tuple(a.shape), tuple(shape)
    p = 0
    while p < builtins.min(len(src), len(dst)) and _dim_same_syntactic(src[p], dst[p]):
        p += 1
    t = 0
    while t < builtins.min(len(src), len(dst)) - p and _dim_same_syntactic(src[len(src) - 1 - t], dst[len(dst) - 1 - t]):
        t += 1
    smid = src[p : len(src) - t]
    dmid = dst[p : len(dst) - t]
    if not smid or not dmid:
        raise Unsupported(f"reshape {a.shape} -> {shape} with symbolic dims")
    ps, pd = _prod_dims(smid), _prod_dims(dmid)
    if _is_pyint(ps) and _is_pyint(pd):
        if ps != pd:
            raise ShapeError(f"cannot reshape array of shape {a.shape} into shape {shape}")
    elif not (_dim_same_syntactic(ps, pd) or (have_ctx() and ctx().implied(v_eq(ps, pd)))):
        raise Unsupported(f"reshape {a.shape} -> {shape}: cannot establish equal sizes")
    for d in tuple(smid) + tuple(dmid):
        if not _is_pyint(d) and not (have_ctx() and ctx().implied(d >= 1)):
            raise Unsupported("reshape over a possibly empty symbolic axis")

    def dims_key(ds):
        return tuple(d if _is_pyint(d) else ("z", d.re.get_id()) for d in ds)

    def table():
        c = ctx()
        tb = getattr(c, "_flat_index_table", None)
        if tb is None:
            tb = c._flat_index_table = {}
        return tb

    def fn(idx):
        mid = idx[p : p + len(dmid)]
        if all(_is_pyint(i) for i in mid) and all(_is_pyint(d) for d in tuple(smid) + tuple(dmid)):
            flat = 0
            for i, d in zip(mid, dmid):
                flat = flat * d + i
            comps = []
            for d in reversed(smid):
                comps.append(flat % d)
                flat //= d
            comps = tuple(reversed(comps))
            return a.at_index(tuple(idx[:p]) + comps + tuple(idx[p + len(dmid) :]))
        # merge the dst components into a flat index (remember how it was built)
        if len(dmid) == 1:
            flat_raw = _raw_index(mid[0])
        else:
            flat = 0
            for i, d in zip(mid, dmid):
                flat = flat * d + _wrap_idx(i)
            flat_raw = _raw_index(flat)
            if is_z3(flat_raw) and have_ctx():
                table()[(flat_raw.get_id(), dims_key(dmid))] = (flat_raw, tuple(mid))
        # split the flat index over the src dims
        if len(smid) == 1:
            comps = (flat_raw,)
        else:
            hit = table().get((flat_raw.get_id(), dims_key(smid))) if (is_z3(flat_raw) and have_ctx()) else None
            if hit is not None:
                comps = tuple(hit[1])
            else:
                rest = _wrap_idx(flat_raw)
                comps = []
                for d in reversed(smid):
                    comps.append(_raw_index(rest % d))
                    rest = rest // d
                comps = tuple(reversed(comps))
        return a.at_index(tuple(idx[:p]) + comps + tuple(idx[p + len(dmid) :]))

    return SymArray(dst, fn, a.kind)


def stack(arrs, axis=0):
    arrs = [asarray(x) for x in arrs]
    if not arrs:
        raise ValueError("need at least one array to stack")
    base = arrs[0].shape
    for x in arrs[1:]:
        if len(x.shape) != len(base) or not all(_dim_same_syntactic(p, q) or dim_eq(p, q) for p, q in zip(x.shape, base)):
            raise ShapeError(f"all input arrays must have the same shape: {[y.shape for y in arrs]}")
    nd = len(base) + 1
    axis = _norm_axis(axis, nd)
    shape = base[:axis] + (len(arrs),) + base[axis:]
    kind = _join_kind(*[x.kind for x in arrs])

    def fn(idx):
        k = idx[axis]
        rest = idx[:axis] + idx[axis + 1 :]
        if _is_pyint(k):
            return arrs[k].at_index(rest)
        res = None
        for j in reversed(range(len(arrs))):
            v = arrs[j].at_index(rest)
            res = v if res is None else ite(SymBool.wrap(k == j), v, res)
        return res

    return SymArray(shape, fn, kind)


def concatenate(arrs, axis=0):
    arrs = [asarray(x) for x in arrs]
    arrs = [x if x.ndim else reshape(x, (1,)) for x in arrs]
    nd = arrs[0].ndim
    axis = _norm_axis(axis, nd)
    for x in arrs[1:]:
        if x.ndim != nd:
            raise ShapeError("all the input arrays must have same number of dimensions")
        for k in range(nd):
            if k != axis and not (_dim_same_syntactic(x.shape[k], arrs[0].shape[k]) or dim_eq(x.shape[k], arrs[0].shape[k])):
                raise ShapeError(f"concatenate dims mismatch {[y.shape for y in arrs]}")
    offs = [0]
    for x in arrs:
        offs.append(offs[-1] + x.shape[axis])
    shape = arrs[0].shape[:axis] + (offs[-1],) + arrs[0].shape[axis + 1 :]
    kind = _join_kind(*[x.kind for x in arrs])

    def fn(idx):
        i = idx[axis]
        if _is_pyint(i) and all(_is_pyint(o) for o in offs):
            for j, x in enumerate(arrs):
                if offs[j] <= i < offs[j + 1]:
                    return x.at_index(idx[:axis] + (i - offs[j],) + idx[axis + 1 :])
            raise IndexError("concatenate index out of range")
        iw = _wrap_idx(i)
        res = None
        for j in reversed(range(len(arrs))):
            x = arrs[j]
            if _is_pyint(x.shape[axis]) and x.shape[axis] == 0:
                continue
            v = x.at_index(idx[:axis] + (_raw_index(iw - offs[j]),) + idx[axis + 1 :])
            res = v if res is None else ite(iw < offs[j + 1], v, res)
        return res

    return SymArray(shape, fn, kind)


def pad(a, pad_width, mode="constant", constant_values=0, **kw):
    a = asarray(a)
    if _is_pyint(pad_width):
        pad_width = [(pad_width, pad_width)] * a.ndim
    pad_width = [tuple(p) if not _is_pyint(p) else (p, p) for p in pad_width]
    if len(pad_width) == 1 and a.ndim > 1:
        pad_width = pad_width * a.ndim
    if len(pad_width) != a.ndim:
        raise ValueError("pad_width rank mismatch")
    res = a
    for ax, (lo, hi) in enumerate(pad_width):
        if lo == 0 and hi == 0:
            continue
        res = _pad_axis(res, ax, int(lo), int(hi), mode, constant_values)
    return res


def _pad_axis(a, ax, lo, hi, mode, cval):
    n = a.shape[ax]
    shape = a.shape[:ax] + (n + lo + hi,) + a.shape[ax + 1 :]
    if isinstance(cval, SymArray):
        cval = cval.item()
    if mode in ("wrap", "edge", "reflect", "symmetric") and not _is_pyint(n):
        # semantic side condition of the simple formulas below
        need = builtins.max(lo, hi)
        if mode == "wrap" and not ctx().implied(n >= need):
            raise Unsupported("wrap padding wider than a symbolic axis")
        if mode in ("reflect",) and not ctx().implied(n >= need + 1):
            raise Unsupported("reflect padding wider than a symbolic axis")
        if mode == "edge" and not ctx().implied(n >= 1):
            raise Unsupported("edge padding on a possibly empty symbolic axis")
        if mode == "symmetric" and not ctx().implied(n >= need):
            raise Unsupported("symmetric padding wider than a symbolic axis")

    def src_index(i):
        """i: position in padded axis (value) -> (in_lo, in_hi, src for lo halo, src for hi halo, src interior)"""
        j = i - lo  # interior coordinate
        if mode == "constant":
            return j, None, None
        if mode == "wrap":
            if _is_pyint(n) and _is_pyint(j):
                return j, j % n, j % n
            return j, j + n, j - n
        if mode == "edge":
            return j, 0, n - 1
        if mode == "reflect":
            return j, -j, 2 * (n - 1) - j
        if mode == "symmetric":
            return j, -j - 1, 2 * n - 1 - j
        raise Unsupported(f"pad mode {mode}")

    def fn(idx):
        i = idx[ax]
        if _is_pyint(i) and _is_pyint(n):
            j, slo, shi = src_index(i)
            if 0 <= j < n:
                return a.at_index(idx[:ax] + (j,) + idx[ax + 1 :])
            if mode == "constant":
                return cval
            s = slo if j < 0 else shi
            if mode == "wrap":
                s = j % n
            return a.at_index(idx[:ax] + (s,) + idx[ax + 1 :])
        iw = _wrap_idx(i)
        j, slo, shi = src_index(iw)
        inner = a.at_index(idx[:ax] + (_raw_index(j),) + idx[ax + 1 :])
        if mode == "constant":
            vlo = vhi = cval
        else:
            vlo = a.at_index(idx[:ax] + (_raw_index(slo),) + idx[ax + 1 :]) if lo else None
            vhi = a.at_index(idx[:ax] + (_raw_index(shi),) + idx[ax + 1 :]) if hi else None
        res = inner
        if hi:
            res = ite(j >= n, vhi, res)
        if lo:
            res = ite(j < 0, vlo, res)
        return res

    return SymArray(shape, fn, a.kind if mode != "constant" else _join_kind(a.kind, _kind_of_value(cval)) if a.kind != "bool" else a.kind)


def roll(a, shift, axis=None):
    a = asarray(a)
    if axis is None:
        raise Unsupported("roll without axis")
    if _is_pyint(shift):
        shifts = [shift]
        axes = [axis] if _is_pyint(axis) else list(axis)
        if len(axes) > 1:
            shifts = shifts * len(axes)
    else:
        shifts = list(shift)
        axes = [axis] * len(shifts) if _is_pyint(axis) else list(axis)
    if len(shifts) != len(axes):
        raise ValueError("shift/axis mismatch")
    res = a
    for s, ax in zip(shifts, axes):
        res = _roll_axis(res, int(s), _norm_axis(ax, a.ndim))
    return res


def _roll_axis(a, s, ax):
    n = a.shape[ax]
    if s == 0:
        return a
    if not _is_pyint(n):
        if not ctx().implied(n >= abs(s)):
            raise Unsupported("roll by more than a symbolic axis length")

    def fn(idx):
        i = idx[ax]
        if _is_pyint(i) and _is_pyint(n):
            return a.at_index(idx[:ax] + ((i - s) % n,) + idx[ax + 1 :])
        iw = _wrap_idx(i)
        j = iw - s
        if _is_pyint(n):
            jj = j % n
            return a.at_index(idx[:ax] + (_raw_index(jj),) + idx[ax + 1 :])
        if s > 0:
            v1 = a.at_index(idx[:ax] + (_raw_index(j + n),) + idx[ax + 1 :])
            v0 = a.at_index(idx[:ax] + (_raw_index(j),) + idx[ax + 1 :])
            return ite(j < 0, v1, v0)
        v1 = a.at_index(idx[:ax] + (_raw_index(j - n),) + idx[ax + 1 :])
        v0 = a.at_index(idx[:ax] + (_raw_index(j),) + idx[ax + 1 :])
        return ite(j >= n, v1, v0)

    return SymArray(a.shape, fn, a.kind)


def flip(a, axis=None):
    a = asarray(a)
    axes = range(a.ndim) if axis is None else ([axis] if _is_pyint(axis) else list(axis))
    idx = [slice(None)] * a.ndim
    for x in axes:
        idx[_norm_axis(x, a.ndim)] = slice(None, None, -1)
    return getitem(a, tuple(idx))


def tile(a, reps):
    a = asarray(a)
    reps = (reps,) if _is_pyint(reps) else tuple(reps)
    nd = builtins.max(a.ndim, len(reps))
    a2 = reshape(a, (1,) * (nd - a.ndim) + a.shape) if nd > a.ndim else a
    reps = (1,) * (nd - len(reps)) + reps
    shape = tuple(d * r for d, r in zip(a2.shape, reps))

    def fn(idx):
        src = []
        for i, d, r in zip(idx, a2.shape, reps):
            if r == 1:
                src.append(i)
            elif _is_pyint(i) and _is_pyint(d):
                src.append(i % d)
            else:
                src.append(_raw_index(_wrap_idx(i) % d))
        return a2.at_index(tuple(src))

    return SymArray(shape, fn, a.kind)


def repeat(a, repeats, axis=None, total_repeat_length=None):
    a = asarray(a)
    if axis is None:
        a = reshape(a, (-1,))
        axis = 0
    axis = _norm_axis(axis, a.ndim)
    if isinstance(repeats, SymArray):
        repeats = repeats.item()
    r = as_dim(_py_scalar(repeats))
    shape = a.shape[:axis] + (a.shape[axis] * r,) + a.shape[axis + 1 :]

    def fn(idx):
        i = idx[axis]
        if _is_pyint(i) and _is_pyint(r):
            j = i // r
        else:
            j = _raw_index(_wrap_idx(i) // r)
        return a.at_index(idx[:axis] + (j,) + idx[axis + 1 :])

    return SymArray(shape, fn, a.kind)


def take(a, indices, axis=None, **kw):
    a = asarray(a)
    if axis is None:
        a = reshape(a, (-1,))
        axis = 0
    axis = _norm_axis(axis, a.ndim)
    ind = asarray(indices)
    n = a.shape[axis]
    shape = a.shape[:axis] + ind.shape + a.shape[axis + 1 :]
    k = ind.ndim

    def fn(idx):
        ii = ind.at_index(idx[axis : axis + k])
        ii = ite(ii < 0, ii + n, ii) if is_sym(ii) else (ii + n if ii < 0 else ii)
        return a.at_index(idx[:axis] + (_raw_index(ii),) + idx[axis + k :])

    return SymArray(shape, fn, a.kind)


def meshgrid(*xs, indexing="xy"):
    xs = [asarray(x) for x in xs]
    n = len(xs)
    shape = [x.shape[0] for x in xs]
    if indexing == "xy" and n >= 2:
        shape[0], shape[1] = shape[1], shape[0]
    outs = []
    for k, x in enumerate(xs):
        pos = k
        if indexing == "xy" and n >= 2 and k < 2:
            pos = 1 - k
        outs.append(SymArray(tuple(shape), (lambda idx, x=x, pos=pos: x.at_index((idx[pos],))), x.kind))
    return outs


def _arange_real(start, stop, step, dtype=None):
    """numpy.arange(start, stop, step) over the REALS with a provably positive symbolic/real step:
    length ceil((stop-start)/step), values start + i*step (floating-point length rounding is not
    modelled)."""
    c = ctx()
    st = SymNum.wrap(_num_parts(step)[0])
    if not is_sym(st):
        if not st > 0:
            raise Unsupported("symbolic arange with non-positive step")
    elif not c.implied(st > 0):
        raise Unsupported("symbolic arange: step not provably positive")
    q = (SymNum.wrap(_num_parts(stop)[0]) - start) / step
    if not is_sym(q):
        ln = builtins.max(0, math.ceil(q))
    else:
        if not c.implied(q >= 0):
            raise Unsupported("symbolic arange: possibly negative length")
        ln = -sym_floor(-q)
    kinds = [_kind_of_value(v) for v in (start, stop, step)]
    k = _dtype_kind(dtype) if dtype is not None else _join_kind(*kinds)
    return SymArray((ln,), lambda idx: start + _wrap_idx(idx[0]) * step, k)


def arange(*args, dtype=None):
    args = [_py_scalar(a.item() if isinstance(a, SymArray) else a) for a in args]
    if len(args) == 1:
        start, stop, step = 0, args[0], 1
    elif len(args) == 2:
        start, stop, step = args[0], args[1], 1
    else:
        start, stop, step = args
    if all(not is_sym(v) for v in (start, stop, step)):
        vals = _np.arange(start, stop, step)
        return from_numpy(vals, dtype)
    if not (_is_pyint(step) and step == 1):
        return _arange_real(start, stop, step, dtype)
    ln = stop - start
    if not isinstance(ln, SymNum) or not ln.is_int:
        raise Unsupported("symbolic arange over non-integers")
    if not ctx().implied(ln >= 0):
        if ln < 0:
            ln = 0
    k = _dtype_kind(dtype) if dtype is not None else "int"
    r = SymArray((ln,), lambda idx: _wrap_idx(idx[0]) + start, k)
    r._name = f"arange({start},{stop})"
    return r


# ---------------------------------------------------------------------------------------
# reductions (structural axes are expanded; symbolic axes become Sigma terms)
# ---------------------------------------------------------------------------------------


def _axes_list(a, axis):
    if axis is None:
        return list(range(a.ndim))
    if _is_pyint(axis):
        return [_norm_axis(axis, a.ndim)]
    return sorted(_norm_axis(x, a.ndim) for x in axis)


def reduce_generic(a, axis, keepdims, comb, init, kind=None):
    a = asarray(a)
    axes = _axes_list(a, axis)
    for x in axes:
        if not _is_pyint(a.shape[x]):
            raise Unsupported("reduction (non-sum) over a symbolic axis")
    out_shape = tuple((1 if k in axes else d) for k, d in enumerate(a.shape)) if keepdims else tuple(d for k, d in enumerate(a.shape) if k not in axes)
    rng = [range(a.shape[x]) for x in axes]

    def fn(idx):
        if keepdims:
            base = list(idx)
        else:
            it = iter(idx)
            base = [None if k in axes else next(it) for k in range(a.ndim)]
        acc = init
        for combo in itertools.product(*rng):
            for x, c in zip(axes, combo):
                base[x] = c
            v = a.at_index(tuple(base))
            acc = v if acc is None else comb(acc, v)
        if acc is None:
            raise ValueError("reduction of empty axis without identity")
        return acc

    return SymArray(out_shape, fn, kind or a.kind)


def reduce_sum(a, axis=None, keepdims=False):
    a = asarray(a)
    axes = _axes_list(a, axis)
    sym_axes = [x for x in axes if not _is_pyint(a.shape[x])]
    if not sym_axes:
        k = a.kind if a.kind != "bool" else "int"
        return reduce_generic(a, axis, keepdims, lambda p, q: _bool_to_num(p) + _bool_to_num(q), 0, kind=k)
    # sums over symbolic extents would need the Sigma-calculus of DESIGN.md 2.6, which was not built (section 10.1)
    raise Unsupported("sum over an axis of symbolic extent (no Sigma-calculus in this engine)")


def reduce_mean(a, axis=None, keepdims=False):
    a = asarray(a)
    axes = _axes_list(a, axis)
    cnt = _prod_dims([a.shape[x] for x in axes])
    s = reduce_sum(a, axis, keepdims)
    return s / cnt


def argmax(a, axis=None, keepdims=False):
    return _argext(a, axis, lambda x, y: x > y)


def argmin(a, axis=None, keepdims=False):
    return _argext(a, axis, lambda x, y: x < y)


def _argext(a, axis, better):
    """index of the FIRST extreme element (numpy/JAX tie rule) along a concrete axis"""
    a = asarray(a)
    if axis is None:
        a = reshape(a, (-1,))
        axis = 0
    axis = _norm_axis(axis, a.ndim)
    n = a.shape[axis]
    if not _is_pyint(n):
        raise Unsupported("argmax/argmin over a symbolic axis (needs a quantified contract)")
    if n == 0:
        raise ValueError("attempt to get argmax of an empty sequence")
    out_shape = a.shape[:axis] + a.shape[axis + 1 :]

    def fn(idx):
        best_i = 0
        best = _bool_to_num(a.at_index(idx[:axis] + (0,) + idx[axis:]))
        for i in range(1, n):
            v = _bool_to_num(a.at_index(idx[:axis] + (i,) + idx[axis:]))
            c = better(v, best)
            if isinstance(c, bool):
                if c:
                    best_i, best = i, v
            else:
                best_i = ite(c, i, best_i)
                best = ite(c, v, best)
        return best_i

    return SymArray(out_shape, fn, "int")


def matmul(a, b):
    a, b = asarray(a), asarray(b)
    if a.ndim == 2 and b.ndim == 2:
        return einsum("ij,jk->ik", a, b)
    if a.ndim == 2 and b.ndim == 1:
        return einsum("ij,j->i", a, b)
    if a.ndim == 1 and b.ndim == 2:
        return einsum("i,ij->j", a, b)
    if a.ndim == 1 and b.ndim == 1:
        return einsum("i,i->", a, b)
    raise Unsupported("matmul with batch dims")


def einsum(spec, *ops):
    ops = [asarray(o) for o in ops]
    spec = spec.replace(" ", "")
    if "->" in spec:
        ins, out = spec.split("->")
    else:
        ins = spec
        letters = sorted(set(ins.replace(",", "")))
        out = "".join(ch for ch in letters if ins.count(ch) == 1)
    ins = ins.split(",")
    if len(ins) != len(ops):
        raise Unsupported(f"einsum spec {spec}")
    if "." in spec:
        # expand ellipses to explicit (upper-case) letters, right-aligned like numpy broadcasting
        ELL = "ABCDEFGHIJKLMNOPQRSTUVWXYZ"
        widths = []
        for sub, o in zip(ins, ops):
            if "..." in sub:
                widths.append(o.ndim - (len(sub) - 3))
            elif "." in sub:
                raise Unsupported(f"einsum spec {spec}")
        wmax = builtins.max(widths, default=0)
        if wmax > len(ELL) or any(w < 0 for w in widths):
            raise Unsupported(f"einsum spec {spec}")
        new_ins = []
        for sub, o in zip(ins, ops):
            if "..." in sub:
                w = o.ndim - (len(sub) - 3)
                sub = sub.replace("...", ELL[wmax - w : wmax])
            new_ins.append(sub)
        ins = new_ins
        if "..." in out:
            out = out.replace("...", ELL[:wmax])
        elif "->" not in spec:
            raise Unsupported(f"einsum implicit output with ellipsis: {spec}")
    dims = {}
    for sub, o in zip(ins, ops):
        if len(sub) != o.ndim:
            raise ShapeError(f"einsum operand rank mismatch for {sub}")
        for ch, d in zip(sub, o.shape):
            if ch in dims:
                if not (_dim_same_syntactic(dims[ch], d) or (_is_pyint(d) and d == 1) or dim_eq(dims[ch], d)):
                    raise ShapeError(f"einsum dimension mismatch for index {ch}")
            else:
                dims[ch] = d
    summed = [ch for ch in dims if ch not in out]
    for ch in summed:
        if not _is_pyint(dims[ch]):
            raise Unsupported("einsum contraction over a symbolic axis")
    shape = tuple(dims[ch] for ch in out)
    kind = _join_kind(*[o.kind for o in ops])

    def fn(idx):
        env = dict(zip(out, idx))
        acc = 0
        for combo in itertools.product(*[range(dims[ch]) for ch in summed]):
            env.update(zip(summed, combo))
            term = 1
            for sub, o in zip(ins, ops):
                term = _vmul(term, o.at_index(tuple(0 if (_is_pyint(d) and d == 1) else env[ch] for ch, d in zip(sub, o.shape))))
            acc = acc + term
        return acc

    return SymArray(shape, fn, kind)


# ---------------------------------------------------------------------------------------
# small dense linear algebra on trailing (k,k) blocks, k concrete <= 3
# ---------------------------------------------------------------------------------------


def _det_rows(m):
    k = len(m)
    if k == 1:
        return m[0][0]
    if k == 2:
        return _vmul(m[0][0], m[1][1]) - _vmul(m[0][1], m[1][0])
    acc = 0
    for j in range(k):
        minor = [[m[r][c] for c in range(k) if c != j] for r in range(1, k)]
        term = _vmul(m[0][j], _det_rows(minor))
        acc = acc + term if j % 2 == 0 else acc - term
    return acc


def _inv_rows(m):
    k = len(m)
    det = _det_rows(m)
    cof = [[None] * k for _ in range(k)]
    for r in range(k):
        for c in range(k):
            minor = [[m[i][j] for j in range(k) if j != c] for i in range(k) if i != r]
            d = _det_rows(minor) if k > 1 else 1
            cof[r][c] = d if (r + c) % 2 == 0 else -d
    return [[_vtruediv(cof[c][r], det) for c in range(k)] for r in range(k)], det


def linalg_inv(a):
    a = asarray(a)
    k = a.shape[-1]
    if not (_is_pyint(k) and _is_pyint(a.shape[-2]) and k == a.shape[-2] and k <= 3):
        raise Unsupported("inv of non-(<=3x3) matrix")

    def fn(idx):
        lead = idx[:-2]
        key = ("inv",) + idx_key(lead)
        cache = fn.cache
        if key not in cache:
            m = [[a.at_index(lead + (r, c)) for c in range(k)] for r in range(k)]
            inv, det = _inv_rows(m)
            if is_sym(det):
                ctx().session.side_conditions.append(("nonsingular-matrix", det))
            cache[key] = (lead, inv)
        inv = cache[key][1]
        r, c = idx[-2], idx[-1]
        if _is_pyint(r) and _is_pyint(c):
            return inv[r][c]
        res = None
        for rr in reversed(range(k)):
            for cc in reversed(range(k)):
                v = inv[rr][cc]
                res = v if res is None else ite(SymBool.wrap(z3.And(to_z3_int(r) == rr, to_z3_int(c) == cc)), v, res)
        return res

    fn.cache = {}
    return SymArray(a.shape, fn, _join_kind(a.kind, "real"))


def linalg_solve(a, b):
    a, b = asarray(a), asarray(b)
    inv = linalg_inv(a)
    if b.ndim == a.ndim - 1:
        return einsum_batched_matvec(inv, b)
    return batched_matmul(inv, b)


def batched_matmul(a, b):
    a, b = asarray(a), asarray(b)
    k = a.shape[-1]
    if not _is_pyint(k):
        raise Unsupported("matmul contraction over symbolic axis")
    lead = broadcast_shapes(a.shape[:-2], b.shape[:-2])
    shape = lead + (a.shape[-2], b.shape[-1])
    ash, bsh = a.shape[:-2], b.shape[:-2]

    def fn(idx):
        li = idx[:-2]
        r, c = idx[-2], idx[-1]
        acc = 0
        for j in range(k):
            acc = acc + _vmul(a.at_index(_bcast_index(ash, lead, li) + (r, j)), b.at_index(_bcast_index(bsh, lead, li) + (j, c)))
        return acc

    return SymArray(shape, fn, _join_kind(a.kind, b.kind))


def einsum_batched_matvec(a, b):
    a, b = asarray(a), asarray(b)
    k = a.shape[-1]
    lead = broadcast_shapes(a.shape[:-2], b.shape[:-1])
    shape = lead + (a.shape[-2],)
    ash, bsh = a.shape[:-2], b.shape[:-1]

    def fn(idx):
        li = idx[:-1]
        r = idx[-1]
        acc = 0
        for j in range(k):
            acc = acc + _vmul(a.at_index(_bcast_index(ash, lead, li) + (r, j)), b.at_index(_bcast_index(bsh, lead, li) + (j,)))
        return acc

    return SymArray(shape, fn, _join_kind(a.kind, b.kind))


def linalg_det(a):
    a = asarray(a)
    k = a.shape[-1]
    if not (_is_pyint(k) and k <= 3):
        raise Unsupported("det of non-(<=3x3) matrix")

    def fn(idx):
        m = [[a.at_index(idx + (r, c)) for c in range(k)] for r in range(k)]
        return _det_rows(m)

    return SymArray(a.shape[:-2], fn, a.kind)


def eye(n, m=None, dtype=None):
    m = n if m is None else m
    return SymArray((n, m), lambda idx: ite(v_eq(_wrap_idx(idx[0]), _wrap_idx(idx[1])), 1, 0) if not (_is_pyint(idx[0]) and _is_pyint(idx[1])) else (1 if idx[0] == idx[1] else 0), _dtype_kind(dtype) if dtype else "real")


def cross(a, b, axisa=-1, axisb=-1, axisc=-1, axis=None):
    """jnp.cross for 3-vectors: `axis` (if given) overrides axisa/axisb/axisc (numpy/JAX semantics)."""
    a, b = asarray(a), asarray(b)
    if axis is not None:
        axisa = axisb = axisc = axis
    a = moveaxis(a, axisa, -1)
    b = moveaxis(b, axisb, -1)
    if not (dim_is(a.shape[-1], 3) and dim_is(b.shape[-1], 3)):
        raise Unsupported("cross of vectors that are not 3-dimensional")
    ax, ay, az = a[..., 0], a[..., 1], a[..., 2]
    bx, by, bz = b[..., 0], b[..., 1], b[..., 2]
    res = stack([ay * bz - az * by, az * bx - ax * bz, ax * by - ay * bx], axis=-1)
    return moveaxis(res, -1, axisc)


def gradient(f, *varargs, axis=None, edge_order=None):
    """jax.numpy.gradient for unit / scalar spacing: second-order central differences in the interior,
    first-order one-sided differences at the two ends of every requested axis.  Returns one array
    for a single axis and a list of arrays otherwise (jnp semantics); every requested axis must
    have at least 2 elements (ValueError otherwise, as in jnp)."""
    if edge_order is not None:
        raise NotImplementedError("The 'edge_order' argument to jnp.gradient is not supported.")
    a = asarray(f)
    if axis is None:
        axes = tuple(range(a.ndim))
    else:
        axes = tuple(_norm_axis(x, a.ndim) for x in ([axis] if _is_pyint(axis) else list(axis)))
    if len(axes) == 0:
        return []
    spacing = []
    for h in varargs:
        if isinstance(h, SymArray):
            if h.ndim != 0:
                raise Unsupported("jnp.gradient with coordinate-array spacing")
            h = h.item()
        if not (is_sym(h) or isinstance(h, (int, float, Fraction))):
            raise Unsupported("jnp.gradient with non-scalar spacing")
        spacing.append(h)
    for x in axes:
        n = a.shape[x]
        small = (n < 2) if _is_pyint(n) else bool(n < 2)
        if small:
            raise ValueError("Shape of array too small to calculate a numerical gradient, at least 2 elements are required.")
    if len(spacing) == 0:
        hs = [1] * len(axes)
    elif len(spacing) == 1:
        hs = spacing * len(axes)
    elif len(spacing) == len(axes):
        hs = spacing
    else:
        raise TypeError(f"Invalid number of spacing arguments {len(spacing)} for {axis=}")
    kind = _join_kind(a.kind if a.kind != "bool" else "int", "real")

    def along(ax, h):
        n = a.shape[ax]

        def rd(idx, i):
            return _bool_to_num(a.at_index(idx[:ax] + (i,) + idx[ax + 1 :]))

        def fn(idx):
            iw = _wrap_idx(idx[ax])
            at_lo = v_eq(iw, 0)
            at_hi = v_eq(iw, n - 1)
            if at_lo is True:
                v = rd(idx, 1) - rd(idx, 0)
            elif at_hi is True:
                v = rd(idx, _raw_index(iw)) - rd(idx, _raw_index(iw - 1))
            elif at_lo is False and at_hi is False:
                v = (rd(idx, _raw_index(iw + 1)) - rd(idx, _raw_index(iw - 1))) * Fraction(1, 2)
            else:
                # position not decided syntactically: the three stencil reads i-1, i, i+1 (the read
                # that falls outside the axis sits in a branch that is not selected)
                vm = rd(idx, _raw_index(iw - 1))
                v0 = rd(idx, _raw_index(iw))
                vp = rd(idx, _raw_index(iw + 1))
                v = ite(at_lo, vp - v0, ite(at_hi, v0 - vm, (vp - vm) * Fraction(1, 2)))
            if not (_is_pyint(h) and h == 1):
                v = _vtruediv(v, h)
            return v

        return SymArray(a.shape, fn, kind)

    res = [along(ax, h) for ax, h in zip(axes, hs)]
    return res[0] if len(axes) == 1 else res


def interp(x, xp, fp, left=None, right=None, period=None):
    """jnp.interp.  Concrete data: numpy.  Symbolic data: the interpolant is an (uninterpreted) FUNCTION
    of x determined by (xp, fp, left, right) - enough for relational obligations; its piecewise-linear
    shape is not modelled."""
    x_, xp_, fp_ = asarray(x), asarray(xp), asarray(fp)
    if period is not None:
        raise Unsupported("interp with period")

    def tag(a):
        return getattr(a, "_name", None) or f"arr{id(a)}"

    def concrete(a):
        if not a.is_concrete_shape():
            return None
        vals = [a.at_index(i) for i in a.concrete_indices()]
        if any(is_sym(v) for v in vals):
            return None
        return _np.array([float(v) for v in vals]).reshape(a.shape)

    cxp, cfp = concrete(xp_), concrete(fp_)
    name = f"interp[{tag(xp_)};{tag(fp_)};{left};{right}]"

    def f(v):
        if not is_sym(v) and cxp is not None and cfp is not None:
            return float(_np.interp(float(v), cxp, cfp, left=left, right=right))
        return apply_uf(name, v)

    if isinstance(x, SymArray):
        return x_._map(f, "real")
    return f(x_.item())
