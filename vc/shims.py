"""Symbolic replacements for `jax.numpy` (jnp), `jax`, `numpy` (selected), `math`, and
`equinox.internal` as seen by the repository modules under verification.

`patched(modules)` rebinds the module globals `jnp`, `jax`, `math`, `eqxi`, `isinstance` of the
given repository modules for the duration of a symbolic run; the function bodies themselves are
the real ones and are executed by CPython.
"""

from __future__ import annotations

import builtins
import contextlib
import math as _math
import sys
import types
from fractions import Fraction

import numpy as _np
import z3

from . import array as A
from .array import SymArray, asarray
from .core import (
    SymBool,
    SymNum,
    Unsupported,
    _is_pyint,
    apply_uf,
    ctx,
    have_ctx,
    is_z3,
    ite,
    sym_floor,
    sym_max,
    sym_min,
    sym_round,
    sym_sqrt,
    v_eq,
)


def _is_symbolic_value(x):
    return isinstance(x, (SymArray, SymNum, SymBool))


def _scalar_or_array(f_scalar, kind=None):
    """lift a scalar function to arrays; scalars in -> scalar out"""

    def g(x, *a, **k):
        if isinstance(x, SymArray):
            return x._map(lambda v: f_scalar(v), kind)
        if isinstance(x, (SymNum, SymBool, int, float, complex, Fraction, bool)):
            return f_scalar(x)
        return asarray(x)._map(lambda v: f_scalar(v), kind)

    return g


def _uf1(name, concrete):
    def f(v):
        v = A._bool_to_num(v)
        if A.is_sym(v):
            if isinstance(v, SymNum) and v.im is not None:
                raise Unsupported(f"{name} of complex symbolic value")
            return apply_uf(name, v)
        return concrete(v)

    return f


def _exp_scalar(v):
    v = A._bool_to_num(v)
    if isinstance(v, SymNum):
        if v.im is not None:
            # exp(a+ib) = exp(a) (cos b + i sin b)
            ea = _exp_scalar(SymNum.wrap(v.re)) if not (not is_z3(v.re) and v.re == 0) else 1
            b = SymNum.wrap(v.im)
            c = _uf1("cos", _math.cos)(b)
            s = _uf1("sin", _math.sin)(b)
            return SymNum.wrap(*_cparts(ea * c, ea * s))
        return apply_uf("exp", v)
    if isinstance(v, complex):
        import cmath

        return cmath.exp(v)
    return _math.exp(v)


def _cparts(re, im):
    from .core import _num_parts

    return _num_parts(re)[0], _num_parts(im)[0]


def _sign_scalar(v):
    v = A._bool_to_num(v)
    if A.is_sym(v):
        return ite(v > 0, 1, ite(v < 0, -1, 0))
    return (v > 0) - (v < 0)


def _clip_scalar(v, lo, hi):
    if lo is not None:
        v = sym_max(v, lo)
    if hi is not None:
        v = sym_min(v, hi)
    return v


def _isinf_scalar(v):
    if A.is_sym(v):
        return False  # symbolic reals are finite
    return _math.isinf(v) if not isinstance(v, complex) else (_math.isinf(v.real) or _math.isinf(v.imag))


def _isnan_scalar(v):
    if A.is_sym(v):
        return False
    return v != v


class _FakeFloatInfo:
    eps = 2.220446049250313e-16
    max = 1.7976931348623157e308
    min = -1.7976931348623157e308
    tiny = 2.2250738585072014e-308


class _Namespace(types.ModuleType):
    def __getattr__(self, name):
        raise Unsupported(f"{self.__name__}.{name} is not modelled by the symbolic shim")


def make_jnp():
    import jax.numpy as real_jnp

    ns = _Namespace("symjnp")
    ns.__real__ = real_jnp
    # dtypes / constants (pass-through objects)
    for nm in ("float32", "float64", "float16", "bfloat16", "complex64", "complex128", "int32", "int64", "int8", "int16", "uint8", "uint16", "uint32", "bool_", "bool", "pi", "inf", "nan", "newaxis", "e", "dtype", "floating", "complexfloating", "integer", "number", "inexact", "ndarray", "issubdtype"):
        if hasattr(real_jnp, nm):
            setattr(ns, nm, getattr(real_jnp, nm))

    ns.asarray = lambda x, dtype=None, **k: asarray(x, dtype)
    ns.array = lambda x, dtype=None, **k: asarray(x, dtype)
    ns.zeros = lambda shape, dtype=None, **k: A.zeros(shape, dtype)
    ns.ones = lambda shape, dtype=None, **k: A.ones(shape, dtype)
    ns.full = lambda shape, v, dtype=None, **k: A.full(shape, v, dtype)
    ns.empty = lambda shape, dtype=None, **k: A.zeros(shape, dtype)
    ns.zeros_like = lambda a, dtype=None, **k: A.zeros(asarray(a).shape, dtype or asarray(a).kind)
    ns.ones_like = lambda a, dtype=None, **k: A.ones(asarray(a).shape, dtype or asarray(a).kind)
    ns.full_like = lambda a, v, dtype=None, **k: A.full(asarray(a).shape, v, dtype or asarray(a).kind)
    ns.copy = lambda a, **k: asarray(a).copy()  # arrays are immutable values: a copy is elementwise equal
    ns.eye = A.eye
    ns.arange = A.arange
    ns.where = A.where
    ns.stack = A.stack
    ns.column_stack = _column_stack
    ns.concatenate = A.concatenate
    ns.pad = lambda array, pad_width, mode="constant", **kw: A.pad(array, pad_width, mode, **kw)  # jnp.pad's first parameter is named `array`
    ns.roll = A.roll
    ns.flip = A.flip
    ns.tile = A.tile
    ns.repeat = A.repeat
    ns.take = A.take
    ns.transpose = lambda a, axes=None: A.transpose(a, axes)
    ns.moveaxis = A.moveaxis
    ns.swapaxes = A.swapaxes
    ns.expand_dims = A.expand_dims
    ns.squeeze = A.squeeze
    ns.reshape = lambda a, shape, **k: A.reshape(a, shape)
    ns.broadcast_to = A.broadcast_to
    ns.meshgrid = A.meshgrid
    ns.einsum = A.einsum
    ns.argmax = A.argmax
    ns.interp = A.interp
    ns.argmin = A.argmin
    ns.cross = A.cross
    ns.gradient = A.gradient
    ns.matmul = A.matmul
    ns.dot = A.matmul
    ns.shape = lambda a: asarray(a).shape
    ns.ndim = lambda a: asarray(a).ndim
    ns.size = lambda a: asarray(a).size
    ns.result_type = _result_type
    ns.iscomplexobj = lambda a: asarray(a).kind == "complex"
    ns.isrealobj = lambda a: asarray(a).kind != "complex"
    ns.sum = lambda a, axis=None, keepdims=False, **k: A.reduce_sum(a, axis, keepdims)
    ns.mean = lambda a, axis=None, keepdims=False, **k: A.reduce_mean(a, axis, keepdims)
    ns.prod = lambda a, axis=None, keepdims=False, **k: asarray(a).prod(axis, keepdims)
    ns.max = lambda a, axis=None, keepdims=False, **k: asarray(a).max(axis, keepdims)
    ns.min = lambda a, axis=None, keepdims=False, **k: asarray(a).min(axis, keepdims)
    ns.amax = ns.max
    ns.amin = ns.min
    ns.any = lambda a, axis=None, keepdims=False, **k: asarray(a).any(axis, keepdims)
    ns.all = lambda a, axis=None, keepdims=False, **k: asarray(a).all(axis, keepdims)

    ns.abs = _scalar_or_array(A._vabs)
    ns.absolute = ns.abs
    ns.negative = lambda a: -asarray(a)
    ns.square = _scalar_or_array(lambda v: A._vmul(v, v))
    ns.sqrt = _scalar_or_array(lambda v: sym_sqrt(v) if A.is_sym(v) else _math.sqrt(v), "real")
    ns.exp = _scalar_or_array(_exp_scalar)
    ns.expm1 = _scalar_or_array(_uf1("expm1", _math.expm1), "real")
    ns.log = _scalar_or_array(_uf1("log", _math.log), "real")
    ns.sin = _scalar_or_array(_uf1("sin", _math.sin), "real")
    ns.cos = _scalar_or_array(_uf1("cos", _math.cos), "real")
    ns.tan = _scalar_or_array(_uf1("tan", _math.tan), "real")
    ns.tanh = _scalar_or_array(_uf1("tanh", _math.tanh), "real")
    ns.arctan = _scalar_or_array(_uf1("arctan", _math.atan), "real")
    ns.sign = _scalar_or_array(_sign_scalar)
    ns.floor = _scalar_or_array(lambda v: sym_floor(v) if A.is_sym(v) else _math.floor(v))
    ns.ceil = _scalar_or_array(lambda v: -sym_floor(-v) if A.is_sym(v) else _math.ceil(v))
    ns.round = _scalar_or_array(lambda v: sym_round(v) if A.is_sym(v) else round(v))
    ns.rint = ns.round
    ns.real = lambda a: asarray(a).real if not isinstance(a, (SymNum, complex)) else A._real(a)
    ns.imag = lambda a: asarray(a).imag if not isinstance(a, (SymNum, complex)) else A._imag(a)
    ns.conj = lambda a: asarray(a).conj() if not isinstance(a, (SymNum, complex)) else A._conj(a)
    ns.conjugate = ns.conj
    ns.isinf = _scalar_or_array(_isinf_scalar, "bool")
    ns.isnan = _scalar_or_array(_isnan_scalar, "bool")
    ns.isfinite = _scalar_or_array(lambda v: not _isinf_scalar(v) and not _isnan_scalar(v), "bool")
    ns.nan_to_num = lambda a, **k: asarray(a)
    ns.logical_not = lambda a: asarray(a).astype("bool").__invert__()
    ns.logical_and = lambda a, b: asarray(a).astype("bool") & asarray(b).astype("bool")
    ns.logical_or = lambda a, b: asarray(a).astype("bool") | asarray(b).astype("bool")
    ns.invert = lambda a: ~asarray(a)
    ns.minimum = lambda a, b: A.elementwise(sym_min, a, b)
    ns.maximum = lambda a, b: A.elementwise(sym_max, a, b)
    ns.clip = lambda a, a_min=None, a_max=None, min=None, max=None: _clip(a, a_min if a_min is not None else min, a_max if a_max is not None else max)
    ns.add = lambda a, b: asarray(a) + b
    ns.subtract = lambda a, b: asarray(a) - b
    ns.multiply = lambda a, b: asarray(a) * b
    ns.divide = lambda a, b: asarray(a) / b
    ns.true_divide = ns.divide
    ns.power = lambda a, b: asarray(a) ** b
    ns.equal = lambda a, b: asarray(a) == b
    ns.not_equal = lambda a, b: asarray(a) != b
    ns.less = lambda a, b: asarray(a) < b
    ns.greater = lambda a, b: asarray(a) > b
    ns.less_equal = lambda a, b: asarray(a) <= b
    ns.greater_equal = lambda a, b: asarray(a) >= b
    ns.isclose = lambda a, b, rtol=1e-5, atol=1e-8, **k: abs(asarray(a) - b) <= (atol + rtol * abs(asarray(b)))
    ns.allclose = lambda a, b, rtol=1e-5, atol=1e-8, **k: (abs(asarray(a) - b) <= (atol + rtol * abs(asarray(b)))).all()
    ns.diff = _diff
    ns.searchsorted = _searchsorted
    ns.finfo = lambda dt: _FakeFloatInfo

    lin = _Namespace("symjnp.linalg")
    lin.inv = A.linalg_inv
    lin.solve = A.linalg_solve
    lin.det = A.linalg_det
    lin.norm = _norm
    ns.linalg = lin
    return ns


def _diff(a, n=1, axis=-1, **kw):
    """numpy/jnp.diff: first differences a[1:] - a[:-1] along `axis` (n == 1, no prepend/append)."""
    a = asarray(a)
    if n != 1 or kw:
        raise Unsupported(f"diff with n={n} / {sorted(kw)}")
    if a.kind == "bool":
        raise Unsupported("diff of a boolean array")
    if a.ndim == 0:
        raise ValueError("diff requires input that is at least one dimensional")
    ax = axis + a.ndim if axis < 0 else axis
    hi = [slice(None)] * a.ndim
    lo = [slice(None)] * a.ndim
    hi[ax] = slice(1, None)
    lo[ax] = slice(None, -1)
    return a[tuple(hi)] - a[tuple(lo)]


def _searchsorted(a, v, side="left", sorter=None, **kw):
    """numpy/jnp.searchsorted for a 1-D array of concrete length that is PROVABLY sorted on the
    current path (the result is unspecified otherwise): number of entries < v (left) / <= v (right)."""
    if sorter is not None or kw:
        raise Unsupported("searchsorted with sorter/method")
    if side not in ("left", "right"):
        raise ValueError(f"side must be 'left' or 'right', got {side!r}")
    a = asarray(a)
    if a.ndim != 1 or not _is_pyint(a.shape[0]):
        raise Unsupported("searchsorted over a symbolic-length or N-d array (needs a contract)")
    vals = [A._bool_to_num(a.at_index((j,))) for j in range(a.shape[0])]
    for p, q in zip(vals, vals[1:]):
        le = p <= q if (A.is_sym(p) or not A.is_sym(q)) else q >= p
        if isinstance(le, SymBool):
            if not ctx().implied(le.z):
                raise Unsupported("searchsorted: input not provably sorted on this path")
        elif not le:
            raise Unsupported("searchsorted: input is not sorted")

    def count(x):
        x = A._bool_to_num(x)
        tot = 0
        for e in vals:
            if A.is_sym(e):
                c = (e < x) if side == "left" else (e <= x)
            else:
                c = (x > e) if side == "left" else (x >= e)
            tot = tot + (int(c) if isinstance(c, bool) else c._num())
        return tot

    if isinstance(v, (SymNum, SymBool, int, float, Fraction, bool)):
        r = count(v)
        return SymArray((), lambda idx: r, "int", memo=False)
    return asarray(v)._map(count, "int")


def _column_stack(arrs):
    """numpy/jnp.column_stack for 1-D (stacked as columns) and 2-D (concatenated along axis 1) inputs"""
    arrs = [asarray(x) for x in arrs]
    if all(x.ndim == 1 for x in arrs):
        return A.stack(arrs, axis=1)
    if all(x.ndim in (1, 2) for x in arrs):
        return A.concatenate([x if x.ndim == 2 else A.expand_dims(x, 1) for x in arrs], axis=1)
    raise Unsupported("column_stack of arrays with ndim > 2")


def _result_type(*args):
    ks = []
    for x in args:
        if isinstance(x, SymArray):
            ks.append(x.kind)
        elif isinstance(x, (SymNum, SymBool, int, float, complex, bool)):
            ks.append(A._kind_of_value(x))
        elif hasattr(x, "dtype"):
            ks.append(A._dtype_kind(x.dtype))
        else:
            ks.append(A._dtype_kind(x))
    return A._Dtype(A._join_kind(*ks))


def _clip(a, lo, hi):
    arrs = [asarray(a)]
    if lo is not None:
        arrs.append(asarray(lo))
    if hi is not None:
        arrs.append(asarray(hi))

    def f(v, *rest):
        rest = list(rest)
        l = rest.pop(0) if lo is not None else None
        h = rest.pop(0) if hi is not None else None
        return _clip_scalar(v, l, h)

    return A.elementwise(f, *arrs, kind=arrs[0].kind)


def _norm(a, ord=None, axis=None, keepdims=False):
    a = asarray(a)
    if ord not in (None, 2, "fro"):
        raise Unsupported(f"norm ord={ord}")
    sq = (a * a.conj()).real if a.kind == "complex" else a * a
    s = A.reduce_sum(sq, axis, keepdims)
    return make_jnp_cached().sqrt(s)


_JNP = [None]


def make_jnp_cached():
    if _JNP[0] is None:
        _JNP[0] = make_jnp()
    return _JNP[0]


# ---------------------------------------------------------------------------------------
# jax shim
# ---------------------------------------------------------------------------------------


class _ArrayMeta(type):
    def __instancecheck__(cls, obj):
        import jax

        return isinstance(obj, (SymArray, jax.Array))


class SymJaxArray(metaclass=_ArrayMeta):
    """stands in for `jax.Array` in isinstance checks"""


def tree_merge(c, a, b):
    """leaf-wise if-then-else over two structurally equal pytrees"""
    if a is b:
        return a
    if isinstance(a, dict) and isinstance(b, dict):
        if set(a) != set(b):
            raise TypeError("lax.cond branches returned dicts with different keys")
        return {k: tree_merge(c, a[k], b[k]) for k in a}
    if isinstance(a, (list, tuple)) and isinstance(b, (list, tuple)):
        if len(a) != len(b) or type(a) is not type(b):
            raise TypeError("lax.cond branches returned sequences of different structure")
        return type(a)(tree_merge(c, x, y) for x, y in zip(a, b)) if not hasattr(a, "_fields") else type(a)(*[tree_merge(c, x, y) for x, y in zip(a, b)])
    if a is None and b is None:
        return None
    if isinstance(a, (SymArray, _np.ndarray)) or isinstance(b, (SymArray, _np.ndarray)) or A.is_sym(a) or A.is_sym(b) or isinstance(a, (int, float, complex, bool)):
        try:
            import jax

            if isinstance(a, jax.Array):
                a = asarray(a)
            if isinstance(b, jax.Array):
                b = asarray(b)
        except ImportError:  # pragma: no cover
            pass
        if isinstance(a, SymArray) or isinstance(b, SymArray):
            aa, bb = asarray(a), asarray(b)
            if aa.ndim != bb.ndim:
                raise TypeError(f"lax.cond branch outputs differ in rank: {aa.shape} vs {bb.shape}")
            for p, q in zip(aa.shape, bb.shape):
                if not (A._dim_same_syntactic(p, q) or A.dim_eq(p, q)):
                    raise TypeError(f"lax.cond branch outputs differ in shape: {aa.shape} vs {bb.shape}")
            return A.where(asarray(c), aa, bb)
        return ite(c, a, b)
    # pytree classes (TreeClass): merge attribute-wise through jax.tree
    import jax

    la, ta = jax.tree.flatten(a, is_leaf=lambda x: isinstance(x, SymArray))
    lb, tb = jax.tree.flatten(b, is_leaf=lambda x: isinstance(x, SymArray))
    if ta != tb:
        raise TypeError("lax.cond branches returned different pytree structures")
    return jax.tree.unflatten(ta, [tree_merge(c, x, y) for x, y in zip(la, lb)])


def _cond(pred, true_fun, false_fun, *operands, **kw):
    p = pred
    if isinstance(p, SymArray):
        p = p.item()
    if isinstance(p, (_np.ndarray, _np.generic)):
        p = bool(p)
    try:
        import jax

        if isinstance(p, jax.Array):
            p = bool(p)
    except ImportError:  # pragma: no cover
        pass
    if isinstance(p, SymNum):
        p = p != 0
    if isinstance(p, bool) or _is_pyint(p):
        return true_fun(*operands) if p else false_fun(*operands)
    if not isinstance(p, SymBool):
        raise Unsupported(f"lax.cond predicate of type {type(p).__name__}")
    # symbolic predicate: both branches are executed and merged leaf-wise
    c = ctx()
    if c.implied(p.z):
        return true_fun(*operands)
    if c.implied(z3.Not(p.z)):
        return false_fun(*operands)
    t = true_fun(*operands)
    f = false_fun(*operands)
    return tree_merge(p, t, f)


def _fori_loop(lo, hi, body, init, **kw):
    if _is_pyint(lo) and _is_pyint(hi):
        val = init
        for i in range(lo, hi):
            val = body(i, val)
        return val
    raise Unsupported("lax.fori_loop with symbolic bounds (needs a loop contract)")


def _while_loop(cond_fun, body_fun, init_val, **kw):
    raise Unsupported("while_loop (needs a loop contract)")


def _select(pred, a, b):
    return A.where(pred, a, b)


def make_jax():
    import jax as real_jax

    ns = _Namespace("symjax")
    ns.__real__ = real_jax
    ns.Array = SymJaxArray
    ns.numpy = make_jnp_cached()
    ns.tree = real_jax.tree
    ns.tree_util = real_jax.tree_util
    ns.random = real_jax.random
    ns.config = real_jax.config
    ns.devices = real_jax.devices
    ns.jit = lambda f=None, **k: (f if f is not None else (lambda g: g))
    ns.checkpoint = lambda f=None, **k: (f if f is not None else (lambda g: g))
    ns.remat = ns.checkpoint
    ns.named_scope = lambda *a, **k: contextlib.nullcontext()
    ns.ensure_compile_time_eval = lambda: contextlib.nullcontext()
    ns.debug = types.SimpleNamespace(print=lambda *a, **k: None, callback=lambda *a, **k: None)
    ns.ShapeDtypeStruct = real_jax.ShapeDtypeStruct
    ns.typing = real_jax.typing
    lax = _Namespace("symjax.lax")
    lax.cond = _cond
    lax.stop_gradient = lambda x: x
    lax.fori_loop = _fori_loop
    lax.while_loop = _while_loop
    lax.select = _select
    lax.dynamic_slice = _dynamic_slice
    lax.dynamic_update_slice = _dynamic_update_slice
    lax.dynamic_index_in_dim = lambda a, i, axis=0, keepdims=True: (A.expand_dims(A.take(a, i, axis=axis), axis) if keepdims else A.take(a, i, axis=axis))
    ns.lax = lax
    ns.vmap = _vmap
    from . import signal as _signal

    sp = _Namespace("symjax.scipy")
    sig = _Namespace("symjax.scipy.signal")
    sig.convolve = _signal.convolve_nd
    sig.convolve2d = _signal.convolve2d
    sp.signal = sig
    ns.scipy = sp
    return ns


def _dynamic_slice(a, starts, sizes):
    a = asarray(a)
    idx = []
    for s, n, d in zip(starts, sizes, a.shape):
        if isinstance(s, SymArray):
            s = s.item()
        # JAX clamps the start so that the slice fits
        if A.is_sym(s) or A.is_sym(d):
            s = sym_max(0, sym_min(s, d - n))
        else:
            s = builtins.max(0, builtins.min(int(s), d - n))
        idx.append(slice(s, s + n))
    return a[tuple(idx)]


def _dynamic_update_slice(a, upd, starts):
    a, upd = asarray(a), asarray(upd)
    idx = []
    for s, n, d in zip(starts, upd.shape, a.shape):
        if isinstance(s, SymArray):
            s = s.item()
        if A.is_sym(s) or A.is_sym(d) or A.is_sym(n):
            s = sym_max(0, sym_min(s, d - n))
        else:
            s = builtins.max(0, builtins.min(int(s), d - n))
        idx.append(slice(s, s + n))
    return a.at[tuple(idx)].set(upd)


def _vmap(f, in_axes=0, out_axes=0, **kw):
    def g(*args):
        axes = in_axes if isinstance(in_axes, (tuple, list)) else [in_axes] * len(args)
        n = None
        for a, ax in zip(args, axes):
            if ax is not None:
                n = asarray(a).shape[ax]
                break
        if not _is_pyint(n):
            from .signal import lazy_vmap_call

            return lazy_vmap_call(f, args, axes, out_axes, n)
        outs = []
        for i in range(n):
            call = [A.take(asarray(a), i, axis=ax) if ax is not None else a for a, ax in zip(args, axes)]
            outs.append(f(*call))
        if isinstance(outs[0], tuple):
            return tuple(A.stack([o[k] for o in outs], axis=out_axes) for k in range(len(outs[0])))
        return A.stack(outs, axis=out_axes)

    return g


# ---------------------------------------------------------------------------------------
# math shim
# ---------------------------------------------------------------------------------------


def make_math():
    ns = _Namespace("symmath")
    for nm in dir(_math):
        if not nm.startswith("_"):
            setattr(ns, nm, getattr(_math, nm))

    def lift(name, real):
        def f(x, *a):
            if A.is_sym(x) or any(A.is_sym(y) for y in a):
                if name == "sqrt":
                    return sym_sqrt(x)
                if name == "floor":
                    return sym_floor(x)
                if name == "ceil":
                    return -sym_floor(-x)
                if name == "fabs":
                    return abs(x)
                if name == "isclose":
                    raise Unsupported("math.isclose on symbolic values")
                if name in ("isfinite",):
                    return True
                if name in ("isnan", "isinf"):
                    return False
                return apply_uf(name, x, *a)
            return real(x, *a)

        return f

    for nm in ("sqrt", "floor", "ceil", "fabs", "exp", "log", "sin", "cos", "tan", "tanh", "atan", "isfinite", "isnan", "isinf", "expm1", "log10"):
        setattr(ns, nm, lift(nm, getattr(_math, nm)))

    def isclose(a, b, *, rel_tol=1e-09, abs_tol=0.0):
        """math.isclose over the reals: a == b or |a-b| <= max(rel_tol*max(|a|,|b|), abs_tol)
        (symbolic reals are finite, so the inf/nan clauses of the CPython definition do not arise)"""
        if not (A.is_sym(a) or A.is_sym(b) or A.is_sym(rel_tol) or A.is_sym(abs_tol)):
            return _math.isclose(a, b, rel_tol=rel_tol, abs_tol=abs_tol)
        if a is b:
            return True
        diff = abs(a - b)
        bound = sym_max(rel_tol * sym_max(abs(a), abs(b)), abs_tol)
        return A._vor(v_eq(a, b), diff <= bound)

    ns.isclose = isclose
    return ns


# ---------------------------------------------------------------------------------------
# isinstance that knows about symbolic stand-ins
# ---------------------------------------------------------------------------------------


class _FloatMeta(type):
    def __instancecheck__(cls, obj):
        return builtins.isinstance(obj, float)

    def __subclasscheck__(cls, sub):
        return issubclass(sub, float)


class sym_float(metaclass=_FloatMeta):
    """stands in for the builtin `float` inside shimmed modules: float(x) of a symbolic value is the
    value itself (reals are exact); isinstance(x, float) keeps working."""

    def __new__(cls, x=0.0):
        if builtins.isinstance(x, SymArray):
            x = x.item()
        if builtins.isinstance(x, SymNum):
            if x.im is not None:
                raise TypeError("float() of complex")
            return x
        if builtins.isinstance(x, SymBool):
            return x._num()
        return float(x)


class _IntMeta(type):
    def __instancecheck__(cls, obj):
        return builtins.isinstance(obj, int)

    def __subclasscheck__(cls, sub):
        return issubclass(sub, int)


class sym_int(metaclass=_IntMeta):
    """stands in for the builtin `int`: int(x) of a symbolic real truncates toward zero"""

    def __new__(cls, x=0, *a):
        if builtins.isinstance(x, SymArray):
            x = x.item()
        if builtins.isinstance(x, SymNum):
            if x.is_int:
                return x
            return A._trunc(x)
        if builtins.isinstance(x, SymBool):
            return x._num()
        return int(x, *a)


def _unshim_class(c):
    if c is sym_float:
        return float
    if c is sym_int:
        return int
    return c


def sym_isinstance(obj, cls):
    # PEP 604 unions (`isinstance(x, float | int | str)`) mean the same as the tuple of their members
    if builtins.isinstance(cls, types.UnionType):
        cls = tuple(cls.__args__)
    cls = tuple(_unshim_class(c) for c in cls) if builtins.isinstance(cls, tuple) else _unshim_class(cls)
    if builtins.isinstance(obj, SymNum):
        classes = cls if builtins.isinstance(cls, tuple) else (cls,)
        for c in classes:
            if c is int and obj.is_int:
                return True
            if c is float and not obj.is_int and obj.im is None:
                return True
            if c is complex and obj.im is not None:
                return True
            if c is SymNum:
                return True
        # numbers ABCs
        import numbers

        for c in classes:
            if c in (numbers.Number, numbers.Real, numbers.Integral) and (c is not numbers.Integral or obj.is_int):
                return True
        return builtins.isinstance(obj, cls)
    if builtins.isinstance(obj, SymBool):
        classes = cls if builtins.isinstance(cls, tuple) else (cls,)
        if bool in classes:
            return True
    return builtins.isinstance(obj, cls)


class NumpyPassthrough(types.ModuleType):
    """`np` stand-in for repository modules that call a few numpy scalar helpers on values that may
    be symbolic: symbolic arguments use the symbolic definition, everything else is real numpy."""

    def __init__(self):
        super().__init__("symnp")
        import numpy as real_np

        self.__dict__["_np"] = real_np

    def __getattr__(self, name):
        real_np = self.__dict__["_np"]
        sym = {
            "deg2rad": lambda x: x * (_math.pi / 180.0),
            "rad2deg": lambda x: x * (180.0 / _math.pi),
            "radians": lambda x: x * (_math.pi / 180.0),
            "sqrt": lambda x: sym_sqrt(x),
            "cos": lambda x: apply_uf("cos", x),
            "sin": lambda x: apply_uf("sin", x),
            "abs": lambda x: abs(x),
        }
        real = getattr(real_np, name)
        if name in sym:
            def f(x, *a, **k):
                if isinstance(x, (SymNum, SymBool)):
                    return sym[name](x)
                if isinstance(x, SymArray):
                    return getattr(make_jnp_cached(), name)(x)
                return real(x, *a, **k)

            return f
        return real


_JAX = [None]
_MATH = [None]


def shim_objects():
    if _JAX[0] is None:
        _JAX[0] = make_jax()
        _MATH[0] = make_math()
    return {"jnp": make_jnp_cached(), "jax": _JAX[0], "math": _MATH[0], "isinstance": sym_isinstance, "float": sym_float, "int": sym_int}


@contextlib.contextmanager
def patched(module_names, extra=None, names=("jnp", "jax", "math", "isinstance", "float")):
    """Rebind shimmed globals in the given repository modules (by dotted name)."""
    import importlib

    shims = shim_objects()
    saved = []
    try:
        for mn in module_names:
            mod = importlib.import_module(mn) if isinstance(mn, str) else mn
            for nm in names:
                if nm in ("isinstance", "float", "int") or nm in mod.__dict__:
                    had = nm in mod.__dict__
                    saved.append((mod, nm, had, mod.__dict__.get(nm)))
                    mod.__dict__[nm] = shims[nm]
            for nm, val in (extra or {}).get(mod.__name__, {}).items():
                had = nm in mod.__dict__
                saved.append((mod, nm, had, mod.__dict__.get(nm)))
                mod.__dict__[nm] = val
        yield
    finally:
        for mod, nm, had, old in reversed(saved):
            if had:
                mod.__dict__[nm] = old
            else:
                mod.__dict__.pop(nm, None)
