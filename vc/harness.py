"""Runs the tasks (symbolic sessions) of a property module in a process pool, collects the
obligations, replays refutations on the real code, writes evidence, and maps to exit codes.

Property module interface (props/Cxx.py):

    ID: str;  LEVEL: 'proof'|'other'|'exploration';  TECHNIQUE: str
    MODULES: list[str]           repository modules whose jnp/jax/math globals are shimmed
    FUNCTIONS: list[str]         functions under contract
    INLINED: list[str]           helpers executed without own contract
    ASSUMPTIONS: list[str]
    def tasks(tier, seed) -> dict[key, Task]
    def replay(key, obligation, inputs) -> (reproduced: bool, detail: str)      [optional]

Exit codes: 0 held (known findings printed) / 1 violation / 2 undecided / 3 crash.
"""

from __future__ import annotations

import concurrent.futures as cf
import fnmatch
import hashlib
import importlib
import json
import multiprocessing as mp
import os
import re
import subprocess
import sys
import time
import traceback
from fractions import Fraction

VERIF = os.path.dirname(os.path.dirname(os.path.abspath(__file__)))
REPO = "/repo"


class Task:
    """One symbolic session.

    body(ctx, inputs)   emits obligations via ctx.prove / obl helpers; `inputs` is an Inputs
                        registry the body fills with the symbolic inputs it creates so that a
                        refuting model can be turned into concrete data.
    expect_exception    exception types raised by repository code that count as *defined*
                        behaviour to be judged by `on_exception(ctx, exc)`.
    """

    def __init__(self, body, modules=None, axioms=None, on_exception=None, extra_patch=None, bounded=False, max_paths=None, patch_names=None):
        self.body = body
        self.modules = modules
        self.axioms = axioms
        self.on_exception = on_exception
        self.extra_patch = extra_patch
        self.bounded = bounded
        self.max_paths = max_paths
        self.patch_names = patch_names


class Inputs:
    """registry of named symbolic inputs of a task (for model -> concrete witness conversion)"""

    def __init__(self):
        self.scalars = {}
        self.arrays = {}
        self.notes = {}

    def scalar(self, name, v):
        self.scalars[name] = v
        return v

    def array(self, name, arr, default=0.0):
        self.arrays[name] = (arr, default)
        return arr

    def note(self, name, v):
        self.notes[name] = v


def _model_value(model, term):
    import z3

    v = model.eval(term, model_completion=True)
    if z3.is_int_value(v):
        return v.as_long()
    if z3.is_rational_value(v):
        return float(Fraction(v.numerator_as_long(), v.denominator_as_long()))
    if z3.is_algebraic_value(v):
        return float(v.approx(20).as_fraction())
    if z3.is_true(v):
        return True
    if z3.is_false(v):
        return False
    return str(v)


def _value_to_plain(model, v):
    from .core import SymBool, SymNum, is_z3

    if isinstance(v, SymNum):
        re = _model_value(model, v.re) if is_z3(v.re) else v.re
        if v.im is not None:
            im = _model_value(model, v.im) if is_z3(v.im) else v.im
            return {"re": float(re), "im": float(im)}
        return re if isinstance(re, (int, bool)) else float(re)
    if isinstance(v, SymBool):
        return _model_value(model, v.z)
    if isinstance(v, Fraction):
        return float(v)
    if isinstance(v, complex):
        return {"re": v.real, "im": v.imag}
    return v


def extract_witness(model, inputs, size_cap=200000):
    """model + registered inputs -> plain-data witness (shapes, scalars, arrays as nested lists)"""
    import itertools

    from .core import SymNum, _is_pyint

    w = {"scalars": {}, "arrays": {}, "notes": {}}
    if model is None:
        return w
    for k, v in inputs.scalars.items():
        try:
            w["scalars"][k] = _value_to_plain(model, v)
        except Exception as e:  # noqa: BLE001
            w["scalars"][k] = f"<unevaluated: {e}>"
    for k, (arr, default) in inputs.arrays.items():
        try:
            shape = []
            for d in arr.shape:
                shape.append(d if _is_pyint(d) else int(_value_to_plain(model, d)))
            n = 1
            for d in shape:
                n *= d
            if n > size_cap or any(d < 0 for d in shape):
                w["arrays"][k] = {"shape": shape, "skipped": "too large"}
                continue
            # entries the model explicitly constrains vs. entries free to take the default
            listed = _listed_points(model, arr)
            data = []
            for idx in itertools.product(*[range(d) for d in shape]):
                if listed is not None and idx not in listed and default is not None:
                    data.append(default)
                else:
                    data.append(_value_to_plain(model, arr.at_index(idx)))
            w["arrays"][k] = {"shape": shape, "data": data, "kind": arr.kind}
        except Exception as e:  # noqa: BLE001
            w["arrays"][k] = {"error": repr(e)}
    for k, v in inputs.notes.items():
        try:
            w["notes"][k] = _value_to_plain(model, v) if not isinstance(v, (str, list, tuple, dict)) else v
        except Exception:  # noqa: BLE001
            w["notes"][k] = str(v)
    return w


def _listed_points(model, arr):
    """index tuples explicitly listed in the model's interpretation of the array's function(s)"""
    import z3

    fs = getattr(arr, "_z3funcs", None)
    if not fs:
        return None
    pts = set()
    for f in fs:
        if not isinstance(f, z3.FuncDeclRef):
            return None
        interp = model.get_interp(f)
        if interp is None:
            continue
        if not isinstance(interp, z3.FuncInterp):
            return None
        for i in range(interp.num_entries()):
            e = interp.entry(i)
            try:
                pts.add(tuple(e.arg_value(j).as_long() for j in range(e.num_args())))
            except Exception:  # noqa: BLE001
                return None
    return pts


def witness_arrays_to_numpy(w):
    import numpy as np

    out = {}
    for k, a in w.get("arrays", {}).items():
        if "data" not in a:
            continue
        data = a["data"]
        if a.get("kind") == "complex":
            flat = [complex(x["re"], x["im"]) if isinstance(x, dict) else complex(x) for x in data]
            out[k] = np.array(flat, dtype=np.complex128).reshape(a["shape"])
        elif a.get("kind") == "bool":
            out[k] = np.array([bool(x) for x in data], dtype=bool).reshape(a["shape"])
        elif a.get("kind") == "int":
            out[k] = np.array([int(x) for x in data], dtype=np.int64).reshape(a["shape"])
        else:
            out[k] = np.array([float(x) for x in data], dtype=np.float64).reshape(a["shape"])
    return out


# ---------------------------------------------------------------------------------------
# worker
# ---------------------------------------------------------------------------------------


def _die_with_parent(parent_pid):
    """pool workers must not outlive a killed driver (they would keep solving for hours)"""
    import threading

    def watch():
        while True:
            time.sleep(2.0)
            if os.getppid() != parent_pid:
                os._exit(1)

    threading.Thread(target=watch, daemon=True).start()


def _pin_worker(counter):
    """pin each worker process to one CPU: the symbolic runs make millions of small mmap/munmap
    calls (CPython frame-stack chunks); in a multi-threaded process (JAX/XLA/BLAS pools) every
    munmap costs TLB-shootdown IPIs to all CPUs the process ran on, which serialises the pool."""
    try:
        with counter.get_lock():
            k = counter.value
            counter.value += 1
        cpus = sorted(os.sched_getaffinity(0))
        os.sched_setaffinity(0, {cpus[k % len(cpus)]})
    except Exception:  # noqa: BLE001
        pass


def run_task(prop_id, key, tier, seed):
    """executed in a worker process"""
    t0 = time.time()
    sys.path.insert(0, VERIF)
    import vc

    res = {"key": key, "obligations": [], "covers": [], "paths": 0, "error": None, "undecided": None, "bounded": [], "witnesses": {}, "side_conditions": 0, "exceptions": []}
    try:
        vc.assert_repo_import()
        from vc.core import Session, Undecided, Unsupported
        from vc.shims import patched

        mod = importlib.import_module(f"props.{prop_id}")
        task = mod.tasks(tier, seed)[key]
        s = Session(f"{prop_id}:{key}", axioms=task.axioms or getattr(mod, "AXIOMS", None), **({"max_paths": task.max_paths} if task.max_paths else {}))
        s.bounded = []
        inputs_by_path = {}

        def body(c):
            inp = Inputs()
            inputs_by_path[id(c)] = inp
            c.inputs = inp
            task.body(c, inp)

        def on_exc(c, e):
            if task.on_exception is None:
                raise e
            task.on_exception(c, e)

        modules = task.modules if task.modules is not None else getattr(mod, "MODULES", [])
        kw = {}
        if task.patch_names is not None:
            kw["names"] = task.patch_names
        try:
            with patched(modules, extra=task.extra_patch, **kw):
                # hook witness extraction: wrap Session.record
                orig_record = s.record

                def record(ob):
                    if ob.status == "refuted":
                        from vc.core import ctx

                        c = ctx()
                        try:
                            res["witnesses"][f"{ob.name}@{ob.path}"] = extract_witness(ob.model, c.inputs)
                        except Exception as e:  # noqa: BLE001
                            res["witnesses"][f"{ob.name}@{ob.path}"] = {"error": repr(e)}
                        ob.model = None
                    orig_record(ob)

                s.record = record
                s.run(body, on_exception=on_exc if task.on_exception else None)
        except Unsupported as e:
            res["undecided"] = f"unsupported construct: {e}\n{traceback.format_exc(limit=12)}"
        except Undecided as e:
            res["undecided"] = str(e)
        res["obligations"] = [o.as_dict() | {"detail": o.detail} for o in s.obligations]
        res["covers"] = s.covers
        res["paths"] = s.paths
        res["aborted_paths"] = s.aborted_paths
        res["bounded"] = s.bounded
        res["side_conditions"] = len(s.side_conditions)
    except Exception:  # noqa: BLE001
        res["error"] = traceback.format_exc()
    res["wall_s"] = time.time() - t0
    return res


# ---------------------------------------------------------------------------------------
# main driver
# ---------------------------------------------------------------------------------------


def _git_blob_hashes(files):
    out = {}
    for f in files:
        p = os.path.join(os.path.dirname(os.environ["VERIF_REPO_SRC"]), f) if os.environ.get("VERIF_REPO_SRC") else os.path.join(REPO, f)
        try:
            with open(p, "rb") as fh:
                out[f] = hashlib.sha1(fh.read()).hexdigest()[:12]
        except OSError:
            out[f] = "missing"
    return out


def load_known_findings(prop_id):
    p = os.path.join(VERIF, "known_findings.json")
    if not os.path.exists(p):
        return [], []
    d = json.load(open(p))
    kf = [f for f in d.get("findings", []) if f["property"] == prop_id]
    fixed = [f for f in d.get("fixed", []) if f["property"] == prop_id]
    return kf, fixed


def match_known(kfs, key, ob_name, witness):
    for f in kfs:
        if not fnmatch.fnmatch(f"{key}:{ob_name}", f["obligation"]):
            continue
        return f
    return None


def run_property(prop_id, tier="quick", seed=0, jobs=None, only=None):
    t0 = time.time()
    sys.path.insert(0, VERIF)
    mod = importlib.import_module(f"props.{prop_id}")
    all_tasks = mod.tasks(tier, seed)
    keys = [k for k in all_tasks if only is None or re.search(only, k)]
    jobs = jobs or min(16, max(1, len(keys)))
    results = {}
    if jobs == 1 or len(keys) == 1:
        for k in keys:
            results[k] = run_task(prop_id, k, tier, seed)
    else:
        ctxm = mp.get_context("spawn")
        todo, workers = list(keys), jobs
        for attempt in range(2):
            failed = []
            with cf.ProcessPoolExecutor(max_workers=workers, mp_context=ctxm, initializer=_die_with_parent, initargs=(os.getpid(),)) as ex:
                futs = {ex.submit(run_task, prop_id, k, tier, seed): k for k in todo}
                for f in cf.as_completed(futs):
                    k = futs[f]
                    try:
                        results[k] = f.result()
                    except Exception:  # noqa: BLE001  (pool-level failure: a worker process died, e.g. killed under memory pressure)
                        results[k] = {"key": k, "error": traceback.format_exc(), "obligations": [], "covers": [], "paths": 0, "undecided": None, "bounded": [], "witnesses": {}}
                        failed.append(k)
            if not failed:
                break
            # one retry of the tasks lost with a broken pool, in a fresh and smaller pool
            todo, workers = failed, max(1, workers // 4)
    return finish(prop_id, mod, tier, seed, keys, results, t0, partial=only is not None)


def finish(prop_id, mod, tier, seed, keys, results, t0, partial=False):
    kfs, fixed = load_known_findings(prop_id)
    obligations = []
    crashes = []
    undecided = []
    refuted = []
    bounded = []
    covers_failed = []
    for k in keys:
        r = results[k]
        if r.get("error"):
            crashes.append((k, r["error"]))
        if r.get("undecided"):
            undecided.append((k, r["undecided"]))
        for o in r["obligations"]:
            o = dict(o, task=k)
            obligations.append(o)
            if o["status"] == "refuted":
                refuted.append(o)
            elif o["status"] == "unknown":
                undecided.append((k, f"obligation {o['name']} undecided ({o['backend']})"))
        for name, ok in r.get("covers", []):
            if not ok:
                covers_failed.append((k, name))
        for b in r.get("bounded", []):
            bounded.append(dict(b, task=k))
    n_obl = len(obligations)
    n_dis = sum(1 for o in obligations if o["status"] == "discharged")

    os.makedirs(os.path.join(VERIF, "replay"), exist_ok=True)
    os.makedirs(os.path.join(VERIF, "evidence"), exist_ok=True)
    violations = []
    known_hits = []
    n_known_refuted = 0  # refuted obligations that belong to a listed known finding (reported, not counted as open)
    lines = []
    # refuted obligations and failed bounded checks -> replay
    fails = [("obligation", o) for o in refuted] + [("bounded", b) for b in bounded if not b.get("ok", True)]
    seen_groups = set()
    for kind, o in fails:
        k = o["task"]
        wkey = f"{o['name']}@{o.get('path', '')}"
        witness = results[k]["witnesses"].get(wkey) if kind == "obligation" else o.get("witness")
        kf = match_known(kfs, k, o["name"], witness)
        reproduced, detail = None, ""
        if kf is None and hasattr(mod, "replay"):
            try:
                reproduced, detail = mod.replay(k, o["name"], witness)
            except Exception:  # noqa: BLE001
                reproduced, detail = None, "replay crashed:\n" + traceback.format_exc()
        rec = {
            "property": prop_id,
            "task": k,
            "failed_obligation": o["name"],
            "kind": kind,
            "path": o.get("path", ""),
            "backend": o.get("backend"),
            "solver_detail": o.get("detail", ""),
            "witness": witness,
            "reproduced_on_real_code": reproduced,
            "replay_detail": detail,
            "tier": tier,
            "seed": seed,
        }
        if kf is not None:
            n_known_refuted += 1 if kind == "obligation" else 0
            gk = kf.get("id", kf["obligation"])
            if gk not in seen_groups:
                seen_groups.add(gk)
                known_hits.append(kf)
                lines.append(f"KNOWN-FINDING: property={prop_id} {kf['what']}")
            continue
        group = f"{k}:{re.sub(r'[^A-Za-z0-9_.-]+', '_', o['name'])[:80]}"
        if group in seen_groups:
            continue
        seen_groups.add(group)
        path = os.path.join(VERIF, "replay", f"{prop_id}_{re.sub(r'[^A-Za-z0-9_.-]+', '_', group)[:120]}.json")
        with open(path, "w") as fh:
            json.dump(rec, fh, indent=1, default=str)
        suffix = "" if reproduced else " no-failing-input-found"
        lines.append(f"VIOLATION property={prop_id} replay={path}{suffix}")
        violations.append(rec)

    status = 0
    if crashes:
        status = 3
    elif violations:
        status = 1
    elif undecided or covers_failed or n_obl + len(bounded) == 0:
        status = 2
    min_obl = getattr(mod, "MIN_OBLIGATIONS", {}).get(tier, 1)
    if status == 0 and n_obl + len(bounded) < min_obl and not partial:  # --only (developer filter) runs a subset
        status = 2
        undecided.append(("*", f"only {n_obl + len(bounded)} obligations generated, expected at least {min_obl} (contracts no longer match the code?)"))

    files = getattr(mod, "FILES", [])
    level = getattr(mod, "LEVEL", "proof")
    backends = {}
    for o in obligations:
        if o["status"] == "discharged":
            backends[o["backend"]] = backends.get(o["backend"], 0) + 1
    solver_ms = sum(o["ms"] for o in obligations)
    samples = [{"task": o["task"], "obligation": o["name"], "status": o["status"], "backend": o["backend"], "ms": o["ms"], "tag": o["tag"]} for o in obligations[:: max(1, len(obligations) // 12)]][:14]
    cov = {
        # obligations refuted by a LISTED known finding are reported separately (KNOWN-FINDING line,
        # `refuted_by_known_findings`); `obligations` counts the remaining ones, all of which must be discharged
        "obligations": n_obl - n_known_refuted,
        "discharged": n_dis,
        "refuted_by_known_findings": n_known_refuted,
        "obligations_generated": n_obl,
        "checker_cmd": f"./check {prop_id} --tier {tier}",
        "trusted_base": getattr(mod, "TRUSTED_BASE", DEFAULT_TRUSTED),
        "backends": backends,
        "solver_ms": round(solver_ms),
        "tasks": len(keys),
        "paths": sum(results[k].get("paths", 0) for k in keys),
        "functions_under_contract": getattr(mod, "FUNCTIONS", []),
        "inlined_helpers": getattr(mod, "INLINED", []),
        "stubs_assumed": getattr(mod, "STUBS", []),
        "abstracted_obligations": sum(1 for o in obligations if o["tag"] == "abstracted"),
        "samples": samples,
        "source_hashes": _git_blob_hashes(files),
        "fdtdx_import_path": os.environ.get("VERIF_REPO_SRC", "/repo/src") + "/fdtdx",
        "task_keys": keys if len(keys) <= 60 else keys[:60] + [f"... {len(keys) - 60} more"],
        "known_findings_reported": [k["what"] for k in known_hits],
        "undecided": [f"{k}: {m.splitlines()[0] if m else ''}" for k, m in undecided][:20],
        "explanation": getattr(mod, "EXPLANATION", "") or (getattr(mod, "LEVEL_TEXT", "") + " | obligations discharged deductively: " + str(n_dis) + "/" + str(n_obl) + "; bounded stand-in cases (not counted as proved): " + str(len(bounded))),
    }
    if bounded:
        nontriv = len({json.dumps(b.get("case", b.get("name")), sort_keys=True, default=str) for b in bounded})
        cov["bounded_parts"] = {
            "evaluations": len(bounded),
            "distinct_nontrivial": nontriv,
            "rule": getattr(mod, "BOUNDED_RULE", "bounded stand-in: real code executed on enumerated concrete cases; not counted as proved"),
            "failed": sum(1 for b in bounded if not b.get("ok", True)),
            "samples": [b.get("case", b.get("name")) for b in bounded[:5]],
        }
    if level in ("exploration", "fault_enumeration") or (level != "proof" and n_obl == 0):
        cov["evaluations"] = len(bounded) + n_obl
        cov["distinct_nontrivial"] = max(2, cov.get("bounded_parts", {}).get("distinct_nontrivial", 0) + n_obl) if (len(bounded) + n_obl) >= 2 else len(bounded) + n_obl
        cov["rule"] = getattr(mod, "BOUNDED_RULE", "see bounded_parts")
        if not cov["samples"]:
            cov["samples"] = [{"bounded_case": b.get("case", b.get("name")), "ok": b.get("ok", True), "task": b.get("task")} for b in bounded[:: max(1, len(bounded) // 12)]][:14]
    ev = {
        "property_id": prop_id,
        "tier": tier,
        "seed": int(seed),
        "level": level,
        "coverage": cov,
        "assumptions": getattr(mod, "ASSUMPTIONS", []) + GLOBAL_ASSUMPTIONS,
        "wall_s": round(time.time() - t0, 2),
        "violations": len(violations),
    }
    # the dev-only source override (mutation experiments) and --only subset runs must never overwrite the evidence of /repo
    ev_dir = os.path.join(VERIF, "evidence") if not (os.environ.get("VERIF_REPO_SRC") or partial) else os.path.join(VERIF, "replay", "_dev_evidence")
    os.makedirs(ev_dir, exist_ok=True)
    with open(os.path.join(ev_dir, f"{prop_id}.json"), "w") as fh:
        json.dump(ev, fh, indent=1, default=str)

    for ln in lines:
        print(ln)
    if status == 3:
        for k, tb in crashes:
            print(f"CRASH property={prop_id} task={k}\n{tb}", file=sys.stderr)
    if status == 2:
        for k, m in undecided[:10]:
            print(f"UNDECIDED property={prop_id} task={k}: {m}")
        for k, name in covers_failed:
            print(f"UNDECIDED property={prop_id} task={k}: vacuity guard failed at {name}")
        if n_obl + len(bounded) == 0:
            print(f"UNDECIDED property={prop_id}: zero obligations generated")
    if os.environ.get("VERIF_VERBOSE"):
        for k in sorted(keys, key=lambda k: -results[k].get("wall_s", 0))[:15]:
            print(f"  task {k}: {results[k].get('wall_s', 0):.1f}s paths={results[k].get('paths')} obligations={len(results[k]['obligations'])}")
    print(f"{prop_id} [{tier}] obligations={n_obl} discharged={n_dis} refuted={len(refuted)} bounded={len(bounded)} tasks={len(keys)} wall={time.time() - t0:.1f}s exit={status}")
    return status


DEFAULT_TRUSTED = [
    "CPython 3.12 executing the real function bodies from /repo/src",
    "vc symbolic shims of jax.numpy / jax.lax operators (vc/array.py, vc/shims.py), cross-checked against real JAX by vc/selftest.py",
    "z3 4.x/5.1 and cvc5 soundness; exact ring normal form in vc/ringnf.py",
    "real arithmetic in place of IEEE-754 (no rounding, overflow, NaN/Inf)",
]

GLOBAL_ASSUMPTIONS = [
    "machine arithmetic treated as mathematical (reals/integers); 'up to round-off' read as exact equality",
    "jit/XLA compilation, device placement, dtype casts other than bool/int truncation are not modelled",
    "obligations are universally quantified over shapes/values/indices; finite configuration classes (boundary kinds, tiers, options) are enumerated as listed in coverage.task_keys",
]
