"""Core of the verification-condition engine: context, path forking, symbolic scalars.

A *session* (``Session``) explores one function-under-contract: the body (a Python callable
that builds symbolic inputs, calls the REAL repository function and emits obligations) is
executed once per feasible decision path.  ``bool(SymBool)`` consults the solver: if the
condition is implied / refuted by the assumptions and the path condition it is decided,
otherwise the run forks (re-execution with a recorded decision prefix, DFS).

Obligations are validity checks  assumptions /\\ path-condition => goal, discharged by z3
(then cvc5 on `unknown`).  Exit-code conventions are implemented in vc/driver.py.
"""

from __future__ import annotations

import itertools
import os
import sys
import subprocess
import tempfile
import time
from fractions import Fraction

import z3

Z3_TIMEOUT_MS = int(os.environ.get("VERIF_Z3_TIMEOUT_MS", "60000"))
CVC5_TIMEOUT_MS = int(os.environ.get("VERIF_CVC5_TIMEOUT_MS", "40000"))
Z3_FAST_MS = int(os.environ.get("VERIF_Z3_FAST_MS", "3000"))
DECIDE_TIMEOUT_MS = int(os.environ.get("VERIF_DECIDE_TIMEOUT_MS", "10000"))
ITE_SPLIT_LEAVES = int(os.environ.get("VERIF_ITE_SPLIT_LEAVES", "4000"))
ITE_SPLIT_DEPTH = int(os.environ.get("VERIF_ITE_SPLIT_DEPTH", "400"))
ITE_SPLIT_SECONDS = float(os.environ.get("VERIF_ITE_SPLIT_SECONDS", "480"))  # CPU seconds
MAX_PATHS = int(os.environ.get("VERIF_MAX_PATHS", "4096"))

# ---------------------------------------------------------------------------------------------
# Solver budgets are CPU time, not wall-clock time.
#
# z3's `timeout` parameter (and cvc5's --tlimit) count wall-clock milliseconds, so on a machine whose
# cores are shared (several checks at once, or a noisy neighbour) a query that needs 1 s of CPU can
# overrun a 3 s limit, come back `unknown`, and turn a discharged obligation into an undecided one.
# Every timed solver call therefore goes through limited_check(): the wall-clock limit handed to z3 is
# the CPU budget scaled by the slowdown currently observed (wall / thread-CPU of recent calls), and an
# `unknown` that hit the wall limit while the calling thread had consumed clearly less CPU (< 60 %) than the
# budget is retried with a proportionally longer wall limit.  A query is given up only after it has
# really used its CPU budget (or WALL_CAP times the budget in wall time), so verdicts do not depend on
# the load of the machine.  (ctx.interrupt() from a CPU-time watchdog is not used as the primary limit:
# an interrupt that lands just after check() has returned leaves the z3 context cancelled for good.)
WALL_CAP = float(os.environ.get("VERIF_WALL_CAP", "40"))
_SLOWDOWN = [1.0]  # wall / CPU ratio of recent solver calls in this process (>= 1)


def _note_slowdown(wall, cpu):
    if wall >= 0.2:
        ratio = min(WALL_CAP, max(1.0, wall / max(cpu, 1e-3)))
        _SLOWDOWN[0] = 0.5 * _SLOWDOWN[0] + 0.5 * ratio


def limited_check(solver, budget_ms, restore_ms=None):
    """solver.check() under a CPU-time budget of budget_ms (see above) -> z3.sat / z3.unsat / z3.unknown"""
    import threading

    budget = budget_ms / 1000.0
    scale = 1.0  # first attempt: plain wall-clock limit (identical to an idle machine); scaled up only on evidence of starvation
    spent_wall = 0.0
    r = z3.unknown
    try:
        for _attempt in range(5):
            wall_ms = int(min(budget_ms * scale, budget_ms * WALL_CAP))
            solver.set("timeout", wall_ms)
            # z3's own timeout is only polled between solver steps; a watchdog interrupts checks that overrun
            # (it can only fire long after z3's own limit, i.e. while the check is still running)
            wd = threading.Timer(wall_ms / 1000.0 * 1.5 + 2.0, solver.ctx.interrupt)
            wd.daemon = True
            wd.start()
            c0, w0 = time.thread_time(), time.monotonic()
            try:
                r = solver.check()
            except z3.Z3Exception:
                r = z3.unknown
            finally:
                wd.cancel()
            cpu, wall = time.thread_time() - c0, time.monotonic() - w0
            _note_slowdown(wall, cpu)
            spent_wall += wall
            if r != z3.unknown:
                break
            if wall < 0.9 * wall_ms / 1000.0:  # gave up by itself (incomplete theory), not a timeout
                break
            if cpu >= 0.6 * budget or spent_wall >= budget * WALL_CAP:  # (a retry repeats the work: only when clearly starved)
                break
            # starved: the wall limit expired with the CPU budget unspent -> retry with the limit scaled up
            scale = min(WALL_CAP, max(scale * 1.5, 1.25 * wall / max(cpu, 1e-3)))
    finally:
        if restore_ms is not None:
            solver.set("timeout", restore_ms)
    return r


def _child_cpu_limit(seconds):
    """hard CPU-time limit for a forked / spawned solver process (its CPU clock starts at zero)"""
    import resource

    s = int(seconds) + 1
    try:
        resource.setrlimit(resource.RLIMIT_CPU, (s, s + 5))
    except (ValueError, OSError):
        pass



class Unsupported(Exception):
    """A construct outside the supported subset was reached: the run is UNDECIDED (exit 2)."""


class PathAbort(Exception):
    """Used internally to stop exploring the current path (e.g. after an invariant cut)."""


class Undecided(Exception):
    pass


# --------------------------------------------------------------------------------------
# value helpers
# --------------------------------------------------------------------------------------


def is_z3(x):
    return isinstance(x, z3.ExprRef)


def to_z3_real(x):
    """python number / z3 arith -> z3 Real-sorted term."""
    if isinstance(x, z3.ExprRef):
        if z3.is_int(x):
            return z3.ToReal(x)
        return x
    if isinstance(x, bool):
        return z3.RealVal(int(x))
    if isinstance(x, int):
        return z3.RealVal(x)
    if isinstance(x, Fraction):
        return z3.RealVal(str(x))
    if isinstance(x, float):
        if x != x or x in (float("inf"), float("-inf")):
            raise Unsupported(f"non-finite float {x} meets a symbolic value")
        return z3.RealVal(str(Fraction(x)))
    try:
        import numpy as _np

        if isinstance(x, _np.generic):
            return to_z3_real(x.item())
    except ImportError:  # pragma: no cover
        pass
    raise Unsupported(f"cannot lift {type(x).__name__} to a real term")


def to_z3_int(x):
    if isinstance(x, z3.ExprRef):
        if z3.is_int(x):
            return x
        raise Unsupported("real term used as integer")
    if isinstance(x, (bool, int)):
        return z3.IntVal(int(x))
    try:
        import numpy as _np

        if isinstance(x, _np.integer):
            return z3.IntVal(int(x))
    except ImportError:  # pragma: no cover
        pass
    raise Unsupported(f"cannot lift {type(x).__name__} to an int term")


def _simp(e):
    return z3.simplify(e)


def _is_pyint(x):
    return isinstance(x, int) and not isinstance(x, bool)


def _z(x):
    return 0 if x is None else x


def _norm_part(x):
    if not isinstance(x, z3.ExprRef):
        return x
    if z3.is_int(x):
        x = z3.simplify(x)
        if z3.is_int_value(x):
            return x.as_long()
        return x
    if z3.is_rational_value(x):
        return Fraction(x.numerator_as_long(), x.denominator_as_long())
    return x


# --------------------------------------------------------------------------------------
# symbolic scalars
# --------------------------------------------------------------------------------------


class SymBool:
    __slots__ = ("z",)
    __array_priority__ = 0

    def __init__(self, z):
        self.z = z

    @staticmethod
    def wrap(b):
        if isinstance(b, SymBool):
            return b
        if isinstance(b, z3.BoolRef):
            s = _simp(b)
            if z3.is_true(s):
                return True
            if z3.is_false(s):
                return False
            return SymBool(s)
        return bool(b)

    def __bool__(self):
        return ctx().decide(self.z)

    def _bin(self, other, op):
        from .array import SymArray

        if isinstance(other, SymArray):
            return NotImplemented
        return SymBool.wrap(op(self.z, zbool(other)))

    def __and__(self, o):
        return self._bin(o, z3.And)

    __rand__ = __and__

    def __or__(self, o):
        return self._bin(o, z3.Or)

    __ror__ = __or__

    def __xor__(self, o):
        return self._bin(o, z3.Xor)

    __rxor__ = __xor__

    def __invert__(self):
        return SymBool.wrap(z3.Not(self.z))

    def __eq__(self, o):
        return self._bin(o, lambda a, b: a == b)

    def __ne__(self, o):
        return self._bin(o, lambda a, b: a != b)

    def __hash__(self):
        return id(self)

    # numeric use of booleans (True == 1)
    def _num(self):
        return SymNum(z3.If(self.z, z3.IntVal(1), z3.IntVal(0)))

    def __add__(self, o):
        return self._num() + o

    __radd__ = __add__

    def __mul__(self, o):
        return self._num() * o

    __rmul__ = __mul__

    def __sub__(self, o):
        return self._num() - o

    def __rsub__(self, o):
        return o - self._num()

    def __repr__(self):
        return f"SymBool({self.z})"


def zbool(b):
    """value -> z3 Bool"""
    if isinstance(b, SymBool):
        return b.z
    if isinstance(b, z3.BoolRef):
        return b
    if isinstance(b, SymNum):
        return b.re != 0
    return z3.BoolVal(bool(b))


def _num_parts(x):
    """value -> (re, im) with im None for real values.  re/im are python numbers or z3 terms."""
    if isinstance(x, SymNum):
        return x.re, x.im
    if isinstance(x, SymBool):
        return z3.If(x.z, z3.IntVal(1), z3.IntVal(0)), None
    if isinstance(x, complex):
        return x.real, x.imag
    if isinstance(x, (bool,)):
        return int(x), None
    if isinstance(x, (int, float, Fraction)):
        return x, None
    if isinstance(x, z3.ExprRef):
        if z3.is_bool(x):
            return z3.If(x, z3.IntVal(1), z3.IntVal(0)), None
        return x, None
    try:
        import numpy as _np

        if isinstance(x, _np.generic):
            return _num_parts(x.item())
        if isinstance(x, _np.ndarray) and x.ndim == 0:
            return _num_parts(x.item())
    except ImportError:  # pragma: no cover
        pass
    try:
        import jax

        if isinstance(x, jax.Array) and x.ndim == 0:
            return _num_parts(x.item())
    except ImportError:  # pragma: no cover
        pass
    return None


def _padd(a, b):
    if is_z3(a) or is_z3(b):
        if is_z3(a) and is_z3(b):
            if z3.is_int(a) and z3.is_int(b):
                return a + b
            return to_z3_real(a) + to_z3_real(b)
        s, c = (a, b) if is_z3(a) else (b, a)
        if z3.is_int(s) and _is_pyint(c):
            return s + c if c != 0 else s
        if c == 0:
            return s
        return to_z3_real(s) + to_z3_real(c)
    return a + b


def _pneg(a):
    return -a


def _psub(a, b):
    if is_z3(a) or is_z3(b):
        if is_z3(a) and is_z3(b):
            if z3.is_int(a) and z3.is_int(b):
                return a - b
            return to_z3_real(a) - to_z3_real(b)
        if is_z3(a):
            if z3.is_int(a) and _is_pyint(b):
                return a - b if b != 0 else a
            if b == 0:
                return a
            return to_z3_real(a) - to_z3_real(b)
        if z3.is_int(b) and _is_pyint(a):
            return a - b
        return to_z3_real(a) - to_z3_real(b)
    return a - b


def _pmul(a, b):
    if is_z3(a) or is_z3(b):
        if is_z3(a) and is_z3(b):
            if z3.is_int(a) and z3.is_int(b):
                return a * b
            return to_z3_real(a) * to_z3_real(b)
        s, c = (a, b) if is_z3(a) else (b, a)
        if c == 0:
            return 0
        if c == 1:
            return s
        if z3.is_int(s) and _is_pyint(c):
            return s * c
        return to_z3_real(s) * to_z3_real(c)
    return a * b


def _pdiv(a, b):
    """true division"""
    if is_z3(a) or is_z3(b):
        if not is_z3(b):
            if b == 1:
                return to_z3_real(a)
            if b == 0:
                raise ZeroDivisionError("division of symbolic value by literal zero")
            if isinstance(b, float):
                b = Fraction(b)
            return to_z3_real(a) * to_z3_real(Fraction(1) / Fraction(b))
        if not is_z3(a) and a == 0:
            return 0
        ctx().note_division(to_z3_real(b))
        return to_z3_real(a) / to_z3_real(b)
    if _is_pyint(a) and _is_pyint(b):
        return a / b
    return a / b


_ABS_OF: dict = {}


class SymNum:
    """Symbolic number: real/int (``im is None``) or complex (re, im)."""

    __slots__ = ("re", "im")
    __array_priority__ = 0

    def __init__(self, re, im=None):
        self.re = re
        self.im = im

    # -- construction helpers -------------------------------------------------------
    @staticmethod
    def wrap(re, im=None):
        """Normalise: returns a python number when everything is concrete.  Integer-sorted
        terms (dimensions, indices) are simplified so that e.g. N+2-2 is N; real-sorted terms are
        only checked for being numerals (constant folding is done by the _p* helpers)."""
        re = _norm_part(re)
        if im is None:
            if is_z3(re):
                return SymNum(re)
            return re
        im = _norm_part(im)
        if not is_z3(re) and not is_z3(im):
            return complex(re, im) if isinstance(re, float) or isinstance(im, float) else SymNum(re, im)
        return SymNum(re, im)

    @property
    def is_complex(self):
        return self.im is not None

    @property
    def is_int(self):
        return self.im is None and ((is_z3(self.re) and z3.is_int(self.re)) or _is_pyint(self.re))

    # -- arithmetic -------------------------------------------------------------------
    def _coerce(self, o):
        from .array import SymArray

        if isinstance(o, SymArray):
            return None
        return _num_parts(o)

    def __add__(self, o):
        p = self._coerce(o)
        if p is None:
            return NotImplemented
        re = _padd(self.re, p[0])
        if self.im is None and p[1] is None:
            return SymNum.wrap(re)
        return SymNum.wrap(re, _padd(_z(self.im), _z(p[1])))

    __radd__ = __add__

    def __sub__(self, o):
        p = self._coerce(o)
        if p is None:
            return NotImplemented
        re = _psub(self.re, p[0])
        if self.im is None and p[1] is None:
            return SymNum.wrap(re)
        return SymNum.wrap(re, _psub(_z(self.im), _z(p[1])))

    def __rsub__(self, o):
        p = self._coerce(o)
        if p is None:
            return NotImplemented
        re = _psub(p[0], self.re)
        if self.im is None and p[1] is None:
            return SymNum.wrap(re)
        return SymNum.wrap(re, _psub(_z(p[1]), _z(self.im)))

    def __neg__(self):
        if self.im is None:
            return SymNum.wrap(-self.re)
        return SymNum.wrap(-self.re, -self.im)

    def __pos__(self):
        return self

    def __mul__(self, o):
        p = self._coerce(o)
        if p is None:
            return NotImplemented
        if self.im is None and p[1] is None:
            if is_z3(self.re) and is_z3(p[0]) and self.re.get_id() == p[0].get_id() and self.re.get_id() in _ABS_OF:
                x = _ABS_OF[self.re.get_id()][1]  # |x| * |x| == x * x for real x
                return SymNum.wrap(_pmul(x, x))
            return SymNum.wrap(_pmul(self.re, p[0]))
        a, b = self.re, (self.im if self.im is not None else 0)
        c, d = p[0], (p[1] if p[1] is not None else 0)
        return SymNum.wrap(_psub(_pmul(a, c), _pmul(b, d)), _padd(_pmul(a, d), _pmul(b, c)))

    __rmul__ = __mul__

    def __truediv__(self, o):
        p = self._coerce(o)
        if p is None:
            return NotImplemented
        return _vdiv((self.re, self.im), p)

    def __rtruediv__(self, o):
        p = self._coerce(o)
        if p is None:
            return NotImplemented
        return _vdiv(p, (self.re, self.im))

    def __floordiv__(self, o):
        p = self._coerce(o)
        if p is None:
            return NotImplemented
        return _vfloordiv((self.re, self.im), p)

    def __rfloordiv__(self, o):
        p = self._coerce(o)
        if p is None:
            return NotImplemented
        return _vfloordiv(p, (self.re, self.im))

    def __mod__(self, o):
        p = self._coerce(o)
        if p is None:
            return NotImplemented
        return _vmod((self.re, self.im), p)

    def __rmod__(self, o):
        p = self._coerce(o)
        if p is None:
            return NotImplemented
        return _vmod(p, (self.re, self.im))

    def __pow__(self, o):
        if _is_pyint(o) and o >= 0:
            r = 1
            for _ in range(o):
                r = r * self
            return r
        if _is_pyint(o) and o < 0:
            return 1 / (self ** (-o))
        if isinstance(o, float) and o == 0.5:
            return sym_sqrt(self)
        if isinstance(o, float) and float(o).is_integer():
            return self ** int(o)
        raise Unsupported(f"power with exponent {o!r}")

    def __rpow__(self, o):
        raise Unsupported("symbolic exponent")

    def __abs__(self):
        if self.im is not None and not is_z3(self.im) and self.im == 0:
            return abs(SymNum.wrap(self.re))
        if self.im is not None:
            return sym_sqrt(SymNum.wrap(_padd(_pmul(self.re, self.re), _pmul(self.im, self.im))))
        r = ite(self >= 0, self, -self)
        if isinstance(r, SymNum) and is_z3(r.re) and r.im is None:
            _ABS_OF[r.re.get_id()] = (r.re, self.re)  # keeps the term alive so the id stays unique
        return r

    # -- comparisons ------------------------------------------------------------------
    def _cmp(self, o, op):
        p = self._coerce(o)
        if p is None:
            return NotImplemented
        if self.im is not None or p[1] is not None:
            raise TypeError("ordering of complex values")
        a, b = self.re, p[0]
        if is_z3(a) and z3.is_int(a) and (_is_pyint(b) or (is_z3(b) and z3.is_int(b))):
            return SymBool.wrap(op(a, to_z3_int(b)))
        return SymBool.wrap(op(to_z3_real(a), to_z3_real(b)))

    def __lt__(self, o):
        return self._cmp(o, lambda a, b: a < b)

    def __le__(self, o):
        return self._cmp(o, lambda a, b: a <= b)

    def __gt__(self, o):
        return self._cmp(o, lambda a, b: a > b)

    def __ge__(self, o):
        return self._cmp(o, lambda a, b: a >= b)

    def __eq__(self, o):
        if o is None or isinstance(o, (str, tuple, list, dict)):
            return False
        p = self._coerce(o)
        if p is None:
            return NotImplemented
        return v_eq(self, o)

    def __ne__(self, o):
        r = self.__eq__(o)
        if r is NotImplemented:
            return r
        if isinstance(r, bool):
            return not r
        return ~r

    def __hash__(self):
        return id(self)

    # -- forbidden concretisations ----------------------------------------------------
    def __index__(self):
        raise Unsupported("symbolic integer used where a concrete index is required")

    def __int__(self):
        raise Unsupported("int() of a symbolic value")

    def __float__(self):
        raise Unsupported("float() of a symbolic value")

    def __bool__(self):
        return bool(self != 0)

    def __round__(self, nd=None):
        if nd is not None:
            raise Unsupported("round with digits")
        return sym_round(self)

    def __floor__(self):
        return sym_floor(self)

    def __ceil__(self):
        return -sym_floor(-self)

    def __complex__(self):
        raise Unsupported("complex() of a symbolic value")

    # numpy-like attributes commonly touched
    @property
    def real(self):
        return SymNum.wrap(self.re)

    @property
    def imag(self):
        return SymNum.wrap(self.im) if self.im is not None else 0

    def conjugate(self):
        if self.im is None:
            return self
        return SymNum.wrap(self.re, _pneg(self.im))

    conj = conjugate
    shape = ()
    ndim = 0

    def astype(self, dt):
        return self

    def item(self):
        return self

    def __format__(self, spec):
        return repr(self)  # error messages of the repository format numbers ("{x:.4g}")

    def __repr__(self):
        if self.im is None:
            return f"Sym({self.re})"
        return f"Sym({self.re} + i*{self.im})"


def _vdiv(p, q):
    (a, b), (c, d) = p, q
    if b is None and d is None:
        return SymNum.wrap(_pdiv(a, c))
    b = b if b is not None else 0
    if d is None:
        return SymNum.wrap(_pdiv(a, c), _pdiv(b, c))
    den = _padd(_pmul(c, c), _pmul(d, d))
    return SymNum.wrap(
        _pdiv(_padd(_pmul(a, c), _pmul(b, d)), den),
        _pdiv(_psub(_pmul(b, c), _pmul(a, d)), den),
    )


def _floor_div_int(a, b):
    """python floor division on z3 ints (z3 div is euclidean: differs for negative divisors)."""
    a, b = to_z3_int(a), to_z3_int(b)
    if z3.is_int_value(b) and b.as_long() > 0:
        return a / b
    q = a / b  # euclidean
    r = a % b  # 0 <= r < |b|
    return z3.If(z3.Or(b > 0, r == 0), q, q - 1)


def _vfloordiv(p, q):
    (a, b), (c, d) = p, q
    if b is not None or d is not None:
        raise TypeError("floor division of complex")
    ai = _is_pyint(a) or (is_z3(a) and z3.is_int(a))
    ci = _is_pyint(c) or (is_z3(c) and z3.is_int(c))
    if ai and ci:
        return SymNum.wrap(_floor_div_int(a, c))
    return sym_floor(SymNum.wrap(_pdiv(a, c)))


def _vmod(p, q):
    (a, b), (c, d) = p, q
    if b is not None or d is not None:
        raise TypeError("mod of complex")
    ai = _is_pyint(a) or (is_z3(a) and z3.is_int(a))
    ci = _is_pyint(c) or (is_z3(c) and z3.is_int(c))
    if ai and ci:
        fd = _floor_div_int(a, c)
        return SymNum.wrap(to_z3_int(a) - fd * to_z3_int(c))
    fl = sym_floor(SymNum.wrap(_pdiv(a, c)))
    return SymNum.wrap(a) - fl * SymNum.wrap(c)


def v_eq(a, b):
    """elementwise equality of two scalar values -> bool | SymBool"""
    if isinstance(a, SymBool) or isinstance(b, SymBool) or isinstance(a, (bool, z3.BoolRef)) and isinstance(b, (bool, z3.BoolRef)):
        if isinstance(a, bool) and isinstance(b, bool):
            return a == b
        if isinstance(a, (SymBool, z3.BoolRef)) and isinstance(b, (SymBool, bool, z3.BoolRef)):
            return SymBool.wrap(zbool(a) == zbool(b))
        if isinstance(b, (SymBool, z3.BoolRef)) and isinstance(a, (bool,)):
            return SymBool.wrap(zbool(a) == zbool(b))
    pa, pb = _num_parts(a), _num_parts(b)
    if pa is None or pb is None:
        return a == b
    res = _eq_part(pa[0], pb[0])
    if pa[1] is not None or pb[1] is not None:
        res2 = _eq_part(pa[1] if pa[1] is not None else 0, pb[1] if pb[1] is not None else 0)
        if isinstance(res, bool) and isinstance(res2, bool):
            return res and res2
        return SymBool.wrap(z3.And(zbool(res), zbool(res2)))
    return res


def _eq_part(a, b):
    if not is_z3(a) and not is_z3(b):
        return a == b
    if (is_z3(a) and z3.is_int(a) or _is_pyint(a)) and (is_z3(b) and z3.is_int(b) or _is_pyint(b)):
        return SymBool.wrap(to_z3_int(a) == to_z3_int(b))
    return SymBool.wrap(to_z3_real(a) == to_z3_real(b))


def ite(c, a, b):
    """scalar if-then-else on values"""
    if isinstance(c, bool):
        return a if c else b
    if isinstance(c, SymNum):
        c = c != 0
        if isinstance(c, bool):
            return a if c else b
    if not isinstance(c, (SymBool, z3.BoolRef)):
        try:
            return a if bool(c) else b
        except Exception as e:  # noqa: BLE001
            raise Unsupported(f"ite condition {type(c).__name__}") from e
    cz = zbool(c)
    if a is b:
        return a
    cc = _CTX[0]
    if cc is not None and cc.prune_ite:
        r = cc.truth(cz)
        if r is True:
            return a
        if r is False:
            return b
    if isinstance(a, (SymBool, bool, z3.BoolRef)) and isinstance(b, (SymBool, bool, z3.BoolRef)):
        return SymBool.wrap(z3.If(cz, zbool(a), zbool(b)))
    pa, pb = _num_parts(a), _num_parts(b)
    if pa is None or pb is None:
        raise Unsupported(f"ite over {type(a).__name__}/{type(b).__name__}")
    re = _ite_part(cz, pa[0], pb[0])
    if pa[1] is None and pb[1] is None:
        return SymNum.wrap(re)
    return SymNum.wrap(re, _ite_part(cz, pa[1] if pa[1] is not None else 0, pb[1] if pb[1] is not None else 0))


def _ite_part(cz, a, b):
    if not is_z3(a) and not is_z3(b) and a == b and type(a) is type(b):
        return a
    ai = is_z3(a) and z3.is_int(a) or _is_pyint(a)
    bi = is_z3(b) and z3.is_int(b) or _is_pyint(b)
    if ai and bi:
        return z3.If(cz, to_z3_int(a), to_z3_int(b))
    return z3.If(cz, to_z3_real(a), to_z3_real(b))


# -- uninterpreted transcendental functions ------------------------------------------

_UF = {}


def uf(name, arity=1, sort=None):
    key = (name, arity)
    if key not in _UF:
        _UF[key] = z3.Function(name, *([z3.RealSort()] * arity), sort or z3.RealSort())
    return _UF[key]


def apply_uf(name, *args):
    """apply an uninterpreted real function to real values; records the application so that
    axiom schemas registered for `name` are instantiated."""
    zs = [to_z3_real(_num_parts(a)[0]) for a in args]
    f = uf(name, len(zs))
    t = f(*zs)
    ctx().note_uf_app(name, tuple(zs), t)
    return SymNum(t)


def sym_sqrt(x):
    p = _num_parts(x)
    if p[1] is not None:
        raise Unsupported("sqrt of complex")
    if not is_z3(p[0]):
        import math

        return math.sqrt(p[0])
    r = apply_uf("sqrt", x)
    # defining facts of the principal square root (instantiated at this application)
    xr = to_z3_real(p[0])
    ctx().assume(z3.And(r.re >= 0, z3.Implies(xr >= 0, r.re * r.re == xr)), "axiom:sqrt")
    return r


def sym_round(x):
    """round(): an integer within 1/2 of x, NO tie-breaking assumption."""
    p = _num_parts(x)
    if not is_z3(p[0]):
        return round(p[0])
    if z3.is_int(p[0]):
        return SymNum(p[0])
    r = ctx().fresh_int("rnd")
    ctx().assume(z3.And(to_z3_real(r) - p[0] <= z3.RealVal("1/2"), p[0] - to_z3_real(r) <= z3.RealVal("1/2")), "round")
    return SymNum(r)


def sym_floor(x):
    p = _num_parts(x)
    if p[1] is not None:
        raise TypeError("floor of complex")
    if not is_z3(p[0]):
        import math

        return math.floor(p[0])
    if z3.is_int(p[0]):
        return SymNum(p[0])
    return SymNum.wrap(z3.ToInt(p[0]))


def sym_min(a, b):
    return ite(v_le(a, b), a, b)


def sym_max(a, b):
    return ite(v_le(a, b), b, a)


def v_le(a, b):
    r = SymNum(_num_parts(a)[0]).__le__(b) if not isinstance(a, SymNum) else a <= b
    return r


def v_lt(a, b):
    r = SymNum(_num_parts(a)[0]).__lt__(b) if not isinstance(a, SymNum) else a < b
    return r


# --------------------------------------------------------------------------------------
# context
# --------------------------------------------------------------------------------------


class Obligation:
    __slots__ = ("name", "status", "backend", "ms", "path", "model", "detail", "tag")

    def __init__(self, name, status, backend, ms, path, model=None, detail="", tag="complete"):
        self.name = name
        self.status = status  # 'discharged' | 'refuted' | 'unknown'
        self.backend = backend
        self.ms = ms
        self.path = path
        self.model = model
        self.detail = detail
        self.tag = tag

    def as_dict(self):
        return {"name": self.name, "status": self.status, "backend": self.backend, "ms": round(self.ms, 1), "path": self.path, "tag": self.tag}


class Ctx:
    def __init__(self, session):
        self.session = session
        self.assumptions = []  # z3 bools (global for this path: preconditions, axioms, round facts)
        self.pathcond = []  # z3 bools from decisions
        self.prefix = []
        self.decisions = []  # list of (bool taken, forced?)
        self.counter = itertools.count()
        self.solver = z3.Solver()
        self.solver.set("timeout", Z3_TIMEOUT_MS)
        # light solver holding only the pure-integer hypotheses (shapes, indices): used for the
        # feasibility pruning of index-position case splits, where the real-valued facts are irrelevant
        self.int_solver = z3.Solver()
        self.int_solver.set("timeout", 2000)
        self._decide_cache = {}
        self.uf_apps = {}
        self.divisors = []
        self.abstracted = False
        self.prune_ite = False
        self.scoped = []
        self.rewrites = []  # (atom term, defining term): assumed equalities also used as rewrite rules
        self._truth_cache = {}

    # -- names -------------------------------------------------------------------------
    def fresh_name(self, base):
        return f"{base}!{next(self.counter)}"

    def fresh_int(self, base):
        return z3.Int(self.fresh_name(base))

    def fresh_real(self, base):
        return z3.Real(self.fresh_name(base))

    # -- assumptions -------------------------------------------------------------------
    def assume(self, z, why=""):
        if isinstance(z, SymBool):
            z = z.z
        if isinstance(z, bool):
            if not z:
                raise PathAbort("assumed False")
            return
        self.assumptions.append(z)
        self.solver.add(z)
        if _int_only(z):
            self.int_solver.add(z)
        self._decide_cache.clear()

    def assume_rewrite(self, lhs, rhs, why=""):
        """assume lhs == rhs (lhs an atom such as an uninterpreted application) and use it as a rewrite
        rule lhs -> rhs before the ring normal form is computed"""
        lz = lhs.re if isinstance(lhs, SymNum) else lhs
        rz = to_z3_real(rhs.re if isinstance(rhs, SymNum) else rhs)
        self.assume(lz == rz, why)
        self.rewrites.append((lz, rz))
        ls = _simp(lz)
        if ls.get_id() != lz.get_id():
            self.rewrites.append((ls, rz))  # goals are simplified before rewriting

    def note_division(self, den):
        self.divisors.append(den)

    def note_uf_app(self, name, args, term):
        apps = self.uf_apps.setdefault(name, {})
        key = tuple(a.get_id() for a in args)
        if key in apps:
            return
        apps[key] = (args, term)
        self.abstracted = True
        for ax in self.session.axioms.get(name, []):
            for fact in ax(args, term, apps):
                self.assume(fact, f"axiom:{name}")

    # -- decisions ---------------------------------------------------------------------
    def scope(self, *conds):
        """context manager: temporary hypotheses (case split).  Facts assumed inside stay global."""
        import contextlib

        @contextlib.contextmanager
        def cm():
            n = len(self.scoped)
            self.scoped.extend(zbool(x) for x in conds)
            try:
                yield
            finally:
                del self.scoped[n:]

        return cm()

    def _check(self, *extra):
        self.solver.push()
        for e in self.scoped:
            self.solver.add(e)
        for e in extra:
            self.solver.add(e)
        try:
            r = limited_check(self.solver, DECIDE_TIMEOUT_MS, restore_ms=Z3_TIMEOUT_MS)
        finally:
            self.solver.pop()
        return r

    def decide(self, z):
        z = _simp(z)
        if z3.is_true(z):
            return True
        if z3.is_false(z):
            return False
        key = z.get_id()
        if key in self._decide_cache:
            return self._decide_cache[key][1]
        can_true = self._check(z)
        can_false = self._check(z3.Not(z))
        if can_true == z3.unknown or can_false == z3.unknown:
            # cannot prune: treat both as feasible (sound: explores possibly infeasible path)
            can_true = z3.sat if can_true != z3.unsat else can_true
            can_false = z3.sat if can_false != z3.unsat else can_false
        if can_true == z3.unsat and can_false == z3.unsat:
            raise PathAbort("infeasible path")
        if can_false == z3.unsat:
            res = True
        elif can_true == z3.unsat:
            res = False
        else:
            k = len(self.decisions)
            if k < len(self.prefix):
                res = self.prefix[k]
            else:
                res = True
            self.decisions.append(res)
            c = z if res else z3.Not(z)
            if os.environ.get("VERIF_TRACE"):
                print(f"[trace] fork #{k}: {str(c)[:300]}", file=sys.stderr, flush=True)
            self.pathcond.append(c)
            self.solver.add(c)
            if _int_only(c):
                self.int_solver.add(c)
            self._decide_cache.clear()
        self._decide_cache[key] = (z, res)
        return res

    def truth(self, z):
        """True / False if z is decided by assumptions+path, else None (never forks)."""
        z = _simp(z)
        if z3.is_true(z):
            return True
        if z3.is_false(z):
            return False
        k = (z.get_id(), len(self.assumptions), len(self.pathcond), tuple(x.get_id() for x in self.scoped))
        hit = self._truth_cache.get(k)
        if hit is not None:
            return hit[1]
        if self._check(z3.Not(z)) == z3.unsat:
            r = True
        elif self._check(z) == z3.unsat:
            r = False
        else:
            r = None
        self._truth_cache[k] = (z, r)
        return r

    def implied(self, z):
        """True iff z follows from assumptions+path (no forking)."""
        if isinstance(z, bool):
            return z
        if isinstance(z, SymBool):
            z = z.z
        z = _simp(z)
        if z3.is_true(z):
            return True
        if z3.is_false(z):
            return False
        return self._check(z3.Not(z)) == z3.unsat

    def feasible_scoped(self):
        return self._check() != z3.unsat

    def feasible(self):
        return self.solver.check() != z3.unsat

    # -- obligations -------------------------------------------------------------------
    def prove(self, name, goal, tag=None, extra_hyps=()):
        """Emit the obligation  assumptions /\\ path /\\ extra_hyps => goal."""
        if isinstance(goal, SymBool):
            goal = goal.z
        t0 = time.time()
        path = "".join("T" if d else "F" for d in self.decisions)
        tag = tag or ("abstracted" if self.abstracted else "complete")
        if isinstance(goal, bool):
            if goal:
                ob = Obligation(name, "discharged", "syntactic", 0.0, path, tag=tag)
            else:
                # goal literally False: refuted iff the path is feasible
                r = self._check(*[zbool(h) for h in extra_hyps])
                if r == z3.unsat:
                    ob = Obligation(name, "discharged", "z3(vacuous-path)", 0.0, path, tag=tag)
                else:
                    m = self._model(extra_hyps)
                    ob = Obligation(name, "refuted", "syntactic", 0.0, path, model=m, tag=tag)
            self.session.record(ob)
            return ob.status == "discharged"
        g = _simp(goal)
        if z3.is_true(g):
            ob = Obligation(name, "discharged", "z3-simplify", (time.time() - t0) * 1e3, path, tag=tag)
            self.session.record(ob)
            return True
        hyps = list(self.scoped) + [zbool(h) for h in extra_hyps]
        status, backend, model, detail = self._discharge(g, hyps)
        ms = (time.time() - t0) * 1e3
        ob = Obligation(name, status, backend, ms, path, model=model, detail=detail, tag=tag)
        if os.environ.get("VERIF_TRACE"):
            st = getattr(self, "_stats", {})
            print(f"[trace] {name} path={path} {status} {backend} leaves={ITE_SPLIT_LEAVES - getattr(self, '_split_budget', ITE_SPLIT_LEAVES)} stats={st} {ms / 1e3:.1f}s", file=sys.stderr, flush=True)
            self._stats = {}
        self.session.record(ob)
        return status == "discharged"

    def _z3_check(self, hyps, negated_goal, timeout_ms):
        """one z3 query under a CPU-time budget of timeout_ms (limited_check)"""
        self.solver.push()
        for h in hyps:
            self.solver.add(h)
        self.solver.add(negated_goal)
        _t0 = time.time()
        _c0 = time.process_time()
        r = limited_check(self.solver, timeout_ms, restore_ms=Z3_TIMEOUT_MS)
        if os.environ.get("VERIF_TRACE"):
            st = self.__dict__.setdefault("_stats", {})
            fn = sys._getframe(1).f_code.co_name
            st[fn] = st.get(fn, 0) + 1
            st[fn + "_s"] = round(st.get(fn + "_s", 0) + time.process_time() - _c0, 2)
            if r == z3.unknown:
                st[fn + "_unknown"] = st.get(fn + "_unknown", 0) + 1
        if os.environ.get("VERIF_TRACE_Z3") and (r == z3.unknown or time.time() - _t0 > 1.0):
            print(f"[z3] {sys._getframe(1).f_code.co_name} limit={timeout_ms} {r} {time.time() - _t0:.2f}s slowdown={_SLOWDOWN[0]:.1f}", file=sys.stderr, flush=True)
        model = self.solver.model() if r == z3.sat else None
        smt2 = self.solver.to_smt2() if r == z3.unknown else None
        self.solver.pop()
        return r, model, smt2

    def _z3_check_long(self, hyps, negated_goal, timeout_ms):
        """Long z3 check with a HARD time limit: z3 can enter non-interruptible nonlinear routines, so
        the check runs in a forked child that is killed at the deadline.  The child reports only the
        verdict; a `sat` verdict is reproduced in-process (short, it just succeeded) to obtain the model."""
        import select

        self.solver.push()
        for h in hyps:
            self.solver.add(h)
        self.solver.add(negated_goal)
        smt2 = None
        verdict = "unknown"
        try:
            rfd, wfd = os.pipe()
            pid = os.fork()
            if pid == 0:  # child
                try:
                    os.close(rfd)
                    # budget = CPU time of the child (RLIMIT_CPU); z3's wall-clock limit is only the outer cap
                    _child_cpu_limit(timeout_ms / 1000.0)
                    self.solver.set("timeout", int(timeout_ms * WALL_CAP))
                    r = self.solver.check()
                    os.write(wfd, str(r).encode())
                finally:
                    os._exit(0)
            os.close(wfd)
            ready, _, _ = select.select([rfd], [], [], timeout_ms / 1000.0 * WALL_CAP + 5.0)
            if ready:
                verdict = os.read(rfd, 32).decode() or "unknown"
            else:
                try:
                    os.kill(pid, 9)
                except OSError:
                    pass
            os.close(rfd)
            try:
                os.waitpid(pid, 0)
            except OSError:
                pass
            if verdict not in ("sat", "unsat"):
                smt2 = self.solver.to_smt2()
        finally:
            self.solver.pop()
        if verdict == "unsat":
            return z3.unsat, None, None
        if verdict == "sat":
            r, model, _ = self._z3_check(hyps, negated_goal, timeout_ms)
            if r == z3.sat:
                return r, model, None
            return z3.unknown, None, smt2 or ""
        return z3.unknown, None, smt2

    def _discharge(self, g, hyps):
        """-> (status, backend, model, detail)"""
        from . import ringnf

        if self.rewrites:
            g = _simp(z3.substitute(g, *self.rewrites))
            if z3.is_true(g):
                return "discharged", "rewrite+simplify", None, ""

        ng = z3.Not(g)
        r, model, smt2 = self._z3_check(hyps, ng, Z3_FAST_MS)
        if r == z3.unsat:
            return "discharged", "z3", None, ""
        if r == z3.sat:
            return "refuted", "z3", model, ""
        # exact ring normal form for (conjunctions of) equalities
        eqs = ringnf.split_equalities(g)
        if eqs:
            ok = True
            divisors = {}
            for a, b in eqs:
                holds, divs = ringnf.identity(a, b)
                if not holds:
                    ok = False
                    break
                for d in divs:
                    divisors[d.get_id()] = d
                for x in getattr(ringnf.identity, "last_nonneg", []):
                    if not self._side_check(hyps, x < 0, Z3_TIMEOUT_MS):
                        ok = False
                        break
            if ok:
                side_ok = True
                for d in divisors.values():
                    if not self._side_check(hyps, d == 0, Z3_TIMEOUT_MS):
                        side_ok = False
                        break
                if side_ok:
                    return "discharged", "ring-normal-form" + ("+z3(divisors!=0)" if divisors else ""), None, ""
        # case split on if-then-else conditions (index position classes), ring normal form at the leaves
        if _has_ite(g):
            self._split_budget = ITE_SPLIT_LEAVES
            self._split_deadline = time.process_time() + ITE_SPLIT_SECONDS  # CPU time: verdicts must not flip under load
            st = self._split(g, hyps, 0)
            if st is not None:
                return st
        r, model, smt2 = self._z3_check_long(hyps, ng, Z3_TIMEOUT_MS)
        if r == z3.unsat:
            return "discharged", "z3", None, ""
        if r == z3.sat:
            return "refuted", "z3", model, ""
        r2 = run_cvc5(smt2)
        if r2 == "unsat":
            return "discharged", "cvc5", None, ""
        if r2 == "sat":
            return "refuted", "cvc5", None, "cvc5: sat (no model extracted)"
        return "unknown", "z3+ringnf+cvc5", None, "unknown/timeout"

    def _merge_equal_atoms(self, g, hyps):
        """Rewrite uninterpreted-function applications whose arguments are provably equal under the
        hypotheses to one representative (e.g. E(.., i+1-N, ..) and E(.., 0, ..) when i == N-1), so
        that the ring normal form sees them as the same atom."""
        apps = {}
        seen = set()
        stack = [g]
        while stack:
            t = stack.pop()
            k = t.get_id()
            if k in seen:
                continue
            seen.add(k)
            if z3.is_app(t):
                if t.decl().kind() == z3.Z3_OP_UNINTERPRETED and t.num_args() > 0:
                    apps.setdefault(t.decl().get_id(), []).append(t)
                stack.extend(t.children())
        subs = []
        for group in apps.values():
            if len(group) < 2:
                continue
            reps = []
            for t in group:
                merged = False
                for r in reps:
                    conj = []
                    differ = False
                    for x, y in zip(t.children(), r.children()):
                        if x.get_id() == y.get_id():
                            continue
                        if not z3.is_arith(x):
                            differ = True
                            break
                        d = _simp(x - y)
                        if z3.is_int_value(d) or z3.is_rational_value(d):
                            if not (z3.is_int_value(d) and d.as_long() == 0):
                                differ = True
                                break
                            continue
                        conj.append(x == y)
                    if differ:
                        continue
                    if conj:
                        # index arithmetic: decide it from the pure-integer hypotheses first (a subset of the
                        # hypotheses, so `unsat` carries over); the full context with its nonlinear real facts
                        # makes z3's run time for these trivial questions erratic (ms .. seconds)
                        ng = z3.Not(z3.And(*conj))
                        ri = self._int_check(hyps, ng) if _int_only(ng) else z3.unknown
                        if ri == z3.sat:
                            # every pure-integer hypothesis holds with the two index tuples distinct: not merged
                            # (the full context is not asked: in some processes z3 needs seconds for each of these
                            # hundreds of trivial queries, which used to exhaust the case-split budget)
                            continue
                        if ri != z3.unsat:
                            rr, _, _ = self._z3_check(hyps, ng, Z3_FAST_MS)
                            if rr != z3.unsat:
                                continue
                    subs.append((t, r))
                    merged = True
                    break
                if not merged:
                    reps.append(t)
        if not subs:
            return g
        return _simp(z3.substitute(g, *subs))

    def _side_check(self, hyps, negated_goal, timeout_ms):
        """-> True iff hyps & negated_goal is unsat.  Tried first from the hypotheses that mention a symbol of the
        goal (a subset of the hypotheses, so `unsat` carries over): with the unrelated nonlinear facts of the
        whole context present, z3's run time for these small side conditions (divisor != 0, atom == 0) is
        heavy-tailed (ms on most runs, minutes on some); the full context is the fallback."""
        syms = _symbols(negated_goal)
        rel = [h for h in list(self.assumptions) + list(self.pathcond) + list(hyps) if not z3.is_quantifier(h) and _symbols(h) & syms]
        if rel:
            sv = z3.Solver()
            for h in rel:
                sv.add(h)
            sv.add(negated_goal)
            if limited_check(sv, min(timeout_ms, 4 * Z3_FAST_MS)) == z3.unsat:
                return True
        rr, _, _ = self._z3_check(hyps, negated_goal, timeout_ms)
        return rr == z3.unsat

    def _int_check(self, hyps, negated_goal):
        """satisfiability of the pure-integer part of the hypotheses with negated_goal (int_solver)"""
        self.int_solver.push()
        try:
            for h in hyps:
                if _int_only(h):
                    self.int_solver.add(h)
            self.int_solver.add(negated_goal)
            return limited_check(self.int_solver, 2000)
        finally:
            self.int_solver.pop()

    def _ringnf_leaf(self, g, hyps):
        from . import ringnf

        if z3.is_or(g):
            # z3's simplifier cancels common factors: c*X == c*Y becomes Or(c == 0, X == Y);
            # proving any disjunct that is an arithmetic equality suffices
            for d in g.children():
                if z3.is_eq(d) and z3.is_arith(d.arg(0)) and not (z3.is_rational_value(d.arg(1)) or z3.is_int_value(d.arg(1))) and self._ringnf_leaf(d, hyps):
                    return True
            for d in g.children():
                if z3.is_eq(d) and z3.is_arith(d.arg(0)) and self._ringnf_leaf(d, hyps):
                    return True
            return False
        eqs = ringnf.split_equalities(g)
        if not eqs:
            return False
        if not all(ringnf.identity(a, b)[0] for a, b in eqs):
            g2 = self._merge_equal_atoms(g, hyps)
            if z3.is_true(g2):
                return True
            eqs = ringnf.split_equalities(g2)
            if not eqs:
                return False
            if not all(ringnf.identity(a, b)[0] for a, b in eqs):
                # atoms forced to zero by the hypotheses (wall conditions etc.)
                subs = []
                for a, b in eqs:
                    for t in ringnf.residual_atoms(a, b):
                        if z3.is_app(t) and t.decl().kind() == z3.Z3_OP_UNINTERPRETED and z3.is_arith(t):
                            if self._side_check(hyps, t != 0, Z3_FAST_MS):
                                subs.append((t, z3.RealVal(0) if z3.is_real(t) else z3.IntVal(0)))
                if subs:
                    g3 = _simp(z3.substitute(g2, *subs))
                    if z3.is_true(g3):
                        return True
                    eqs = ringnf.split_equalities(g3)
                    if not eqs:
                        return False
        divisors = {}
        for a, b in eqs:
            holds, divs = ringnf.identity(a, b)
            if not holds:
                if os.environ.get("VERIF_DEBUG_RINGNF"):
                    ringnf.debug_residual(a, b, hyps)
                return False
            for d in divs:
                divisors[d.get_id()] = d
            for x in getattr(ringnf.identity, "last_nonneg", []):
                if not self._side_check(hyps, x < 0, Z3_TIMEOUT_MS):
                    return False
        for d in divisors.values():
            if not self._side_check(hyps, d == 0, Z3_TIMEOUT_MS):
                return False
        return True

    def _split(self, g, hyps, depth):
        """-> (status, backend, model, detail) or None (give up: caller falls back to plain z3)"""
        if time.process_time() > self._split_deadline:
            return None
        g = _simp(g)
        if z3.is_true(g):
            return "discharged", "ite-split+simplify", None, ""
        conds = _ite_conditions(g, 1)
        if not conds:
            self._split_budget -= 1
            if self._split_budget < 0:
                return None
            if self._ringnf_leaf(g, hyps):
                return "discharged", "ite-split+ring-normal-form", None, ""
            r, model, _ = self._z3_check(hyps, z3.Not(g), min(Z3_TIMEOUT_MS, 15000))
            if r == z3.unsat:
                return "discharged", "ite-split+z3", None, ""
            if r == z3.sat:
                return "refuted", "ite-split+z3", model, ""
            if os.environ.get("VERIF_DEBUG_RINGNF"):
                print("SPLIT: leaf undecided at depth", depth, "goal size", len(str(g)), "kind", g.decl().name(), "head:", str(g)[:600].replace("\n", " "))
            return None
        if depth > ITE_SPLIT_DEPTH:
            return None
        c0 = conds[0]
        backend = "ite-split+simplify"
        for val, hc in ((True, c0), (False, z3.Not(c0))):
            if _int_only(hc):
                self.int_solver.push()
                for h in hyps:
                    if _int_only(h):
                        self.int_solver.add(h)
                self.int_solver.add(hc)
                _c0 = time.process_time()
                feas = limited_check(self.int_solver, 2000)
                if os.environ.get("VERIF_TRACE"):
                    st = self.__dict__.setdefault("_stats", {})
                    st["int"] = st.get("int", 0) + 1
                    st["int_s"] = round(st.get("int_s", 0) + time.process_time() - _c0, 2)
                    if feas == z3.unknown:
                        st["int_unknown"] = st.get("int_unknown", 0) + 1
                self.int_solver.pop()
                if feas == z3.unsat:
                    continue
            g2 = z3.substitute(g, (c0, z3.BoolVal(val)))
            st = self._split(g2, hyps + [hc], depth + 1)
            if st is None:
                return None
            if st[0] != "discharged":
                return st
            if len(st[1]) > len(backend):
                backend = st[1]
        return "discharged", backend, None, ""

    def _model(self, extra_hyps=()):
        self.solver.push()
        for h in extra_hyps:
            self.solver.add(zbool(h))
        r = self.solver.check()
        m = self.solver.model() if r == z3.sat else None
        self.solver.pop()
        return m

    def bounded(self, name, ok, case=None, witness=None):
        """record the outcome of a bounded stand-in (real code on a concrete case); never counted as proved"""
        self.session.bounded.append({"name": name, "ok": bool(ok), "case": case, "witness": witness})

    def cover(self, name):
        """Vacuity guard: the current point must be reachable (assumptions satisfiable)."""
        r = self.solver.check()
        self.session.record_cover(name, r != z3.unsat)


_SYMBOLS_CACHE = {}


def _symbols(e):
    """ids of the uninterpreted constants / function symbols occurring in e"""
    k = e.get_id()
    hit = _SYMBOLS_CACHE.get(k)
    if hit is not None:
        return hit[1]
    out = set()
    seen = set()
    stack = [e]
    while stack:
        t = stack.pop()
        i = t.get_id()
        if i in seen:
            continue
        seen.add(i)
        if z3.is_quantifier(t):
            stack.append(t.body())
        elif z3.is_app(t):
            if t.decl().kind() == z3.Z3_OP_UNINTERPRETED:
                out.add(t.decl().get_id())
            stack.extend(t.children())
    out = frozenset(out)
    _SYMBOLS_CACHE[k] = (e, out)
    return out


_INT_ONLY_CACHE = {}


def _int_only(e):
    """True iff the formula mentions no real-sorted term (pure shape/index arithmetic)"""
    k = e.get_id()
    hit = _INT_ONLY_CACHE.get(k)
    if hit is not None:
        return hit[1]
    ok = True
    seen = set()
    stack = [e]
    while stack:
        t = stack.pop()
        i = t.get_id()
        if i in seen:
            continue
        seen.add(i)
        if z3.is_real(t) or z3.is_quantifier(t):
            ok = False
            break
        stack.extend(t.children())
    _INT_ONLY_CACHE[k] = (e, ok)
    return ok


def _has_ite(e):
    return bool(_ite_conditions(e, 1))


def _ite_conditions(e, limit):
    """conditions of if-then-else subterms (outermost first), at most `limit`"""
    seen = set()
    out = []
    stack = [e]
    while stack and len(out) < limit:
        t = stack.pop()
        k = t.get_id()
        if k in seen:
            continue
        seen.add(k)
        if z3.is_app(t):
            if t.decl().kind() == z3.Z3_OP_ITE:
                out.append(t.arg(0))
                if len(out) >= limit:
                    break
            stack.extend(t.children())
    return out


def run_cvc5(smt2_text):
    exe = "/usr/bin/cvc5"
    if not os.path.exists(exe):
        return "unknown"
    with tempfile.NamedTemporaryFile("w", suffix=".smt2", delete=False) as f:
        f.write("(set-logic ALL)\n" + smt2_text)
        fn = f.name
    try:
        # budget = CPU time of the cvc5 process (RLIMIT_CPU); --tlimit (wall clock) is only the outer cap
        out = subprocess.run(
            [exe, "--lang=smt2", f"--tlimit={int(CVC5_TIMEOUT_MS * WALL_CAP)}", "--nl-ext-tplanes", fn],
            capture_output=True,
            text=True,
            timeout=CVC5_TIMEOUT_MS / 1000 * WALL_CAP + 10,
            preexec_fn=lambda: _child_cpu_limit(CVC5_TIMEOUT_MS / 1000.0),
        )
        first = (out.stdout.strip().splitlines() or ["unknown"])[0].strip()
        return first if first in ("sat", "unsat") else "unknown"
    except Exception:  # noqa: BLE001
        return "unknown"
    finally:
        os.unlink(fn)


def try_sympy_identity(hyps, goal):
    """Last resort for pure ring identities `lhs == rhs` (no hypotheses used): exact normal form."""
    try:
        from .ringnf import z3_identity_holds

        return z3_identity_holds(goal)
    except Exception:  # noqa: BLE001
        return False


_CTX = [None]


def ctx() -> Ctx:
    c = _CTX[0]
    if c is None:
        raise RuntimeError("no active verification session")
    return c


def have_ctx():
    return _CTX[0] is not None


class Session:
    """Explores all feasible paths of `body` and collects obligations."""

    def __init__(self, name, axioms=None, max_paths=MAX_PATHS):
        self.name = name
        self.axioms = axioms or {}
        self.obligations = []
        self.covers = []
        self.paths = 0
        self.aborted_paths = 0
        self.exceptions = []  # (path, exception) for paths that raised a non-engine exception
        self.max_paths = max_paths
        self.undecided = None
        self.side_conditions = []
        self.bounded = []

    def record(self, ob):
        self.obligations.append(ob)

    def record_cover(self, name, ok):
        self.covers.append((name, ok))

    def run(self, body, on_exception=None):
        """body(ctx) -> None.  on_exception(ctx, exc) is called for repository exceptions
        (ValueError etc. raised by the code under verification) if given, else they are
        re-raised."""
        prefix = []
        while True:
            c = Ctx(self)
            c.prefix = list(prefix)
            _CTX[0] = c
            try:
                try:
                    body(c)
                except PathAbort:
                    self.aborted_paths += 1
                except Unsupported:
                    raise
                except Exception as e:  # noqa: BLE001
                    if on_exception is None:
                        raise
                    on_exception(c, e)
            finally:
                _CTX[0] = None
            self.paths += 1
            if self.paths > self.max_paths:
                raise Undecided(f"path cap {self.max_paths} exceeded in session {self.name}")
            # DFS over the decision tree: a True entry still has an unexplored False sibling
            # (True is always tried first; flipping truncates everything deeper).
            dec = c.decisions
            k = len(dec) - 1
            while k >= 0 and dec[k] is not True:
                k -= 1
            if k < 0:
                break
            prefix = dec[:k] + [False]
        return self

    # -- summaries ---------------------------------------------------------------------
    def summary(self):
        n = len(self.obligations)
        d = sum(1 for o in self.obligations if o.status == "discharged")
        r = [o for o in self.obligations if o.status == "refuted"]
        u = [o for o in self.obligations if o.status == "unknown"]
        return {"obligations": n, "discharged": d, "refuted": r, "unknown": u, "paths": self.paths}
