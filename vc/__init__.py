"""Verification-condition engine for fdtdx (see /verif/DESIGN.md section 2)."""
import sys

REPO_SRC = "/repo/src"
if REPO_SRC not in sys.path:
    sys.path.insert(0, REPO_SRC)


def assert_repo_import():
    import fdtdx

    assert fdtdx.__file__.startswith(REPO_SRC), f"stale fdtdx imported from {fdtdx.__file__}"
    return fdtdx.__file__
