"""Verification-condition engine for fdtdx (see /verif/DESIGN.md section 2)."""
import os
import sys

# VERIF_REPO_SRC: development-only override (mutation experiments on a scratch copy of the source);
# the registered checks never set it and always verify /repo/src.
REPO_SRC = os.environ.get("VERIF_REPO_SRC", "/repo/src")
sys.path[:] = [p for p in sys.path if p != "/repo/src" or REPO_SRC == "/repo/src"]
if REPO_SRC not in sys.path:
    sys.path.insert(0, REPO_SRC)


def assert_repo_import():
    import fdtdx

    assert fdtdx.__file__.startswith(REPO_SRC), f"stale fdtdx imported from {fdtdx.__file__}"
    return fdtdx.__file__


def install_arena_cache():
    """optional speed-up (see native/arena_cache.c); silently skipped when the helper is missing"""
    import ctypes
    import os

    so = os.path.join(os.path.dirname(os.path.dirname(os.path.abspath(__file__))), ".venv", "arena_cache.so")
    if os.path.exists(so) and not os.environ.get("VERIF_NO_ARENA_CACHE"):
        try:
            lib = ctypes.CDLL(so, mode=ctypes.RTLD_GLOBAL)
            lib.install_arena_cache()
            return True
        except Exception:  # noqa: BLE001
            return False
    return False


install_arena_cache()
