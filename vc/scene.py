"""Builders for REAL fdtdx containers (SimulationConfig, ObjectContainer, ArrayContainer, boundary
objects) populated with symbolic extents and symbolic arrays.

The only stand-in class here is `SymGrid`, a `RectilinearGrid` whose edge arrays are symbolic
(an assumed contract for the grid accessors `cell_widths/edges/is_uniform/min_spacing`; the real
accessors are proved against their own spec under C37)."""

from __future__ import annotations

import z3

from . import array as A
from .array import SymArray
from .core import SymNum, ctx, to_z3_int, to_z3_real
from .obl import sym_int, sym_real

AXES = "xyz"


def _grid_classes():
    from fdtdx.core.grid import RectilinearGrid

    class SymGrid(RectilinearGrid):
        """RectilinearGrid stand-in with symbolic strictly increasing edges."""

        def __init__(self, shape, uniform=False, spacing=None):  # noqa: D107  (bypasses autoinit)
            c = ctx()
            d = self.__dict__
            d["_shape"] = tuple(shape)
            d["_uniform"] = uniform
            widths = []
            edges = []
            smin = sym_real("smin", lo_strict=0)
            d["_smin"] = smin
            for ax, n in enumerate(shape):
                if uniform:
                    s = spacing
                    w = A.full((n,), s, "real")
                    e0 = sym_real(f"e0{AXES[ax]}")
                    e = SymArray((n + 1,), (lambda idx, e0=e0, s=s: e0 + A._wrap_idx(idx[0]) * s), "real")
                else:
                    w = A.fresh_array(f"w{AXES[ax]}", (n,), fact=lambda v, idx, smin=smin: v >= smin)
                    ef = z3.Function(c.fresh_name(f"edge{AXES[ax]}"), z3.IntSort(), z3.RealSort())

                    def efn(idx, ef=ef, w=w):
                        i = to_z3_int(idx[0])
                        cc = ctx()
                        # e(i+1) - e(i) = w(i) and e(i) - e(i-1) = w(i-1), instantiated at i
                        wi = w.at_index((i,))
                        wm = w.at_index((z3.simplify(i - 1),))
                        cc.assume(ef(i + 1) - ef(i) == to_z3_real(wi.re))
                        cc.assume(ef(i) - ef(i - 1) == to_z3_real(wm.re))
                        return SymNum(ef(i))

                    e = SymArray((n + 1,), efn, "real")
                widths.append(w)
                edges.append(e)
            d["_w"] = widths
            d["_e"] = edges
            d["_spacing"] = spacing

        @property
        def shape(self):
            return self.__dict__["_shape"]

        @property
        def is_uniform(self):
            return self.__dict__["_uniform"]

        @property
        def min_spacing(self):
            return self.__dict__["_spacing"] if self.__dict__["_uniform"] else self.__dict__["_smin"]

        @property
        def uniform_spacing(self):
            if not self.__dict__["_uniform"]:
                raise ValueError("non-uniform grid has no uniform spacing")
            return self.__dict__["_spacing"]

        def cell_widths(self, axis):
            return self.__dict__["_w"][axis]

        def edges(self, axis):
            return self.__dict__["_e"][axis]

        def cfl_time_step(self, courant_factor):
            return self.__dict__["_dt"]

    return SymGrid


_SYMGRID = [None]


def SymGridClass():
    if _SYMGRID[0] is None:
        _SYMGRID[0] = _grid_classes()
    return _SYMGRID[0]


def make_config(courant=None, nonuniform_shape=None, symmetry=(0, 0, 0), gradient_config=None, spacing=None, time=None):
    """Real SimulationConfig.  courant: symbolic Courant *number* in (0,1) by default.
    nonuniform_shape: (Nx,Ny,Nz) -> attaches a SymGrid with symbolic widths."""
    from fdtdx.config import SimulationConfig
    from fdtdx.core.grid import UniformGrid

    cfg = SimulationConfig(time=1e-15 if time is None else time, grid=UniformGrid(spacing=1.0), backend="cpu", symmetry=tuple(symmetry), gradient_config=gradient_config)
    d = cfg.__dict__
    if courant is None:
        courant = sym_real("courant", lo_strict=0, hi_strict=1)
    d["_sym_courant"] = courant
    if nonuniform_shape is not None:
        g = SymGridClass()(nonuniform_shape, uniform=False)
        g.__dict__["_dt"] = sym_real("dt", lo_strict=0)
        d["grid"] = g
    else:
        sp = spacing if spacing is not None else sym_real("spacing", lo_strict=0)
        g = UniformGrid.__new__(UniformGrid)
        g.__dict__["spacing"] = sp
        g.__dict__["center"] = (0, 0, 0)
        d["grid"] = g
    return _with_courant(cfg, courant)


def _with_courant(cfg, courant):
    """SimulationConfig.courant_number is `courant_factor / sqrt(3)`; we make the *factor*
    symbolic so that the real property is evaluated:  factor = courant * sqrt(3)."""
    import math

    cfg.__dict__["courant_factor"] = courant * math.sqrt(3)
    return cfg


class Volume:
    """minimal stand-in for objects.volume (only .grid_shape is read by the update code)"""

    def __init__(self, shape):
        self.grid_shape = tuple(shape)
        self.name = "volume"


def real_volume(shape, config):
    from fdtdx.objects.static_material.static import SimulationVolume

    v = SimulationVolume(partial_grid_shape=(None, None, None))
    v = _place(v, tuple((0, n) for n in shape), config)
    return v


def _place(obj, slice_tuple, config):
    obj = obj.aset("_grid_slice_tuple", tuple(tuple(p) for p in slice_tuple))
    obj = obj.aset("_config", config, create_new_ok=True)
    return obj


def face_slice(shape, axis, direction, thickness=1):
    sl = [(0, n) for n in shape]
    n = shape[axis]
    sl[axis] = (0, thickness) if direction == "-" else (n - thickness, n)
    return tuple(sl)


def make_boundary(kind, axis, direction, shape, config, bloch_k=None, thickness=None):
    """kind in {'pec','pmc','periodic','bloch','pml'} -> a REAL boundary object placed on its face."""
    from fdtdx.objects.boundaries.bloch import BlochBoundary
    from fdtdx.objects.boundaries.pec import PerfectElectricConductor
    from fdtdx.objects.boundaries.pmc import PerfectMagneticConductor

    name = f"{kind}_{'min' if direction == '-' else 'max'}_{AXES[axis]}"
    if kind == "pec":
        b = PerfectElectricConductor(axis=axis, direction=direction, name=name)
    elif kind == "pmc":
        b = PerfectMagneticConductor(axis=axis, direction=direction, name=name)
    elif kind == "periodic":
        b = BlochBoundary(axis=axis, direction=direction, name=name)
    elif kind == "bloch":
        kv = [0.0, 0.0, 0.0]
        kv[axis] = bloch_k if bloch_k is not None else sym_real(f"k{AXES[axis]}")
        b = BlochBoundary(axis=axis, direction=direction, name=name, bloch_vector=tuple(kv))
    elif kind == "pml":
        from fdtdx.objects.boundaries.perfectly_matched_layer import PerfectlyMatchedLayer

        b = PerfectlyMatchedLayer(axis=axis, direction=direction, name=name)
    else:
        raise ValueError(kind)
    t = 1 if thickness is None else thickness
    return _place(b, face_slice(shape, axis, direction, t), config)


def make_objects(shape, config, boundaries=(), others=(), real_vol=False):
    from fdtdx.fdtd.container import ObjectContainer

    vol = real_volume(shape, config) if real_vol else None
    if vol is None:
        vol = real_volume(shape, config)
    objs = [vol, *boundaries, *others]
    return ObjectContainer(object_list=objs, volume_idx=0)


def make_arrays(shape, eps_tier=3, mu_tier=3, sigE_tier=None, sigH_tier=None, complex_fields=False, positive_materials=True, psi=None, detector_states=None, recording_state=None, names=("E", "H"), E_fact=None, H_fact=None, sigE_fact=None, sigH_fact=None):
    """Real ArrayContainer/FieldState with fresh symbolic arrays.
    tiers: 1|3|9 components, mu_tier may be 'scalar' (python float 1.0) and sig tiers None."""
    from fdtdx.fdtd.container import ArrayContainer, FieldState

    c = ctx()
    kind = "complex" if complex_fields else "real"
    E = A.fresh_array(names[0], (3, *shape), kind, fact=E_fact)
    H = A.fresh_array(names[1], (3, *shape), kind, fact=H_fact)

    def mat(name, tier, fact):
        if tier is None:
            return None
        if tier == "scalar":
            return 1.0
        if tier == 9:
            fact = None
        return A.fresh_array(name, (tier, *shape), fact=fact)

    pos = (lambda v, idx: v > 0) if positive_materials else None
    nonneg = (lambda v, idx: v >= 0) if positive_materials else None
    inv_eps = mat("inv_eps", eps_tier, pos)
    inv_mu = mat("inv_mu", mu_tier, pos)
    def both(f, g):
        if g is None:
            return f
        if f is None:
            return g
        return lambda v, idx: A._vand(f(v, idx), g(v, idx))

    sigE = mat("sigma_E", sigE_tier, both(nonneg, (lambda v, idx: sigE_fact(v, idx, inv_eps)) if sigE_fact else None))
    sigH = mat("sigma_H", sigH_tier, both(nonneg, (lambda v, idx: sigH_fact(v, idx, inv_mu)) if sigH_fact else None))
    fields = FieldState(E=E, H=H, psi_E=psi[0] if psi else {}, psi_H=psi[1] if psi else {})
    return ArrayContainer(
        fields=fields,
        inv_permittivities=inv_eps,
        inv_permeabilities=inv_mu,
        detector_states=detector_states if detector_states is not None else {},
        recording_state=recording_state,
        electric_conductivity=sigE,
        magnetic_conductivity=sigH,
    )


def sym_shape(lo=1, names=("Nx", "Ny", "Nz")):
    return tuple(sym_int(n, lo=lo) for n in names)
