"""Symbolic `jax.scipy.signal.convolve / convolve2d` (direct method, zero fill) and a lazy `jax.vmap`
over a symbolic axis.  Hooked into the `jax` shim by vc/shims.py (make_jax / _vmap).

convolve semantics (jax/_src/scipy/signal.py::_convolve_nd, = scipy.signal.convolve):
    full[m]  = sum_t  k[t] * a[m - t]            (a is zero outside its domain)
    same[i]  = full[i + (K - 1) // 2]             (output has the shape of the FIRST operand)
    valid[i] = full[i + K - 1]
JAX swaps the operands when the first one is smaller than the second in every dimension and raises
when neither contains the other; only the no-swap case (first operand >= kernel in every dimension) is
modelled, everything else raises Unsupported.
"""

from __future__ import annotations

import itertools

from . import array as A
from .array import SymArray, asarray
from .core import SymBool, SymNum, Unsupported, _is_pyint, ctx, ite


def convolve_nd(in1, in2, mode="full", method="auto", precision=None, **kw):
    if kw:
        raise Unsupported(f"convolve options {sorted(kw)}")
    if mode not in ("full", "same", "valid"):
        raise ValueError("mode must be one of ['full', 'same', 'valid']")
    if method not in ("auto", "direct"):
        raise Unsupported(f"convolve method {method}")
    a, k = asarray(in1), asarray(in2)
    if a.ndim != k.ndim:
        raise ValueError("in1 and in2 must have the same number of dimensions")
    if not k.is_concrete_shape():
        raise Unsupported("convolution kernel with symbolic shape")
    ks = k.shape
    if any(s == 0 for s in ks):
        raise ValueError("zero-size arrays not supported in convolutions")
    for s1, s2 in zip(a.shape, ks):
        if _is_pyint(s1):
            if s1 < s2:
                raise Unsupported(f"convolve: first operand {a.shape} smaller than the kernel {ks} (JAX swaps the operands or raises)")
        elif not ctx().implied(s1 >= s2):
            raise Unsupported(f"convolve: cannot show that the first operand {a.shape} is at least as large as the kernel {ks}")
    if mode == "full":
        off = [0] * a.ndim
        shape = tuple(s1 + s2 - 1 for s1, s2 in zip(a.shape, ks))
    elif mode == "same":
        off = [(s2 - 1) // 2 for s2 in ks]
        shape = a.shape
    else:
        off = [s2 - 1 for s2 in ks]
        shape = tuple(s1 - s2 + 1 for s1, s2 in zip(a.shape, ks))
    taps = []
    for t in itertools.product(*[range(s) for s in ks]):
        kv = k.at_index(t)
        kv = A._bool_to_num(kv)
        if not A.is_sym(kv) and kv == 0:
            continue
        taps.append((t, kv))
    ash = a.shape
    nd = a.ndim

    def fn(idx):
        acc = 0
        for t, kv in taps:
            src = []
            cond = True
            skip = False
            for ax in range(nd):
                d = off[ax] - t[ax]
                i = idx[ax]
                n = ash[ax]
                if _is_pyint(i):
                    j = i + d
                    if j < 0:
                        skip = True
                        break
                    if _is_pyint(n):
                        if j >= n:
                            skip = True
                            break
                    else:
                        cond = A._vand(cond, j < n)
                    src.append(j)
                else:
                    jw = A._wrap_idx(i) + d
                    cond = A._vand(cond, A._vand(jw >= 0, jw < n))
                    src.append(A._raw_index(jw))
            if skip:
                continue
            if cond is False:
                continue
            v = A._bool_to_num(a.at_index(tuple(src)))
            term = A._vmul(kv, v) if not (not A.is_sym(kv) and kv == 1) else v
            if cond is not True:
                term = ite(cond, term, 0)
            acc = acc + term
        return acc

    kind = "complex" if "complex" in (a.kind, k.kind) else "real"
    return SymArray(shape, fn, kind)


def convolve2d(in1, in2, mode="full", boundary="fill", fillvalue=0, precision=None):
    if boundary != "fill" or fillvalue != 0:
        raise NotImplementedError("convolve2d() only supports boundary='fill', fillvalue=0")
    if asarray(in1).ndim != 2 or asarray(in2).ndim != 2:
        raise ValueError("convolve2d() only supports 2-dimensional inputs.")
    return convolve_nd(in1, in2, mode)


def lazy_vmap_call(f, args, axes, out_axes, n):
    """vmap(f, in_axes=axes, out_axes=out_axes)(*args) over an axis of symbolic extent `n`: the result
    element at batch position i is computed on demand as f(slices at i)[rest]."""
    arrs = [asarray(a) if ax is not None else a for a, ax in zip(args, axes)]

    def slice_at(a, ax, i):
        ax = ax % a.ndim
        src = a
        return SymArray(a.shape[:ax] + a.shape[ax + 1 :], lambda idx: src.at_index(idx[:ax] + (i,) + idx[ax:]), a.kind)

    def call_at(i):
        return f(*[slice_at(a, ax, i) if ax is not None else a for a, ax in zip(arrs, axes)])

    probe = call_at(0)
    if isinstance(probe, (tuple, list, dict)) or not isinstance(probe, SymArray):
        raise Unsupported("vmap over a symbolic axis with a non-array output")
    if not _is_pyint(out_axes):
        raise Unsupported("vmap over a symbolic axis with structured out_axes")
    oa = out_axes % (probe.ndim + 1)
    shape = probe.shape[:oa] + (n,) + probe.shape[oa:]
    cache = {}

    def fn(idx):
        i = idx[oa]
        key = A.idx_key((i,))
        hit = cache.get(key)
        if hit is None:
            hit = (i, call_at(i))
            cache[key] = hit
        return hit[1].at_index(idx[:oa] + idx[oa + 1 :])

    return SymArray(shape, fn, probe.kind)
