"""Exact ring normal form for equalities between rational expressions.

A goal `lhs == rhs` over the reals is decided by abstracting every maximal non-arithmetic subterm
(uninterpreted-function application, if-then-else, integer division ...) to an opaque atom and
expanding  lhs - rhs = N / D  over Q[atoms].  If N is the zero polynomial the equality holds
whenever every divisor that was cancelled is non-zero; those side conditions are returned and must
be discharged separately by the SMT solver under the obligation's hypotheses.

Abstraction only generalises (atoms are unconstrained), so `N == 0` is sufficient, never necessary:
a failure here means "undecided by this back end", not "refuted".
"""

from __future__ import annotations

from fractions import Fraction

import z3

MAX_TERMS = 200000


class TooBig(Exception):
    pass


class Poly:
    """sparse multivariate polynomial over Q: {monomial: coeff}, monomial = tuple of (atom, exp)"""

    __slots__ = ("t",)

    def __init__(self, t=None):
        self.t = t or {}

    @staticmethod
    def const(c):
        c = Fraction(c)
        return Poly({(): c} if c != 0 else {})

    @staticmethod
    def atom(a):
        return Poly({((a, 1),): Fraction(1)})

    def is_zero(self):
        return not self.t

    def __add__(self, o):
        r = dict(self.t)
        for m, c in o.t.items():
            v = r.get(m, 0) + c
            if v == 0:
                r.pop(m, None)
            else:
                r[m] = v
        return Poly(r)

    def __neg__(self):
        return Poly({m: -c for m, c in self.t.items()})

    def __sub__(self, o):
        return self + (-o)

    def __mul__(self, o):
        if len(self.t) * len(o.t) > MAX_TERMS:
            raise TooBig()
        r = {}
        for m1, c1 in self.t.items():
            for m2, c2 in o.t.items():
                m = _mono_mul(m1, m2)
                v = r.get(m, 0) + c1 * c2
                if v == 0:
                    r.pop(m, None)
                else:
                    r[m] = v
        return Poly(r)

    def is_const(self):
        return all(m == () for m in self.t)

    def const_value(self):
        return self.t.get((), Fraction(0))


def _mono_mul(a, b):
    if not a:
        return b
    if not b:
        return a
    d = dict(a)
    for v, e in b:
        d[v] = d.get(v, 0) + e
    return tuple(sorted(d.items()))


class Converter:
    def __init__(self):
        self.atoms = {}  # ast id -> index
        self.atom_terms = []
        self.divisors = {}  # ast id -> z3 term
        self.cache = {}

    def atom(self, e):
        k = e.get_id()
        if k not in self.atoms:
            self.atoms[k] = len(self.atom_terms)
            self.atom_terms.append(e)
        return Poly.atom(self.atoms[k]), Poly.const(1)

    def conv(self, e):
        """z3 arithmetic term -> (numerator Poly, denominator Poly)"""
        k = e.get_id()
        hit = self.cache.get(k)
        if hit is not None:
            return hit
        r = self._conv(e)
        self.cache[k] = r
        return r

    def _conv(self, e):
        if z3.is_int_value(e):
            return Poly.const(e.as_long()), Poly.const(1)
        if z3.is_rational_value(e):
            return Poly.const(Fraction(e.numerator_as_long(), e.denominator_as_long())), Poly.const(1)
        if not z3.is_app(e):
            return self.atom(e)
        kind = e.decl().kind()
        ch = e.children()
        if kind == z3.Z3_OP_ADD:
            n, d = self.conv(ch[0])
            for c in ch[1:]:
                n2, d2 = self.conv(c)
                n, d = self._add(n, d, n2, d2)
            return n, d
        if kind == z3.Z3_OP_SUB:
            n, d = self.conv(ch[0])
            for c in ch[1:]:
                n2, d2 = self.conv(c)
                n, d = self._add(n, d, -n2, d2)
            return n, d
        if kind == z3.Z3_OP_UMINUS:
            n, d = self.conv(ch[0])
            return -n, d
        if kind == z3.Z3_OP_MUL:
            n, d = self.conv(ch[0])
            for c in ch[1:]:
                n2, d2 = self.conv(c)
                n, d = n * n2, self._dmul(d, d2)
            return n, d
        if kind == z3.Z3_OP_DIV:
            n, d = self.conv(ch[0])
            n2, d2 = self.conv(ch[1])
            if n2.is_const():
                cv = n2.const_value()
                if cv == 0:
                    return self.atom(e)
                return n * Poly.const(1 / cv) * d2, d
            self.divisors[ch[1].get_id()] = ch[1]
            # (n/d) / (n2/d2) = n*d2 / (d*n2)
            return n * d2, self._dmul(d, n2)
        if kind == z3.Z3_OP_TO_REAL:
            return self.conv(ch[0])
        if kind == z3.Z3_OP_POWER:
            if z3.is_int_value(ch[1]) or (z3.is_rational_value(ch[1]) and ch[1].denominator_as_long() == 1):
                p = ch[1].as_long() if z3.is_int_value(ch[1]) else ch[1].numerator_as_long()
                if 0 <= p <= 8:
                    n, d = self.conv(ch[0])
                    rn, rd = Poly.const(1), Poly.const(1)
                    for _ in range(p):
                        rn, rd = rn * n, self._dmul(rd, d)
                    return rn, rd
            return self.atom(e)
        return self.atom(e)

    @staticmethod
    def _dmul(d1, d2):
        if d1.is_const() and d1.const_value() == 1:
            return d2
        if d2.is_const() and d2.const_value() == 1:
            return d1
        return d1 * d2

    def _add(self, n1, d1, n2, d2):
        if d1.t == d2.t:
            return n1 + n2, d1
        return n1 * d2 + n2 * d1, self._dmul(d1, d2)


def _reduce_sqrt(cv, num, nonneg):
    """rewrite sqrt(x)^2 -> x in the numerator polynomial (records x >= 0 as a side condition)"""
    for _ in range(8):
        sq = {i: t for i, t in enumerate(cv.atom_terms) if z3.is_app(t) and t.decl().name() == "sqrt" and t.num_args() == 1}
        if not sq:
            return num
        changed = False
        out = Poly()
        for m, c in num.t.items():
            hit = next(((v, e) for v, e in m if v in sq and e >= 2), None)
            if hit is None:
                out = out + Poly({m: c})
                continue
            v, e = hit
            arg = sq[v].arg(0)
            nonneg[arg.get_id()] = arg
            an, ad = cv.conv(arg)
            if not (ad.is_const() and ad.const_value() == 1):
                return num  # rational radicand: leave to the SMT solver
            rest = tuple((vv, ee) if vv != v else (vv, ee - 2) for vv, ee in m)
            rest = tuple((vv, ee) for vv, ee in rest if ee > 0)
            out = out + Poly({rest: c}) * an
            changed = True
        num = out
        if not changed:
            break
    return num


def _reduce_trig(cv, num):
    """rewrite sin(x)^2 -> 1 - cos(x)^2 (Pythagorean identity of the uninterpreted sin/cos pair)"""
    from .core import uf

    for _ in range(8):
        sn = {i: t for i, t in enumerate(cv.atom_terms) if z3.is_app(t) and t.decl().name() == "sin" and t.num_args() == 1}
        if not sn:
            return num
        changed = False
        out = Poly()
        for m, c in num.t.items():
            hit = next(((v, e) for v, e in m if v in sn and e >= 2), None)
            if hit is None:
                out = out + Poly({m: c})
                continue
            v, e = hit
            cos_t = uf("cos", 1)(sn[v].arg(0))
            cn, _ = cv.conv(cos_t)
            rest = tuple((vv, ee) if vv != v else (vv, ee - 2) for vv, ee in m)
            rest = tuple((vv, ee) for vv, ee in rest if ee > 0)
            out = out + Poly({rest: c}) * (Poly.const(1) - cn * cn)
            changed = True
        num = out
        if not changed:
            break
    return num


def identity(lhs, rhs):
    """-> (holds: bool, side conditions: list of z3 terms d with obligation d != 0, or (x, '>=0'))"""
    cv = Converter()
    nonneg = {}
    try:
        n1, d1 = cv.conv(lhs)
        n2, d2 = cv.conv(rhs)
        num = n1 * d2 - n2 * d1
        if not num.is_zero():
            num = _reduce_sqrt(cv, num, nonneg)
        if not num.is_zero():
            num = _reduce_trig(cv, num)
    except TooBig:
        return False, []
    cv.nonneg = nonneg
    side = list(cv.divisors.values())
    identity.last_nonneg = list(nonneg.values())
    return num.is_zero(), side


def split_equalities(goal):
    """goal -> list of (lhs, rhs) if goal is an equality or a conjunction of equalities, else None"""
    if z3.is_eq(goal):
        a, b = goal.children()
        if z3.is_arith(a):
            return [(a, b)]
        return None
    if z3.is_and(goal):
        out = []
        for c in goal.children():
            r = split_equalities(c)
            if r is None:
                return None
            out.extend(r)
        return out
    return None


def z3_identity_holds(goal):
    eqs = split_equalities(goal)
    if not eqs:
        return False
    for a, b in eqs:
        ok, divs = identity(a, b)
        if not ok or divs:
            return False
    return True


def debug_residual(lhs, rhs, hyps=()):
    cv = Converter()
    try:
        n1, d1 = cv.conv(lhs)
        n2, d2 = cv.conv(rhs)
        num = n1 * d2 - n2 * d1
    except TooBig:
        print("RINGNF: too big")
        return
    print(f"RINGNF residual: {len(num.t)} monomials over {len(cv.atom_terms)} atoms")
    for i, t in enumerate(cv.atom_terms):
        print(f"   atom {i}: {str(t)[:150]}")
    for m, cf in list(num.t.items())[:8]:
        print("   ", cf, m)
    print("   hyps:", [str(h)[:100] for h in list(hyps)[-12:]])


def residual_atoms(lhs, rhs):
    """atoms occurring in the non-zero residual numerator of lhs - rhs"""
    cv = Converter()
    try:
        n1, d1 = cv.conv(lhs)
        n2, d2 = cv.conv(rhs)
        num = n1 * d2 - n2 * d1
    except TooBig:
        return []
    used = set()
    for m in num.t:
        for v, _ in m:
            used.add(v)
    return [cv.atom_terms[v] for v in sorted(used)]
