"""Obligation helpers on top of vc.core / vc.array."""

from __future__ import annotations

import itertools

import z3

from . import array as A
from .array import SymArray, asarray
from .core import SymBool, SymNum, _is_pyint, ctx, to_z3_int, v_eq, zbool

ENUM_CAP = 64


def index_cases(shape, tag="i", enum_cap=ENUM_CAP):
    """Yield (label, idx, hyps): concrete (structural) axes are enumerated, symbolic axes get one
    fresh in-range integer each (a universally quantified generic index after negation)."""
    c = ctx()
    conc = [k for k, d in enumerate(shape) if _is_pyint(d)]
    n_conc = 1
    for k in conc:
        n_conc *= shape[k]
    if n_conc > enum_cap:
        # too many: treat large concrete axes generically as well
        conc = [k for k in conc if shape[k] <= 9]
        n_conc = 1
        for k in conc:
            n_conc *= shape[k]
        while n_conc > enum_cap and conc:
            k = conc.pop()
            n_conc //= shape[k]
    sym_axes = [k for k in range(len(shape)) if k not in conc]
    gen = {}
    hyps = []
    for k in sym_axes:
        v = c.fresh_int(f"{tag}{k}")
        gen[k] = v
        d = shape[k]
        hyps.append(v >= 0)
        hyps.append(v < (to_z3_int(d.re) if isinstance(d, SymNum) else d))
    for combo in itertools.product(*[range(shape[k]) for k in conc]):
        idx = [None] * len(shape)
        for k, v in zip(conc, combo):
            idx[k] = v
        for k in sym_axes:
            idx[k] = gen[k]
        label = ",".join(str(idx[k]) if k in conc else ":" for k in range(len(shape)))
        yield label, tuple(idx), hyps


def prove_same_shape(name, X, Y):
    c = ctx()
    ok = True
    if X.ndim != Y.ndim:
        c.prove(f"{name}/rank", False)
        return False
    for k, (p, q) in enumerate(zip(X.shape, Y.shape)):
        if A._dim_same_syntactic(p, q):
            continue
        ok &= c.prove(f"{name}/shape[{k}]", v_eq(p, q))
    return ok


def prove_arrays_equal(name, X, Y, where=None, enum_cap=ENUM_CAP):
    """forall idx in range: X[idx] == Y[idx]   (and equal shapes).
    `where(idx) -> condition` restricts the index set."""
    c = ctx()
    X, Y = asarray(X), asarray(Y)
    if not prove_same_shape(name, X, Y):
        return False
    ok = True
    for label, idx, hyps in index_cases(X.shape, enum_cap=enum_cap):
        hy = list(hyps)
        if where is not None:
            w = where(tuple(A._wrap_idx(i) for i in idx))
            if w is False:
                continue
            if w is not True:
                hy.append(zbool(w))
        g = v_eq(X.at_index(idx), Y.at_index(idx))
        ok &= c.prove(f"{name}[{label}]", g, extra_hyps=hy)
    return ok


def prove_pointwise(name, X, pred, where=None, enum_cap=ENUM_CAP):
    """forall idx: pred(value, idx)"""
    c = ctx()
    X = asarray(X)
    ok = True
    for label, idx, hyps in index_cases(X.shape, enum_cap=enum_cap):
        widx = tuple(A._wrap_idx(i) for i in idx)
        hy = list(hyps)
        if where is not None:
            w = where(widx)
            if w is False:
                continue
            if w is not True:
                hy.append(zbool(w))
        ok &= c.prove(f"{name}[{label}]", pred(X.at_index(idx), widx), extra_hyps=hy)
    return ok


def assume_pointwise(X, pred, points):
    """Instantiate a universally quantified hypothesis `forall idx. pred(X[idx], idx)` at the
    given index points (explicit instantiation; the solver never sees an open quantifier)."""
    c = ctx()
    for idx in points:
        c.assume(zbool(pred(X.at_index(tuple(A._raw_index(i) for i in idx)), idx)))


def forall_assume(arr_funcs, body, arity):
    """Assume `forall i1..ik. body(i1..ik)` as a real quantified axiom (used sparingly, for
    positivity of materials etc.; patterns are the function applications)."""
    c = ctx()
    vs = [z3.Int(c.fresh_name("q")) for _ in range(arity)]
    b = body(*[SymNum(v) for v in vs])
    c.assume(z3.ForAll(vs, zbool(b)))


def sym_int(name, lo=None, hi=None):
    c = ctx()
    v = z3.Int(c.fresh_name(name))
    if lo is not None:
        c.assume(v >= (to_z3_int(lo.re) if isinstance(lo, SymNum) else lo))
    if hi is not None:
        c.assume(v <= (to_z3_int(hi.re) if isinstance(hi, SymNum) else hi))
    return SymNum(v)


def sym_real(name, lo=None, hi=None, lo_strict=None, hi_strict=None):
    from .core import to_z3_real

    c = ctx()
    v = z3.Real(c.fresh_name(name))
    if lo is not None:
        c.assume(v >= to_z3_real(lo if not isinstance(lo, SymNum) else lo.re))
    if hi is not None:
        c.assume(v <= to_z3_real(hi if not isinstance(hi, SymNum) else hi.re))
    if lo_strict is not None:
        c.assume(v > to_z3_real(lo_strict if not isinstance(lo_strict, SymNum) else lo_strict.re))
    if hi_strict is not None:
        c.assume(v < to_z3_real(hi_strict if not isinstance(hi_strict, SymNum) else hi_strict.re))
    return SymNum(v)


def sym_bool(name):
    c = ctx()
    return SymBool(z3.Bool(c.fresh_name(name)))
