/* Caching arena allocator for CPython.

   CPython >= 3.11 allocates the interpreter's frame data stack in 16 KiB chunks through the
   object arena allocator and frees a chunk as soon as it becomes empty.  Deep recursive
   evaluation whose depth oscillates around a chunk boundary (exactly what the symbolic
   index->term closures do) turns into millions of mmap/munmap pairs.  This allocator keeps a
   small free-list of recently released blocks per size class so those calls never reach the
   kernel.  Semantics are unchanged (blocks are anonymous private mappings in both cases).  */
#define _GNU_SOURCE
#include <stddef.h>
#include <sys/mman.h>

typedef struct {
    void *ctx;
    void *(*alloc)(void *ctx, size_t size);
    void (*free)(void *ctx, void *ptr, size_t size);
} PyObjectArenaAllocator;

extern void PyObject_SetArenaAllocator(PyObjectArenaAllocator *allocator);

#define NCLASS 4
#define NCACHE 64
static const size_t klass[NCLASS] = {16384, 32768, 65536, 1048576};
static void *cache[NCLASS][NCACHE];
static int ncached[NCLASS];

static int class_of(size_t size) {
    for (int i = 0; i < NCLASS; i++) if (klass[i] == size) return i;
    return -1;
}

static void *arena_alloc(void *ctx, size_t size) {
    int k = class_of(size);
    if (k >= 0 && ncached[k] > 0) return cache[k][--ncached[k]];
    void *p = mmap(NULL, size, PROT_READ | PROT_WRITE, MAP_PRIVATE | MAP_ANONYMOUS, -1, 0);
    return p == MAP_FAILED ? NULL : p;
}

static void arena_free(void *ctx, void *ptr, size_t size) {
    int k = class_of(size);
    if (k >= 0 && ncached[k] < NCACHE && k < 3) { cache[k][ncached[k]++] = ptr; return; }
    munmap(ptr, size);
}

void install_arena_cache(void) {
    static PyObjectArenaAllocator a = {NULL, arena_alloc, arena_free};
    PyObject_SetArenaAllocator(&a);
}
