"""C08  The solver is equivariant under cyclic permutation of the axes.

Relational contract of one REAL forward step.  Let P relabel the axes cyclically (x->y, y->z,
z->x): for a scene S (volume shape, materials incl. tensor components, boundary objects incl.
absorbing layers, plane/point sources with their polarisation data, initial fields and PML
auxiliary state) P.S is the scene with every axis attribute a replaced by (a+1)%3, every field /
material component c moved to (c+1)%3 (tensor entry (r,c) to (r+1,c+1)) and every array's spatial
axes rotated accordingly.  Obligation, for each of the two half steps h in {update_E, update_H} from
ARBITRARY related states:   h(P.S) == P.h(S)   pointwise for E, H and the PML auxiliary arrays, for all
shapes and values (the full step update_H o update_E commutes with P as a composition).  Three applications give the other orientation;
induction over steps gives whole runs; raw detector records are restrictions of the fields.
Source set-up (`apply`: incident profiles, time offsets) is compared at the level of its outputs:
P.S carries the permuted set-up arrays (assumed contract for the profile generators).
"""

from __future__ import annotations

from props import common as K
from vc import array as A
from vc import scene
from vc.array import SymArray
from vc.core import SymNum, ctx
from vc.harness import Task
from vc.obl import prove_arrays_equal, sym_int, sym_real

ID = "C08"
LEVEL = "proof"
TECHNIQUE = "relational symbolic execution of the real update_E/update_H on a scene and on its axis-permuted image; pointwise obligations by z3 / ring normal form"
MODULES = K.SOLVER_MODULES
FILES = K.SOLVER_FILES + ["src/fdtdx/objects/boundaries/perfectly_matched_layer.py", "src/fdtdx/core/axis.py"]
FUNCTIONS = [
    "fdtdx.fdtd.update.update_E / update_H",
    "fdtdx.core.physics.curl.curl_E / curl_H (incl. the per-axis CPML branches)",
    "fdtdx.objects.boundaries.perfectly_matched_layer.PerfectlyMatchedLayer.step_cpml",
    "fdtdx.core.axis.get_oriented_transverse_axes",
    "fdtdx.objects.sources.tfsf._tfsf_inject_E_face/_tfsf_inject_H_face",
    "fdtdx.objects.sources.dipole.PointDipoleSource.update_E/update_H",
    "fdtdx.fdtd.misc.avg_anisotropic_E/H_component, compute_anisotropic_update_matrices",
    "PEC/PMC/Bloch boundary hooks",
]
STUBS = ["source set-up arrays (_E,_H,_time_offset_*) and PML coefficient arrays (pml_a/b, inv_kappa) as produced by apply()/place_on_grid(): arbitrary arrays, permuted in the image scene", "temporal profile uninterpreted"]
ASSUMPTIONS = ["real arithmetic", "the image scene carries the permuted set-up data of sources and absorbing layers (their generators are not part of this obligation)", "induction over steps and the two further orientations follow by iterating the proved statement"]
MIN_OBLIGATIONS = {"quick": 100, "thorough": 300}
LEVEL_TEXT = "Deductive proof for all shapes, fields, materials and set-up data that one real forward step commutes with the cyclic relabelling of axes; boundary kinds (incl. CPML layers of symbolic thickness), tiers and source kinds enumerated"
LEVEL_NOTE = "real arithmetic; per-step statement; source/PML set-up generators outside the obligation"


def P_axis(a):
    return (a + 1) % 3


def P_shape(shape):
    """new axis (a+1)%3 carries old axis a"""
    out = [None] * 3
    for a in range(3):
        out[P_axis(a)] = shape[a]
    return tuple(out)


def P_index(idx_new):
    """spatial index in the image scene -> index in the original scene"""
    return tuple(idx_new[P_axis(a)] for a in range(3))


def P_field(X):
    """(3, N0, N1, N2) array -> its image (component and axes rotated)"""
    shape = (3, *P_shape(X.shape[1:]))
    return SymArray(shape, lambda idx: X.at_index(((idx[0] - 1) % 3 if A._is_pyint(idx[0]) else _dec(idx[0]),) + P_index(idx[1:])), X.kind)


def _dec(c):
    raise A.Unsupported("symbolic component index")


def P_material(X):
    if not isinstance(X, SymArray):
        return X
    t = X.shape[0]
    shape = (t, *P_shape(X.shape[1:]))
    if t == 1:
        return SymArray(shape, lambda idx: X.at_index((0,) + P_index(idx[1:])), X.kind)
    if t == 3:
        return SymArray(shape, lambda idx: X.at_index(((idx[0] - 1) % 3,) + P_index(idx[1:])), X.kind)

    def fn(idx):
        r, cc = divmod(idx[0], 3)
        return X.at_index((((r - 1) % 3) * 3 + (cc - 1) % 3,) + P_index(idx[1:]))

    return SymArray(shape, fn, X.kind)


def P_spatial(X, lead=0):
    """array with `lead` leading non-spatial axes and 3 spatial axes"""
    shape = tuple(X.shape[:lead]) + P_shape(X.shape[lead:])
    return SymArray(shape, lambda idx: X.at_index(tuple(idx[:lead]) + P_index(idx[lead:])), X.kind)


def P_slice(sl):
    out = [None] * 3
    for a in range(3):
        out[P_axis(a)] = sl[a]
    return tuple(out)


def _task(spec):
    def body(c, inp):
        import fdtdx.fdtd.update as U

        assign = spec["bnd"]
        shape = scene.sym_shape()
        for n, v in zip("xyz", shape):
            inp.scalar(f"N{n}", v)
        shapeP = P_shape(shape)
        # Plane sources find their propagation axis as the FIRST unit extent of their grid shape.  In the
        # main tasks every axis is at least two cells wide, so that axis is unambiguous; the one-cell-wide
        # ("2-D") domains are examined by the separate thin_axis tasks.
        for a in range(3):
            if spec.get("thin") == a:
                c.assume(A.v_eq(shape[a], 1).z if not isinstance(A.v_eq(shape[a], 1), bool) else True)
            elif any(s_[0] == "plane" for s_ in spec.get("sources", [])):
                c.assume((shape[a] >= 2).z)
        cfg = scene.make_config()
        T = K.sym_time_total()
        cplx = bool(spec.get("complex"))
        kind = "complex" if cplx else "real"
        # --- original scene -------------------------------------------------------------
        bnds = []
        bndsP = []
        psiE, psiH, psiEP, psiHP = {}, {}, {}, {}
        for ax, (lo, hi) in enumerate(assign):
            kb = sym_real(f"bloch_k{ax}") if "bloch" in (lo, hi) else None
            for kname, d in ((lo, "-"), (hi, "+")):
                if kname is None:
                    continue
                th = None
                if kname == "pml":
                    th = sym_int(f"L{ax}{d}", lo=1)
                    c.assume((th <= shape[ax]).z)
                b = scene.make_boundary(kname, ax, d, shape, cfg, bloch_k=kb, thickness=th)
                # the image: same kind on axis P(ax); Bloch vector component moved to the new axis
                bP = scene.make_boundary(kname, P_axis(ax), d, shapeP, cfg, bloch_k=kb, thickness=th)
                if kname == "pml":
                    cs = [1, 1, 1]
                    cs[ax] = th
                    csP = P_shape(cs)
                    for nm in ("pml_a_E", "pml_b_E", "inv_kappa_E", "pml_a_H", "pml_b_H", "inv_kappa_H"):
                        arr_ = A.fresh_array(f"{nm}_{ax}{d}", tuple(cs))
                        b = b.aset(nm, arr_)
                        bP = bP.aset(nm, P_spatial(arr_))
                    if spec.get("kappa"):
                        b = b.aset("kappa_end", 2.0)
                        bP = bP.aset("kappa_end", 2.0)
                    gshape = tuple(hi_ - lo_ for lo_, hi_ in b._grid_slice_tuple)
                    for store, storeP, tag in ((psiE, psiEP, "psiE"), (psiH, psiHP, "psiH")):
                        p1 = A.fresh_array(f"{tag}1_{ax}{d}", gshape, kind)
                        p2 = A.fresh_array(f"{tag}2_{ax}{d}", gshape, kind)
                        store[b.name] = (p1, p2)
                        storeP[bP.name] = (P_spatial(p1), P_spatial(p2))
                bnds.append(b)
                bndsP.append(bP)
        srcs, srcsP = [], []
        for s in spec.get("sources", []):
            if s[0] == "plane":
                _, cls, ax, d, gated = s
                src, pos = K.make_plane_source(cls, shape, cfg, ax, d, T, gated=gated, complex_profile=cplx)
                import fdtdx
                from fdtdx.core.wavelength import WaveCharacter

                kw = {"radius": 1e-6} if cls == "GaussianPlaneSource" else {}
                if gated:
                    kw["switch"] = src.switch
                sP = getattr(fdtdx, cls)(wave_character=WaveCharacter(wavelength=1e-6), direction=d, name=src.name + "_P", temporal_profile=src.temporal_profile, **kw)
                sP = scene._place(sP, P_slice(src._grid_slice_tuple), cfg)
                for nm in ("_E", "_H", "_time_offset_E", "_time_offset_H"):
                    sP = sP.aset(nm, P_field(getattr(src, nm)), create_new_ok=True)
            else:
                _, st, pol, gated, rot = s
                # rotated dipoles carry SYMBOLIC angles: with concrete angles the orientation vector is computed in
                # floating point and its cyclic images differ in the last bit (round-off, not a property matter)
                src, pos = K.make_dipole(shape, cfg, T, source_type=st, polarization=pol, gated=gated, rotated="sym" if rot else False)
                import fdtdx
                from fdtdx.core.wavelength import WaveCharacter

                kw = {}
                if gated:
                    kw["switch"] = src.switch
                if rot:
                    kw.update(azimuth_angle=src.azimuth_angle, elevation_angle=src.elevation_angle)
                sP = fdtdx.PointDipoleSource(wave_character=WaveCharacter(wavelength=1e-6), polarization=P_axis(pol), source_type=st, name=src.name + "_P", temporal_profile=src.temporal_profile, **kw)
                sP = scene._place(sP, P_slice(src._grid_slice_tuple), cfg)
            sP = sP.aset("_is_on_at_time_step_arr", src._is_on_at_time_step_arr, create_new_ok=True)
            sP = sP.aset("_time_step_to_on_idx", src._time_step_to_on_idx, create_new_ok=True)
            srcs.append(src)
            srcsP.append(sP)
        objs = scene.make_objects(shape, cfg, bnds, srcs)
        objsP = scene.make_objects(shapeP, cfg, bndsP, srcsP)
        arr = scene.make_arrays(shape, eps_tier=spec["eps"], mu_tier=spec["mu"], sigE_tier=spec.get("sigE"), sigH_tier=spec.get("sigH"), complex_fields=cplx, psi=(psiE, psiH))
        inp.array("E", arr.fields.E)
        inp.array("H", arr.fields.H)
        inp.note("spec", {k: str(v) for k, v in spec.items()})
        from fdtdx.fdtd.container import ArrayContainer, FieldState

        arrP = ArrayContainer(
            fields=FieldState(E=P_field(arr.fields.E), H=P_field(arr.fields.H), psi_E=psiEP, psi_H=psiHP),
            inv_permittivities=P_material(arr.inv_permittivities),
            inv_permeabilities=P_material(arr.inv_permeabilities),
            detector_states={},
            recording_state=None,
            electric_conductivity=P_material(arr.electric_conductivity) if arr.electric_conductivity is not None else None,
            magnetic_conductivity=P_material(arr.magnetic_conductivity) if arr.magnetic_conductivity is not None else None,
        )
        t_arr, t = K.time_scalar("t")
        c.assume((t < T).z)
        c.cover("pre")
        # modular: each half step commutes with the relabelling on ARBITRARY related inputs (fields and PML
        # auxiliary state), so update_H o update_E does too (composition of two commuting squares).
        for hname, fn in (("update_E", U.update_E), ("update_H", U.update_H)):
            s1 = fn(t_arr, arr, objs, cfg, True)
            s1P = fn(t_arr, arrP, objsP, cfg, True)
            prove_arrays_equal(f"{hname}:E_equivariant", s1P.fields.E, P_field(s1.fields.E))
            prove_arrays_equal(f"{hname}:H_equivariant", s1P.fields.H, P_field(s1.fields.H))
            for b, bP in zip(bnds, bndsP):
                if b.name in psiE:
                    for k in (0, 1):
                        prove_arrays_equal(f"{hname}:psi_E[{b.name}][{k}]_equivariant", s1P.fields.psi_E[bP.name][k], P_spatial(s1.fields.psi_E[b.name][k]))
                        prove_arrays_equal(f"{hname}:psi_H[{b.name}][{k}]_equivariant", s1P.fields.psi_H[bP.name][k], P_spatial(s1.fields.psi_H[b.name][k]))

    return body


def _T(body, **kw):
    from vc.shims import NumpyPassthrough

    return Task(body, extra_patch={"fdtdx.objects.sources.dipole": {"np": NumpyPassthrough()}}, **kw)


def tasks(tier, seed):
    out = {}
    combos = [
        ((("pec", "pmc"), ("periodic", "periodic"), (None, None)), 3, 3, 3, 3),
        ((("pml", "pml"), ("pml", None), ("pec", "pml")), 3, 1, None, None),
        ((("pml", "pml"), ("periodic", "periodic"), ("pmc", "pml")), 1, "scalar", None, None),
        (((None, None), (None, None), (None, None)), 9, 9, None, None),
        ((("pec", None), ("pmc", "pec"), ("pml", "pml")), 9, 3, None, None),
    ]
    for a, e, m, se, sh in combos:
        out[f"nosrc/{K.bnd_label(a)}/e{e}m{m}sE{se}sH{sh}"] = Task(_task(dict(bnd=a, eps=e, mu=m, sigE=se, sigH=sh)), max_paths=512)
    out["nosrc/pml_kappa/LLLLLL"] = Task(_task(dict(bnd=(("pml", "pml"),) * 3, eps=1, mu=1, sigE=None, sigH=None, kappa=True)), max_paths=512)
    out["nosrc/bloch/BBooLL"] = Task(_task(dict(bnd=(("bloch", "bloch"), (None, None), ("pml", "pml")), eps=3, mu=1, sigE=None, sigH=None, complex=True)), max_paths=512)
    mixed = (("pml", "pml"), ("periodic", "periodic"), ("pec", None))
    src_sets = [
        [("plane", "UniformPlaneSource", 0, "+", False)],
        [("plane", "UniformPlaneSource", 1, "-", True)],
        [("plane", "GaussianPlaneSource", 2, "+", False)],
        [("dipole", "electric", 0, False, False)],
        [("dipole", "magnetic", 1, True, True)],
        [("dipole", "electric", 2, False, True)],
    ]
    for ss in src_sets:
        lab = "+".join("_".join(str(x) for x in s) for s in ss)
        out[f"src/{lab}/e3m3"] = _T(_task(dict(bnd=mixed, eps=3, mu=3, sigE=1, sigH=None, sources=ss)), max_paths=512)
    # one-cell-wide domains: the plane normal to axis 2 in a domain that is one cell wide along axis 0
    open_ = ((None, None),) * 3
    for ax, thin in [(2, 0), (1, 0), (2, 1), (0, 1)]:
        ss = [("plane", "UniformPlaneSource", ax, "+", False)]
        out[f"thin_axis/plane_axis{ax}_thin{thin}"] = Task(_task(dict(bnd=open_, eps=1, mu="scalar", sigE=None, sigH=None, sources=ss, thin=thin)), max_paths=512)
    if tier == "thorough":
        for ss in src_sets[:3]:
            lab = "+".join("_".join(str(x) for x in s) for s in ss)
            out[f"src/{lab}/e9m9"] = Task(_task(dict(bnd=mixed, eps=9, mu=9, sigE=None, sigH=None, sources=ss)), max_paths=512)
    return out


def _np_P_field(X):
    import numpy as np

    # component c -> (c+1)%3 ; spatial axes: new axis (a+1)%3 carries old axis a
    Y = np.transpose(X, (0, 3, 1, 2))  # new axes (x',y',z') = (old z, old x, old y)
    return np.stack([Y[2], Y[0], Y[1]], axis=0)


_REPLAY_CACHE = {}


def replay(key, obligation, witness):
    """real update_E/update_H on a concrete scene and on its axis-permuted image (random data on the
    witness' shape), compared after permuting back; one evaluation per configuration (cached)"""
    ck = key
    if ck not in _REPLAY_CACHE:
        _REPLAY_CACHE[ck] = _replay(key, obligation, witness)
    return _REPLAY_CACHE[ck]


def _replay(key, obligation, witness):
    import jax
    import jax.numpy as jnp
    import numpy as np

    import fdtdx
    import fdtdx.fdtd.update as U
    from fdtdx.core.wavelength import WaveCharacter
    from fdtdx.fdtd.container import ArrayContainer, FieldState, ObjectContainer

    spec = K.parse_spec((witness or {}).get("notes"))
    if not spec:
        return False, "no configuration recorded"
    if any("pml" in p for p in spec["bnd"]) or any(s[0] != "plane" for s in spec.get("sources", [])):
        return False, "replay implemented for plane-source scenes without absorbing layers only"
    sc = dict((witness or {}).get("scalars", {}))
    details = []
    for attempt in range(2):
        shape = tuple(min(6, max(1, int(sc.get(f"N{a}", 3)))) if isinstance(sc.get(f"N{a}"), int) and attempt == 0 else 3 + attempt for a in "xyz")  # solver models may pick huge extents
        if spec.get("thin") is not None:
            shape = tuple(1 if a == spec["thin"] else max(2, n) for a, n in enumerate(shape))
        shapeP = P_shape(shape)
        rng = np.random.default_rng(attempt)
        _, cfg, objs, arrays, _ = K.concrete_scene(dict(spec, sources=[]), {"scalars": {f"N{a}": n for a, n in zip("xyz", shape)}}, seed=attempt)
        assignP = tuple(spec["bnd"][(a - 1) % 3] for a in range(3))
        _, cfgP, objsP, arraysP0, _ = K.concrete_scene(dict(spec, bnd=assignP, sources=[]), {"scalars": {f"N{a}": n for a, n in zip("xyz", shapeP)}}, seed=attempt)

        def Pm(X):
            if not hasattr(X, "shape") or np.ndim(X) == 0:
                return X
            X = np.asarray(X)
            Y = np.transpose(X, (0, 3, 1, 2))
            if X.shape[0] == 9:  # tensor entry (r, c) -> ((r+1)%3, (c+1)%3)
                Z = np.zeros_like(Y)
                for r in range(3):
                    for cc in range(3):
                        Z[3 * ((r + 1) % 3) + (cc + 1) % 3] = Y[3 * r + cc]
                return jnp.asarray(Z)
            return jnp.asarray(Y if X.shape[0] == 1 else np.stack([Y[2], Y[0], Y[1]], axis=0))

        arraysP = ArrayContainer(
            fields=FieldState(E=jnp.asarray(_np_P_field(np.asarray(arrays.fields.E))), H=jnp.asarray(_np_P_field(np.asarray(arrays.fields.H))), psi_E={}, psi_H={}),
            inv_permittivities=Pm(arrays.inv_permittivities),
            inv_permeabilities=Pm(arrays.inv_permeabilities),
            detector_states={},
            recording_state=None,
            electric_conductivity=None if arrays.electric_conductivity is None else Pm(arrays.electric_conductivity),
            magnetic_conductivity=None if arrays.magnetic_conductivity is None else Pm(arrays.magnetic_conductivity),
        )
        srcs, srcsP = [], []
        for s in spec.get("sources", []):
            _, cls, ax, d, gated = s
            kw = {"radius": 1e-6} if cls == "GaussianPlaneSource" else {}
            pos = int(rng.integers(0, shape[ax]))
            sl = [(0, n) for n in shape]
            sl[ax] = (pos, pos + 1)
            gshape = tuple(1 if a == ax else shape[a] for a in range(3))
            data = {nm: rng.normal(size=(3, *gshape)) for nm in ("_E", "_H")}
            data.update({nm: rng.uniform(-0.5, 0.5, size=(3, *gshape)) for nm in ("_time_offset_E", "_time_offset_H")})
            on = np.ones(8, dtype=bool)
            idx = np.arange(8, dtype=np.int32)
            for tgt, cfg_, slc, perm in ((srcs, cfg, sl, False), (srcsP, cfgP, list(P_slice(sl)), True)):
                o = getattr(fdtdx, cls)(wave_character=WaveCharacter(wavelength=3e-7), direction=d, name=f"r8_{rng.integers(1 << 30)}", **kw)
                o = scene._place(o, slc, cfg_)
                for nm, v in data.items():
                    o = o.aset(nm, jnp.asarray(_np_P_field(v) if perm else v), create_new_ok=True)
                o = o.aset("_is_on_at_time_step_arr", jnp.asarray(on), create_new_ok=True)
                o = o.aset("_time_step_to_on_idx", jnp.asarray(idx), create_new_ok=True)
                tgt.append(o)
        oc = ObjectContainer(object_list=[*objs, *srcs], volume_idx=0)
        ocP = ObjectContainer(object_list=[*objsP, *srcsP], volume_idx=0)
        t = jnp.asarray(2, dtype=jnp.int32)
        with jax.disable_jit():
            s1 = U.update_H(t, U.update_E(t, arrays, oc, cfg, True), oc, cfg, True)
            s1P = U.update_H(t, U.update_E(t, arraysP, ocP, cfgP, True), ocP, cfgP, True)
        dE = K.max_abs_diff(np.asarray(s1P.fields.E), _np_P_field(np.asarray(s1.fields.E)))
        dH = K.max_abs_diff(np.asarray(s1P.fields.H), _np_P_field(np.asarray(s1.fields.H)))
        prop = [getattr(o, "propagation_axis", None) for o in srcs], [getattr(o, "propagation_axis", None) for o in srcsP]
        details.append(f"attempt {attempt}: shape={shape} image shape={shapeP}: |dE|={dE:.3e} |dH|={dH:.3e}; detected propagation axes original/image: {prop}")
        if dE > 1e-9 or dH > 1e-9:
            return True, "\n".join(details)
    return False, "\n".join(details)
