"""C11  Complex-valued fields reproduce real-valued runs.

Relational contract: running one REAL forward step (update_E, update_H with sources, boundaries,
conductivities) and every detector update on complex-typed arrays whose imaginary part is zero
gives outputs with zero imaginary part and the real-typed run's values as real part - for scenes
without a non-zero Bloch phase.  Initial arrays are zero (real and complex alike: reset / _init_arrays
allocate zeros), so 'Im == 0 and Re == real run' is an invariant over the whole run by induction.
Covered code paths that branch on complexness: TFSF injection (`jnp.iscomplexobj(incident)` with
real incident profiles keeps the real branch; with complex incident profiles the quadrature branch is
compared on both storages), dipole `.astype(E.dtype)`, compute_energy (abs^2), compute_poynting_flux
(conj), FieldDetector, PhasorDetector.
"""

from __future__ import annotations

from props import common as K
from vc import array as A
from vc import scene
from vc.array import SymArray
from vc.core import SymNum, ctx
from vc.harness import Task
from vc.obl import prove_arrays_equal, prove_pointwise, sym_int, sym_real

ID = "C11"
LEVEL = "proof"
TECHNIQUE = "relational symbolic execution of the real step and detector update functions on real-typed arrays and on complex-typed arrays with zero imaginary part; pointwise obligations by z3"
MODULES = K.SOLVER_MODULES + ["fdtdx.objects.detectors.field", "fdtdx.objects.detectors.phasor", "fdtdx.objects.detectors.energy", "fdtdx.objects.detectors.poynting_flux", "fdtdx.core.physics.metrics"]
FILES = K.SOLVER_FILES + ["src/fdtdx/core/physics/metrics.py", "src/fdtdx/objects/detectors/phasor.py", "src/fdtdx/objects/detectors/energy.py", "src/fdtdx/objects/detectors/poynting_flux.py", "src/fdtdx/objects/detectors/field.py"]
FUNCTIONS = [
    "fdtdx.fdtd.update.update_E",
    "fdtdx.fdtd.update.update_H",
    "fdtdx.objects.sources.tfsf._tfsf_inject_E_face/_tfsf_inject_H_face",
    "fdtdx.objects.sources.dipole.PointDipoleSource.update_E/update_H",
    "fdtdx.core.physics.metrics.compute_energy / compute_poynting_flux",
    "FieldDetector.update, PhasorDetector.update, EnergyDetector.update, PoyntingFluxDetector.update",
]
STUBS = ["temporal profile uninterpreted", "source set-up arrays arbitrary (real incident profiles; complex incident profiles in a separate task, identical on both storages)"]
ASSUMPTIONS = ["real arithmetic; dtype casts identity", "periodic boundaries with zero Bloch vector (property text)", "induction over steps from the all-zero initial state is a pencil step"]
MIN_OBLIGATIONS = {"quick": 100, "thorough": 200}
LEVEL_TEXT = "Deductive proof for all shapes, field/material values and source data that the complex-typed step and detector updates restricted to zero imaginary part coincide with the real-typed ones; configurations enumerated"
LEVEL_NOTE = "real arithmetic; per-step statement + induction"


def complexify(X):
    """the same values stored as complex numbers with zero imaginary part"""
    if not isinstance(X, SymArray):
        return X
    return SymArray(X.shape, lambda idx: SymNum(_re(X.at_index(idx)), 0), "complex")


def _re(v):
    if isinstance(v, SymNum):
        return v.re
    return v


def prove_real_equal(name, Zc, Zr):
    """Zc (complex-typed) has zero imaginary part and real part equal to Zr"""
    ok = prove_arrays_equal(name + ":Re", Zc.real if Zc.kind == "complex" else Zc, Zr)
    if Zc.kind == "complex":
        ok &= prove_pointwise(name + ":Im==0", Zc.imag, lambda v, idx: A.v_eq(v, 0))
    return ok


def _step_task(spec):
    def body(c, inp):
        import fdtdx.fdtd.update as U

        assign = spec["bnd"]
        shape = scene.sym_shape()
        for n, v in zip("xyz", shape):
            inp.scalar(f"N{n}", v)
        cfg = scene.make_config(nonuniform_shape=shape if spec.get("nonuniform") else None)
        bnds = K.make_boundaries(assign, shape, cfg)
        T = K.sym_time_total()
        srcs = []
        for s in spec.get("sources", []):
            if s[0] == "plane":
                _, cls, ax, d, gated = s
                src, _ = K.make_plane_source(cls, shape, cfg, ax, d, T, gated=gated, complex_profile=bool(spec.get("complex_profile")))
            else:
                _, st, pol, gated, rot = s
                src, _ = K.make_dipole(shape, cfg, T, source_type=st, polarization=pol, gated=gated, rotated=rot)
            srcs.append(src)
        objs = scene.make_objects(shape, cfg, bnds, srcs)
        real = scene.make_arrays(shape, eps_tier=spec["eps"], mu_tier=spec["mu"], sigE_tier=spec.get("sigE"), sigH_tier=spec.get("sigH"))
        inp.array("E", real.fields.E)
        inp.array("H", real.fields.H)
        inp.note("spec", {k: str(v) for k, v in spec.items()})
        cplx = real.aset("fields->E", complexify(real.fields.E)).aset("fields->H", complexify(real.fields.H))
        t_arr, t = K.time_scalar("t")
        c.assume((t < T).z)
        c.cover("pre")
        r1 = U.update_E(t_arr, real, objs, cfg, True)
        r2 = U.update_H(t_arr, r1, objs, cfg, True)
        c1 = U.update_E(t_arr, cplx, objs, cfg, True)
        c2 = U.update_H(t_arr, c1, objs, cfg, True)
        if spec.get("complex_profile"):
            # complex incident profiles: both storages take the quadrature branch; the real-typed run
            # keeps real fields, so compare real parts and require a vanishing imaginary part
            pass
        prove_real_equal("E", c2.fields.E, r2.fields.E)
        prove_real_equal("H", c2.fields.H, r2.fields.H)

    return body


def _detector_task(kind_name, opts):
    def body(c, inp):
        import fdtdx
        from fdtdx.core.wavelength import WaveCharacter

        shape = scene.sym_shape(names=("Dx", "Dy", "Dz"))
        cfg = scene.make_config()
        T = K.sym_time_total()
        rows = sym_int("rows", lo=1)
        box = [(0, n) for n in shape]
        name = f"det_{kind_name}"
        if kind_name == "field":
            det = fdtdx.FieldDetector(name=name)
            key, st_shape, st_kind = "fields", (rows, 6, *shape), "real"
        elif kind_name == "phasor":
            det = fdtdx.PhasorDetector(name=name, wave_characters=[WaveCharacter(wavelength=1e-6)], inverse=opts.get("inverse", False), dtype=__import__("jax").numpy.complex128)
            key, st_shape, st_kind = "phasor", (1, 1, 6, *shape), "complex"
        elif kind_name == "energy":
            det = fdtdx.EnergyDetector(name=name)
            key, st_shape, st_kind = "energy", (rows, *shape), "real"
        else:
            det = fdtdx.PoyntingFluxDetector(name=name, direction=opts.get("direction", "+"), reduce_volume=False, keep_all_components=opts.get("all", False), fixed_propagation_axis=2)
            key, st_shape, st_kind = "poynting_flux", ((rows, 3, *shape) if opts.get("all") else (rows, *shape)), "real"
        det = scene._place(det, box, cfg)
        idxmap = A.fresh_array("idxmap", (T,), "int", fact=lambda v, i: A._vand(v >= 0, v < rows))
        det = det.aset("_time_step_to_arr_idx", idxmap, create_new_ok=True)
        det = det.aset("_is_on_at_time_step_arr", A.full((T,), True, "bool"), create_new_ok=True)
        if kind_name == "phasor":
            det = det.aset("_window_at_time_step_arr", A.fresh_array("window", (T,)), create_new_ok=True)
            det = det.aset("_window_sum", sym_real("wsum", lo_strict=0), create_new_ok=True)
        t_arr, t = K.time_scalar("t")
        c.assume((t < T).z)
        tier = opts.get("tier", 3)
        inv_eps = A.fresh_array("inv_eps", (tier, *shape), fact=(lambda v, i: v > 0) if tier != 9 else None)
        inv_mu = A.fresh_array("inv_mu", (tier, *shape), fact=(lambda v, i: v > 0) if tier != 9 else None)
        E, H = A.fresh_array("E", (3, *shape)), A.fresh_array("H", (3, *shape))
        S = A.fresh_array("S", st_shape, st_kind)
        c.cover("pre")
        r = det.update(time_step=t_arr, E=E, H=H, state={key: S}, inv_permittivity=inv_eps, inv_permeability=inv_mu)[key]
        z = det.update(time_step=t_arr, E=complexify(E), H=complexify(H), state={key: S}, inv_permittivity=inv_eps, inv_permeability=inv_mu)[key]
        if st_kind == "complex":
            prove_arrays_equal(f"{kind_name}_record", z, r)
        else:
            prove_real_equal(f"{kind_name}_record", z, r)

    return body


def tasks(tier, seed):
    out = {}
    mixed = (("pec", "pmc"), ("periodic", "periodic"), (None, None))
    src_sets = [
        [],
        [("plane", "UniformPlaneSource", 0, "+", False)],
        [("plane", "GaussianPlaneSource", 1, "-", True)],
        [("dipole", "electric", 2, True, True)],
        [("dipole", "magnetic", 1, False, False)],
    ]
    tiers = [(3, 3, 3, 3), (1, "scalar", None, None), (9, 9, None, None)]
    for i, ss in enumerate(src_sets):
        for e, m, se, sh in tiers if (tier == "thorough" or i < 2) else tiers[:1]:
            lab = "+".join("_".join(str(x) for x in s) for s in ss) or "nosrc"
            out[f"step/{lab}/e{e}m{m}"] = Task(_step_task(dict(bnd=mixed, eps=e, mu=m, sigE=se, sigH=sh, sources=ss)), max_paths=256)
    for a in [((None, None),) * 3, (("periodic", "periodic"),) * 3, (("pec", "pec"), ("pmc", "pmc"), ("pec", "pmc"))]:
        out[f"step/nosrc/{K.bnd_label(a)}"] = Task(_step_task(dict(bnd=a, eps=3, mu=1, sigE=1, sigH=None)))
    # complex incident profiles (e.g. the eigenmode of a lossy waveguide): the injected value is built from
    # Re/Im of the profile and two quadrature amplitudes and must be real in both storage modes
    for ss in (src_sets[1], src_sets[2]):
        lab = "+".join("_".join(str(x) for x in s_) for s_ in ss)
        for e, m, se, sh in [(3, 3, 3, 3), (9, 9, None, None)] if tier == "thorough" or ss is src_sets[1] else [(1, "scalar", None, None)]:
            out[f"step/{lab}/complex_profile/e{e}m{m}"] = Task(_step_task(dict(bnd=mixed, eps=e, mu=m, sigE=se, sigH=sh, sources=ss, complex_profile=True)), max_paths=256)
    out["step/nonuniform"] = Task(_step_task(dict(bnd=mixed, eps=3, mu=3, sigE=3, sigH=None, nonuniform=True, sources=src_sets[1])), max_paths=256)
    out["detector/field"] = Task(_detector_task("field", {}))
    out["detector/phasor"] = Task(_detector_task("phasor", {}))
    out["detector/phasor_inverse"] = Task(_detector_task("phasor", {"inverse": True}))
    for t in (1, 3, 9):
        out[f"detector/energy/tier{t}"] = Task(_detector_task("energy", {"tier": t}))
    for d in "+-":
        for allc in (False, True):
            out[f"detector/poynting/{d}/all={allc}"] = Task(_detector_task("poynting", {"direction": d, "all": allc}))
    return out


# ---------------------------------------------------------------------------------------------
# replay on the real code (real JAX, concrete arrays)


def replay(key, obligation, witness):
    """step tasks: REAL update_E + update_H under real JAX on a concrete scene, once with float64 field storage
    and once with the same fields stored as complex128 (imaginary part 0); sources with concrete (for
    `complex_profile` tasks: complex) incident profiles; compares Re(complex run) with the real run and requires
    Im(complex run) == 0.  Detector tasks have no replay."""
    import jax
    import jax.numpy as jnp
    import numpy as np

    import fdtdx.fdtd.update as U
    from fdtdx.fdtd.container import ObjectContainer

    if not key.startswith("step/"):
        return False, "no replay for detector-update obligations"
    spec = K.parse_spec((witness or {}).get("notes"))
    if not spec:
        return False, "witness carries no configuration"
    details = []
    for attempt in range(2):
        w = {"scalars": {"Nx": 3 + attempt, "Ny": 2 + attempt, "Nz": 4}}
        sp = dict(spec, complex=False)
        shape, cfg, objs, real, rng = K.concrete_scene(sp, w, seed=attempt)
        T = 6
        srcs = K.concrete_sources(dict(spec, complex=bool(spec.get("complex_profile"))), shape, cfg, T, rng, real)
        oc = ObjectContainer(object_list=[*objs, *srcs], volume_idx=0)
        cplx = real.aset("fields->E", jnp.asarray(np.asarray(real.fields.E), dtype=jnp.complex128)).aset("fields->H", jnp.asarray(np.asarray(real.fields.H), dtype=jnp.complex128))
        t = jnp.asarray(2, dtype=jnp.int32)
        import warnings

        with jax.disable_jit(), warnings.catch_warnings():
            warnings.simplefilter("ignore")
            r2 = U.update_H(t, U.update_E(t, real, oc, cfg, True), oc, cfg, True)
            c2 = U.update_H(t, U.update_E(t, cplx, oc, cfg, True), oc, cfg, True)
        worst = 0.0
        for nm, X, Y in (("E", c2.fields.E, r2.fields.E), ("H", c2.fields.H, r2.fields.H)):
            X, Y = np.asarray(X), np.asarray(Y)
            scale = max(1.0, float(np.max(np.abs(Y))))
            d_re, d_im = float(np.max(np.abs(X.real - Y.real))) / scale, float(np.max(np.abs(X.imag))) / scale
            details.append(f"attempt {attempt}: shape {tuple(shape)} {nm}: |Re(complex run) - real run| = {d_re:.3e}, |Im(complex run)| = {d_im:.3e} (relative)")
            worst = max(worst, d_re, d_im)
        if worst > 1e-9:
            return True, "\n".join(details)
    return False, "\n".join(details)
