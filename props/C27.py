"""C27  Placement does not depend on the order of objects or constraints.

Two-run (relational) obligations on the real `resolve_object_constraints`:

 (P) permutation pairs   for every structure of the C26 catalogue (spec/C26_rules.systems) the solver is
                         run twice inside ONE symbolic session, on the same symbolic sizes / coordinates
                         / margins / offsets, with the constraint list in its written order and in a
                         permuted order (all orders up to 12 in the quick tier and 120 in the thorough tier, seeded sample above; plus permuted object
                         lists).  On every joint path:  success(A) == success(B), and if both succeed
                         every resolved slice bound is equal.
 (S) state sweep         all 64 known/unknown patterns of two objects' cells (produced by declared sizes and
                         leading grid-coordinate constraints with symbolic values) with one main constraint
                         listed first versus last: same outcome, same slices (see C26 (S)).
 (R) rule contracts      the facts the confluence argument needs (DESIGN section 4, C27) for every rule and
                         every known/unknown cell pattern: frame, set-once, idle on unknown inputs, the
                         changed-flag is exact, `_extend_to_inf_if_possible` writes only unknown cells,
                         with values 0 / volume size, and which cells it writes is a function of the
                         state (same bodies as C26; re-run here so the evidence is self-contained).
 (B) bounded             seeded random and planted-solution concrete systems (<= 3 objects + volume) run
                         through the unmodified code (real RectilinearGrid, real numpy/JAX) under up to
                         24 constraint orders and all object orders: one outcome, one set of slices.

The confluence lemma itself (chaotic iteration of monotone set-once rules whose values depend only on
known cells has a unique quiescent state, so the order of rule application does not matter) is NOT
mechanised; it is the pencil step that lifts (P)+(R) from the enumerated structures to arbitrary systems.
"""

from __future__ import annotations

import itertools
import random

from vc.harness import Task

ID = "C27"
LEVEL = "proof"
TECHNIQUE = "relational symbolic execution: the real resolve_object_constraints run twice (two orders) on shared symbolic inputs, outcome and slices compared path-wise by z3; per-rule monotonicity/set-once contracts; bounded permutation runs of the unmodified code"
MODULES = ["fdtdx.fdtd.initialization"]
PATCH_NAMES = ("math", "float")
FILES = ["src/fdtdx/fdtd/initialization.py"]
FUNCTIONS = [
    "fdtdx.fdtd.initialization.resolve_object_constraints",
    "fdtdx.fdtd.initialization._apply_constraints_iteratively",
    "fdtdx.fdtd.initialization._extend_to_inf_if_possible",
    "fdtdx.fdtd.initialization._apply_grid_coordinate_constraint/_apply_real_coordinate_constraint/_apply_position_constraint/_apply_size_constraint/_apply_size_extension_constraint",
    "fdtdx.fdtd.initialization._update_grid_slices_from_shapes/_update_grid_shapes_from_slices",
]
INLINED = ["fdtdx.fdtd.initialization._resolve_static_shapes/_resolve_static_positions_* (no-ops here)/_handle_unresolved_objects/_real_length_to_grid_size/_real_coord_to_edge_index"]
STUBS = ["RectilinearGrid placement accessors on a uniform grid: spec.C26_placement.SpecGrid (deterministic closest-edge / closest-interval contract incl. numpy's first-minimiser tie rule); compared with the real grid by C26's bounded part 'gridstub'"]
ASSUMPTIONS = [
    "uniform grid with spacing normalised to 1; anchor positions in {-1,0,1}, proportions in {1,1/2,2}",
    "objects carry partial_grid_shape only (no partial_real_position / partial_real_shape)",
    "structures enumerated (catalogue of spec/C26_rules.systems: <= 3 objects + volume, <= 4 constraints); general systems by the un-mechanised confluence lemma stated in the module docstring",
    "fewer than ~110 objects (max_iter exit not reached)",
    "declared sizes are assumed to fit into the volume in the symbolic runs (oversized objects are rejected with an error in every order; exercised by the bounded runs)",
]
MIN_OBLIGATIONS = {"quick": 9000, "thorough": 18000}
LEVEL_TEXT = "Deductive proof, for all integer/real parameter values, that every enumerated pair of constraint/object orders of the catalogue structures yields the same success/failure outcome and the same slices from the real resolve_object_constraints, plus the per-rule set-once/monotonicity contracts"
LEVEL_NOTE = "structures and order pairs enumerated; confluence for arbitrary systems is a pencil lemma; bounded permutation runs of the unmodified code as cross-check"
BOUNDED_RULE = "bounded part: seeded random / planted concrete systems through the real code under up to 24 constraint orders and all object orders; outcome and slices must coincide"

CAP = {"quick": 12, "thorough": 120}


def _perm_chunk(chunk, seed, count):
    def body(c, inp):
        from spec import C26_placement as P
        from spec import C26_rules as RU

        rnd = random.Random(f"C27-{seed}-{chunk}")
        for i in range(count):
            system = RU.planted_system(rnd) if i % 4 else RU.random_system(rnd)
            orders = RU.sample_orders(len(system["constraints"]), 24, rnd)
            n_obj = len(system["objects"])
            obj_orders = [None] + [list(p) for p in itertools.permutations(range(n_obj))][1:]
            runs = [(list(o), None) for o in orders] + [(list(orders[0]), oo) for oo in obj_orders[1:]] + [(list(orders[-1]), oo) for oo in obj_orders[1:3]]
            results = []
            for order, oo in runs:
                ok, slices, errors, _ = P.run_real(system, {}, order=order, obj_order=oo)
                results.append((bool(ok), repr(sorted(slices.items())) if ok else None))
            distinct = sorted(set(results), key=repr)
            failure = None
            if len(distinct) > 1:
                ex = {}
                for (order, oo), r in zip(runs, results):
                    ex.setdefault(r, (order, oo))
                failure = {"system": {k: system[k] for k in ("objects", "constraints")}, "outcomes": [{"order": ex[r][0], "obj_order": ex[r][1], "success": r[0], "slices": r[1]} for r in distinct]}
            c.bounded(f"perm/{chunk}/{i}", failure is None, case={"system": repr(system["objects"]) + repr(system["constraints"]), "runs": len(runs), "success": results[0][0]}, witness=failure)

    return body


def tasks(tier, seed):
    from spec import C26_rules as RU

    out = {}
    for key, body in RU.rule_tasks(tier).items():
        out[key] = Task(body, patch_names=PATCH_NAMES, max_paths=512)
    for name, system in RU.systems(tier).items():
        n = len(system["constraints"])
        ident = tuple(range(n))
        for order in RU.permutations_for(system, tier, seed, CAP[tier]):
            if order == ident:
                continue
            out[f"rel/{name}/{''.join(map(str, ident))}~{''.join(map(str, order))}"] = Task(RU.rel_body(system, ident, order), patch_names=PATCH_NAMES, max_paths=4096)
        n_obj = len(system["objects"])
        obj_perms = list(itertools.permutations(range(n_obj)))[1:]
        if tier == "quick" and len(obj_perms) > 5:
            obj_perms = [obj_perms[-1]] + random.Random(seed).sample(obj_perms[:-1], 4)
        rev = tuple(reversed(ident))
        for k, op in enumerate(obj_perms):
            ob = rev if k % 2 else ident
            out[f"rel/{name}/objects{''.join(map(str, op))}{'+rev' if k % 2 else ''}"] = Task(RU.rel_body(system, ident, ob, obj_a=None, obj_b=op), patch_names=PATCH_NAMES, max_paths=4096)
    for k, (skey, system, first, last) in enumerate(RU.sweep_tasks(tier)):
        if tier == "quick" and k % 2:
            continue
        out[f"rel_sweep/{skey}/main_first~main_last"] = Task(RU.rel_body(system, first, last), patch_names=PATCH_NAMES, max_paths=4096)
    n_chunks, per = (8, 40) if tier == "quick" else (16, 250)
    for k in range(n_chunks):
        out[f"perm/{k:02d}"] = Task(_perm_chunk(k, seed, per), patch_names=())
    return out


def _plain_system(d):
    from props.C26 import _plain_system as f

    return f(d)


def replay(key, obligation, witness):
    """real resolve_object_constraints (real grid, real numpy/JAX): run the two orders on the witness"""
    from spec import C26_placement as P
    from spec import C26_rules as RU

    if key.startswith("perm/"):
        if not witness:
            return False, "no witness"
        system = _plain_system(witness["system"])
        outs = []
        for o in witness["outcomes"][:2]:
            ok, slices, errors, _ = P.run_real(system, {}, order=o["order"], obj_order=o["obj_order"])
            outs.append((bool(ok), repr(sorted(slices.items())) if ok else None, o["order"], o["obj_order"], errors))
        differ = (outs[0][0], outs[0][1]) != (outs[1][0], outs[1][1])
        return differ, f"real code, objects {system['objects']} constraints {system['constraints']}: " + " VERSUS ".join(f"constraint order {o[2]} object order {o[3]} -> {'SUCCESS ' + o[1] if o[0] else 'ERROR ' + str(o[4])}" for o in outs)
    if key.startswith("rule/"):
        return RU.replay_rule(key, obligation, witness)
    try:
        from props.C26 import _system_of

        name, system = _system_of(key if not key.startswith("rel/") else "e2e/" + key.split("/")[1])
    except KeyError:
        return False, f"no replay for task {key}"
    vals = RU.witness_values(system, witness)
    if vals is None:
        return False, f"witness incomplete: {witness}"
    notes = (witness or {}).get("notes", {})
    ra = P.run_real(system, vals, order=notes.get("order_a"), obj_order=notes.get("obj_a"))
    rb = P.run_real(system, vals, order=notes.get("order_b"), obj_order=notes.get("obj_b"))

    def show(r):
        return f"SUCCESS {r[1]}" if r[0] else f"ERROR {r[2]}"

    differ = (ra[0] != rb[0]) or (ra[0] and rb[0] and ra[1] != rb[1])
    detail = f"system '{name}' values {({k: str(v) for k, v in vals.items()})}: constraint order {notes.get('order_a')} objects {notes.get('obj_a')} -> {show(ra)} VERSUS constraint order {notes.get('order_b')} objects {notes.get('obj_b')} -> {show(rb)}"
    return bool(differ), detail
