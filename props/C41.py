"""C41  Wave descriptions and temporal profiles are self-consistent.

Contracts (spec from the property text):

WaveCharacter(period | wavelength | frequency = v), v != 0
    ensures get_period()*get_frequency() == 1  and  get_wavelength() == c*get_period()
            and the given quantity is returned unchanged;
    exactly one of the three must be given, otherwise the constructor raises.
CustomTimeSignalProfile(signal[0..n), dt > 0, start, outside).get_amplitude(t),  x := (t - start)/dt  (sample coordinate)
    ensures x == j, 0 <= j < n                       ==>  amplitude == signal[j]            (exact at sample times)
            j <= x <= j+1, 0 <= j, j+1 < n           ==>  amplitude == signal[j] + (x-j)*(signal[j+1]-signal[j])   (linear between)
            x < 0 or x >= n                          ==>  amplitude == outside_value
    and t == start + j*dt  ==>  x == j  (sample times are exactly the integer sample coordinates).
linear_rampup(t, d), d > 0
    ensures value == 0 for t <= 0, == t/d for 0 <= t <= d, == 1 for t >= d; 0 <= value <= 1; non-decreasing in t.
SingleFrequencyProfile(phase, num_startup_periods > 0).get_amplitude(t, period > 0, phase_shift)
    ensures amplitude == ramp(t, num_startup_periods*period) * cos(2 pi t/period + phase_shift + phase)   and |amplitude| <= 1
gaussian_envelope(t, center, sigma != 0)   ensures 0 < value <= 1
GaussianPulseProfile(spectral_width, center_wave).get_amplitude(t, ., phase_shift)   ensures |amplitude| <= 1
    (all 3x3 ways of giving the two wave descriptions).

cos / exp are uninterpreted functions constrained by the axioms -1 <= cos <= 1, exp(x) > 0, x <= 0 ==> exp(x) <= 1,
x >= 0 ==> exp(x) >= 1.  The code computes the carrier as Re exp(-i*theta); the shim turns this into cos(-theta), and
the carrier obligation is stated for exactly that term (cos is even, so this is cos(theta)).
"""

from __future__ import annotations

import itertools

import z3

from vc import array as A
from vc.core import SymBool, SymNum, Unsupported, ctx, ite, to_z3_real
from vc.harness import Task
from vc.obl import prove_arrays_equal, prove_pointwise, sym_bool, sym_int, sym_real

ID = "C41"
LEVEL = "proof"
TECHNIQUE = "symbolic execution of the real WaveCharacter / temporal-profile / window functions over symbolic reals; cos and exp as uninterpreted functions with range axioms; z3 (nonlinear real arithmetic) + exact ring normal form"
MODULES = ["fdtdx.core.wavelength", "fdtdx.objects.sources.profile", "fdtdx.core.window"]
FILES = ["src/fdtdx/core/wavelength.py", "src/fdtdx/objects/sources/profile.py", "src/fdtdx/core/window.py"]

MODES = ("period", "wavelength", "frequency")


def _cos_axioms(args, term, apps):
    yield term <= 1
    yield term >= -1


def _exp_axioms(args, term, apps):
    x = args[0]
    yield term > 0
    yield z3.Implies(x <= 0, term <= 1)
    yield z3.Implies(x >= 0, term >= 1)


AXIOMS = {"cos": [_cos_axioms], "sin": [_cos_axioms], "exp": [_exp_axioms]}


def _choose(name, options):
    options = list(options)
    if len(options) == 1:
        return options[0]
    v = sym_int(name, lo=0, hi=len(options) - 1)
    for k, o in enumerate(options[:-1]):
        if bool(v == k):
            return o
    return options[-1]


def _abs_le_one(v):
    return A._vand(v <= 1, v >= -1)


# ---------------------------------------------------------------------------------------
# WaveCharacter
# ---------------------------------------------------------------------------------------


def _wave_body(c, inp):
    from fdtdx import constants
    from fdtdx.core.wavelength import WaveCharacter

    given = {m: bool(sym_bool(f"given_{m}")) for m in MODES}
    inp.note("given", {m: int(g) for m, g in given.items()})
    lab = "".join(str(int(given[m])) for m in MODES)
    kw = {}
    for m in MODES:
        if given[m]:
            kw[m] = sym_real(m)
            c.assume((kw[m] != 0).z)
            inp.scalar(m, kw[m])
    phase = sym_real("phase_shift")
    c.cover(f"pre[{lab}]")
    _wave_body.state = (lab, sum(given.values()))
    w = WaveCharacter(phase_shift=phase, **kw)
    c.prove(f"WaveCharacter[{lab}]/post:constructed_only_with_exactly_one_quantity", sum(given.values()) == 1)
    if sum(given.values()) != 1:
        return
    P, F, L = w.get_period(), w.get_frequency(), w.get_wavelength()
    c.prove(f"WaveCharacter[{lab}]/post:period*frequency==1", A.v_eq(P * F, 1))
    c.prove(f"WaveCharacter[{lab}]/post:wavelength==c*period", A.v_eq(L, constants.c * P))
    c.prove(f"WaveCharacter[{lab}]/post:frequency*wavelength==c", A.v_eq(F * L, constants.c))
    (m,) = [m for m in MODES if given[m]]
    c.prove(f"WaveCharacter[{lab}]/post:given_{m}_returned_unchanged", A.v_eq({"period": P, "frequency": F, "wavelength": L}[m], kw[m]))
    c.prove(f"WaveCharacter[{lab}]/post:phase_shift_kept", A.v_eq(w.phase_shift, phase))


def _wave_exc(c, e):
    if isinstance(e, Unsupported):
        raise e
    lab, n = _wave_body.state
    c.prove(f"WaveCharacter[{lab}]/raises_only_unless_exactly_one_quantity", n != 1)


# ---------------------------------------------------------------------------------------
# CustomTimeSignalProfile
# ---------------------------------------------------------------------------------------


def _custom_body(mode):
    def body(c, inp):
        from fdtdx.objects.sources.profile import CustomTimeSignalProfile

        n = sym_int("n", lo=2)
        inp.scalar("n", n)
        sig = A.fresh_array("signal", (n,))
        inp.array("signal", sig)
        dt = sym_real("dt", lo_strict=0)
        start = sym_real("start")
        outside = sym_real("outside")
        for k, v in (("dt", dt), ("start", start), ("outside", outside)):
            inp.scalar(k, v)
        inp.note("interpolation", mode)
        prof = CustomTimeSignalProfile(signal=sig, time_step_duration=dt, start_time=start, interpolation=mode, outside_value=outside)
        m = sym_int("m", lo=1)
        time = A.fresh_array("time", (m,))
        inp.scalar("m", m)
        inp.array("time", time)
        c.cover("pre")
        amp = A.asarray(prof.get_amplitude(time, period=sym_real("period"), phase_shift=sym_real("phase")))
        c.prove("get_amplitude/post:shape", amp.ndim == 1 and A.v_eq(amp.shape[0], m))
        j = sym_int("j")
        inp.scalar("j", j)

        def x_of(idx):
            return (time.at_index(tuple(A._raw_index(i) for i in idx)) - start) / dt

        def sample(k):
            return sig.at_index((A._raw_index(k),))

        in_rng = A._vand(j >= 0, j < n)
        g = (A._raw_index(sym_int("g", lo=0)),)
        c.assume((SymNum(g[0]) < m).z)
        _cover_where(c, "where:sample_coordinate", A._vand(in_rng, A.v_eq(x_of(g), j)))
        _cover_where(c, "where:sample_time", A._vand(A._vand(in_rng, j >= 1), A.v_eq(time.at_index(g), start + j * dt)))
        _cover_where(c, "where:between", A._vand(A._vand(j >= 0, j + 1 < n), A._vand(x_of(g) > j, x_of(g) < j + 1)))
        _cover_where(c, "where:outside", A._vor(x_of(g) < 0, x_of(g) >= n))
        # exact at sample times (sample coordinate x == j)
        prove_pointwise("get_amplitude/post:exact_at_sample_coordinates", amp, lambda v, idx: A.v_eq(v, sample(j)), where=lambda idx: A._vand(in_rng, A.v_eq(x_of(idx), j)))
        # ... and the sample times start + j*dt are exactly those coordinates
        prove_pointwise("get_amplitude/post:exact_at_sample_times", amp, lambda v, idx: A.v_eq(v, sample(j)), where=lambda idx: A._vand(in_rng, A.v_eq(time.at_index(tuple(A._raw_index(i) for i in idx)), start + j * dt)))
        # outside the sampled window
        prove_pointwise("get_amplitude/post:outside_value_before_first_sample", amp, lambda v, idx: A.v_eq(v, outside), where=lambda idx: x_of(idx) < 0)
        prove_pointwise("get_amplitude/post:outside_value_after_window", amp, lambda v, idx: A.v_eq(v, outside), where=lambda idx: x_of(idx) >= n)
        if mode == "linear":
            both = A._vand(j >= 0, j + 1 < n)
            prove_pointwise(
                "get_amplitude/post:linear_between_samples",
                amp,
                lambda v, idx: A.v_eq(v, sample(j) + (x_of(idx) - j) * (sample(j + 1) - sample(j))),
                where=lambda idx: A._vand(both, A._vand(x_of(idx) >= j, x_of(idx) <= j + 1)),
            )

    return body


# ---------------------------------------------------------------------------------------
# ramp / continuous wave
# ---------------------------------------------------------------------------------------


def _ramp_spec(t, d):
    return ite(t <= 0, 0, ite(t >= d, 1, t / d))


def _ramp_body(c, inp):
    from fdtdx.core.window import linear_rampup

    d = sym_real("ramp_duration", lo_strict=0)
    m = sym_int("m", lo=1)
    time = A.fresh_array("time", (m,))
    inp.scalar("ramp_duration", d)
    inp.scalar("m", m)
    inp.array("time", time)
    c.cover("pre")
    r = A.asarray(linear_rampup(time, d))
    tt = lambda idx: time.at_index(tuple(A._raw_index(i) for i in idx))  # noqa: E731
    prove_pointwise("linear_rampup/post:piecewise_linear", r, lambda v, idx: A.v_eq(v, _ramp_spec(tt(idx), d)))
    prove_pointwise("linear_rampup/post:zero_until_0", r, lambda v, idx: A.v_eq(v, 0), where=lambda idx: tt(idx) <= 0)
    prove_pointwise("linear_rampup/post:one_after_ramp", r, lambda v, idx: A.v_eq(v, 1), where=lambda idx: tt(idx) >= d)
    prove_pointwise("linear_rampup/post:within_[0,1]", r, lambda v, idx: A._vand(v >= 0, v <= 1))
    # monotone: two generic indices
    i1, i2 = sym_int("i1", lo=0), sym_int("i2", lo=0)
    c.assume((i1 < m).z)
    c.assume((i2 < m).z)
    inp.scalar("i1", i1)
    inp.scalar("i2", i2)
    t1, t2 = time.at_index((i1.re,)), time.at_index((i2.re,))
    c.prove("linear_rampup/post:non_decreasing_in_time", A._vor(A._vnot(t1 <= t2), r.at_index((i1.re,)) <= r.at_index((i2.re,))))


def _cw_body(c, inp):
    import math

    from fdtdx.objects.sources.profile import SingleFrequencyProfile

    period = sym_real("period", lo_strict=0)
    nstart = sym_real("num_startup_periods", lo_strict=0)
    own_phase = sym_real("profile_phase")
    phase = sym_real("phase_shift")
    m = sym_int("m", lo=1)
    time = A.fresh_array("time", (m,))
    for k, v in (("period", period), ("num_startup_periods", nstart), ("profile_phase", own_phase), ("phase_shift", phase), ("m", m)):
        inp.scalar(k, v)
    inp.array("time", time)
    prof = SingleFrequencyProfile(phase_shift=own_phase, num_startup_periods=nstart)
    c.cover("pre")
    amp = A.asarray(prof.get_amplitude(time, period, phase))
    tt = lambda idx: time.at_index(tuple(A._raw_index(i) for i in idx))  # noqa: E731
    prove_pointwise("SingleFrequencyProfile.get_amplitude/post:|amplitude|<=1", amp, lambda v, idx: _abs_le_one(v))
    prove_pointwise("SingleFrequencyProfile.get_amplitude/post:zero_until_0", amp, lambda v, idx: A.v_eq(v, 0), where=lambda idx: tt(idx) <= 0)

    def carrier(idx):
        from vc.core import apply_uf

        th = 2 * math.pi * tt(idx) / period + phase + own_phase
        return apply_uf("cos", -th)

    prove_pointwise("SingleFrequencyProfile.get_amplitude/post:ramp_times_carrier", amp, lambda v, idx: A.v_eq(v, _ramp_spec(tt(idx), nstart * period) * carrier(idx)))
    prove_pointwise("SingleFrequencyProfile.get_amplitude/post:full_carrier_after_startup", amp, lambda v, idx: A.v_eq(v, carrier(idx)), where=lambda idx: tt(idx) >= nstart * period)


# ---------------------------------------------------------------------------------------
# Gaussian envelope / pulse
# ---------------------------------------------------------------------------------------


def _gauss_env_body(c, inp):
    from fdtdx.core.window import GaussianWindow, gaussian_envelope

    center = sym_real("center")
    sigma = sym_real("sigma")
    c.assume((sigma != 0).z)
    m = sym_int("m", lo=1)
    time = A.fresh_array("time", (m,))
    inp.scalar("center", center)
    inp.scalar("sigma", sigma)
    inp.scalar("m", m)
    inp.array("time", time)
    c.cover("pre")
    env = A.asarray(gaussian_envelope(time, center, sigma))
    prove_pointwise("gaussian_envelope/post:0<value<=1", env, lambda v, idx: A._vand(v > 0, v <= 1))


def _gauss_pulse_body(c, inp):
    from fdtdx.core.wavelength import WaveCharacter
    from fdtdx.objects.sources.profile import GaussianPulseProfile

    mw = _choose("width_mode", MODES)
    mc = _choose("center_mode", MODES)
    inp.note("modes", {"spectral_width": mw, "center_wave": mc})
    wv = sym_real("width_value")
    cv = sym_real("center_value")
    c.assume((wv != 0).z)
    c.assume((cv != 0).z)
    cphase = sym_real("center_phase")
    phase = sym_real("phase_shift")
    m = sym_int("m", lo=1)
    time = A.fresh_array("time", (m,))
    for k, v in (("width_value", wv), ("center_value", cv), ("center_phase", cphase), ("phase_shift", phase), ("m", m)):
        inp.scalar(k, v)
    inp.array("time", time)
    prof = GaussianPulseProfile(spectral_width=WaveCharacter(**{mw: wv}), center_wave=WaveCharacter(phase_shift=cphase, **{mc: cv}))
    c.cover(f"pre[{mw},{mc}]")
    amp = A.asarray(prof.get_amplitude(time, sym_real("period"), phase))
    prove_pointwise(f"GaussianPulseProfile.get_amplitude[{mw},{mc}]/post:|amplitude|<=1", amp, lambda v, idx: _abs_le_one(v))


def parts():
    return {
        "wave_character": Task(_wave_body, on_exception=_wave_exc),
        "custom_signal/linear": Task(_custom_body("linear")),
        "custom_signal/nearest": Task(_custom_body("nearest")),
        "ramp": Task(_ramp_body),
        "continuous_wave": Task(_cw_body),
        "gaussian_envelope": Task(_gauss_env_body),
        "gaussian_pulse": Task(_gauss_pulse_body),
    }


def _prefixed(c, prefix):
    """context manager: names of obligations / covers emitted through `c` get a prefix"""
    import contextlib

    @contextlib.contextmanager
    def cm():
        orig = (c.prove, c.cover)
        c.prove = lambda name, *a, **kw: orig[0](prefix + name, *a, **kw)
        c.cover = lambda name, *a, **kw: orig[1](prefix + name, *a, **kw)
        try:
            yield
        finally:
            c.prove, c.cover = orig

    return cm()


def _pack(ps):
    """all parts are cheap: they run as sub-sessions of ONE worker process (the first decision of the
    session selects the part, so decision paths form a tree); obligation names carry the part label"""
    ps = list(ps.items())
    st = {}

    def body(c, inp):
        label, task = ps[_choose("part", range(len(ps)))]
        st["cur"] = (label, task)
        inp.note("part", label)
        with _prefixed(c, label + "|"):
            task.body(c, inp)

    def on_exc(c, e):
        label, task = st["cur"]
        if task.on_exception is None:
            raise e
        with _prefixed(c, label + "|"):
            task.on_exception(c, e)

    return Task(body, on_exception=on_exc)


def tasks(tier, seed):
    return {"all": _pack(parts())}


def _cover_where(c, name, cond):
    """vacuity guard for a restricted index set: the restriction must be satisfiable"""
    from vc.core import zbool

    c.session.record_cover(name, c._check(zbool(cond)) != z3.unsat)


# ---------------------------------------------------------------------------------------
# replay: the contracts evaluated on the real code under real JAX (float64), witness values first
# ---------------------------------------------------------------------------------------


def _num(sc, k, default):
    v = sc.get(k)
    return float(v) if isinstance(v, (int, float)) and not isinstance(v, bool) else default


def _replay_wave(witness):
    import numpy as np

    from fdtdx import constants
    from fdtdx.core.wavelength import WaveCharacter

    sc = (witness or {}).get("scalars", {})
    rng = np.random.default_rng(0)
    for attempt in range(50):
        for pattern in itertools.product((0, 1), repeat=3):
            kw = {m: (_num(sc, m, 1.5) if attempt == 0 else float(rng.uniform(0.1, 5.0)) * 10.0 ** int(rng.integers(-15, 15))) for m, g in zip(MODES, pattern) if g}
            try:
                w = WaveCharacter(**kw)
            except Exception as e:  # noqa: BLE001
                if sum(pattern) == 1:
                    return True, f"WaveCharacter({kw}) raised {e!r}"
                continue
            if sum(pattern) != 1:
                return True, f"WaveCharacter({kw}) was accepted although {sum(pattern)} quantities are given"
            P, F, L = w.get_period(), w.get_frequency(), w.get_wavelength()
            errs = {"period*frequency-1": P * F - 1.0, "wavelength/(c*period)-1": L / (constants.c * P) - 1.0}
            (m,) = kw
            errs[f"{m} returned unchanged"] = {"period": P, "frequency": F, "wavelength": L}[m] / kw[m] - 1.0
            bad = {k: v for k, v in errs.items() if abs(v) > 1e-12}
            if bad:
                return True, f"WaveCharacter({kw}): period={P!r} frequency={F!r} wavelength={L!r}; relative errors {bad}"
    return False, "all three input modes consistent on 50 random values each (rel. 1e-12); invalid constructor patterns rejected"


def _replay_custom(witness, mode):
    import jax.numpy as jnp
    import numpy as np

    from fdtdx.objects.sources.profile import CustomTimeSignalProfile
    from vc.harness import witness_arrays_to_numpy

    sc = (witness or {}).get("scalars", {})
    wa = witness_arrays_to_numpy(witness or {})
    rng = np.random.default_rng(0)
    for attempt in range(20):
        if attempt == 0 and "signal" in wa and wa["signal"].ndim == 1 and 2 <= wa["signal"].shape[0] <= 4096:
            sig = wa["signal"]
            dt, start, outside = _num(sc, "dt", 0.5), _num(sc, "start", 0.25), _num(sc, "outside", -7.0)
        else:
            sig = rng.normal(size=int(rng.integers(2, 9)))
            dt, start, outside = float(rng.uniform(0.1, 2.0)), float(rng.normal()), float(rng.normal())
        if not dt > 0:
            dt = 0.5
        n = sig.shape[0]
        prof = CustomTimeSignalProfile(signal=jnp.asarray(sig), time_step_duration=dt, start_time=start, interpolation=mode, outside_value=outside)
        xs = np.concatenate([np.arange(n, dtype=float), rng.uniform(0, n - 1, size=12), np.array([-0.5, -3.0, n + 0.25, n + 5.0])])
        if attempt == 0 and "time" in wa and wa["time"].size:
            xs = np.concatenate([xs, (wa["time"].ravel()[:16] - start) / dt])
        xs = xs[np.isfinite(xs)]
        # keep away from floor() ties caused by rounding of (t-start)/dt, except at the exact sample coordinates
        times = start + xs * dt
        got = np.asarray(prof.get_amplitude(jnp.asarray(times), period=1.0))
        xr = (times - start) / dt
        for x, g in zip(xr, got):
            j = int(np.floor(x + 1e-9)) if abs(x - round(x)) < 1e-9 else int(np.floor(x))
            if abs(x - round(x)) < 1e-9 and 0 <= round(x) < n:
                exp = sig[int(round(x))]
            elif x < -1e-9 or x >= n + 1e-9:
                exp = outside
            elif mode == "linear" and 0 <= j and j + 1 < n:
                exp = sig[j] + (x - j) * (sig[j + 1] - sig[j])
            else:
                continue
            if abs(g - exp) > 1e-7 * (1 + abs(exp) + np.max(np.abs(sig))):
                return True, f"signal={sig.tolist()} dt={dt} start={start} outside={outside} mode={mode}: sample coordinate x={x!r} (t={start + x * dt!r}): real get_amplitude -> {g!r}, contract value {exp!r}"
    return False, "20 signals x (all sample times, random in-between points, outside points) agree with the contract"


def _replay_bounds(witness, what):
    import jax.numpy as jnp
    import numpy as np

    from fdtdx.core.wavelength import WaveCharacter
    from fdtdx.core.window import gaussian_envelope, linear_rampup
    from fdtdx.objects.sources.profile import GaussianPulseProfile, SingleFrequencyProfile

    sc = (witness or {}).get("scalars", {})
    rng = np.random.default_rng(0)
    tol = 1e-12
    for attempt in range(30):
        first = attempt == 0
        if what == "ramp":
            d = _num(sc, "ramp_duration", 2.0) if first else float(rng.uniform(0.1, 5))
            d = d if d > 0 else 2.0
            t = np.sort(np.concatenate([rng.uniform(-2 * d, 3 * d, size=40), [0.0, d, -d, 2 * d, d / 2]]))
            r = np.asarray(linear_rampup(jnp.asarray(t), d))
            exp = np.where(t <= 0, 0.0, np.where(t >= d, 1.0, t / d))
            if np.max(np.abs(r - exp)) > 1e-12 or np.any(np.diff(r) < -tol) or r.min() < -tol or r.max() > 1 + tol:
                k = int(np.argmax(np.abs(r - exp)))
                return True, f"linear_rampup(t={t[k]!r}, ramp_duration={d!r}) -> {r[k]!r}, contract value {exp[k]!r}; min={r.min()!r} max={r.max()!r} monotone={bool(np.all(np.diff(r) >= -tol))}"
        elif what == "cw":
            period = _num(sc, "period", 1.3) if first else float(rng.uniform(0.2, 3))
            period = period if period > 0 else 1.3
            ns = _num(sc, "num_startup_periods", 4.0) if first else float(rng.integers(1, 7))
            ns = ns if ns > 0 else 4.0
            ph0 = _num(sc, "profile_phase", np.pi) if first else float(rng.uniform(-4, 4))
            ph = _num(sc, "phase_shift", 0.3) if first else float(rng.uniform(-4, 4))
            t = np.concatenate([rng.uniform(-period, 3 * ns * period, size=200), [0.0, ns * period]])
            a = np.asarray(SingleFrequencyProfile(phase_shift=ph0, num_startup_periods=ns).get_amplitude(jnp.asarray(t), period, ph))
            exp = np.clip(t / (ns * period), 0, 1) * np.cos(2 * np.pi * t / period + ph + ph0)
            if np.max(np.abs(a)) > 1 + tol or np.max(np.abs(a - exp)) > 1e-9:
                k = int(np.argmax(np.abs(a - exp))) if np.max(np.abs(a - exp)) > 1e-9 else int(np.argmax(np.abs(a)))
                return True, f"SingleFrequencyProfile(phase_shift={ph0}, num_startup_periods={ns}).get_amplitude(t={t[k]!r}, period={period}, phase_shift={ph}) -> {a[k]!r}; ramp*carrier = {exp[k]!r}; max|amplitude| = {np.max(np.abs(a))!r}"
        elif what == "gauss_env":
            cen = _num(sc, "center", 1.0) if first else float(rng.normal())
            sig = _num(sc, "sigma", 0.7) if first else float(rng.uniform(0.05, 3)) * float(rng.choice([-1, 1]))
            sig = sig if sig != 0 else 0.7
            t = np.concatenate([rng.uniform(cen - 6 * abs(sig), cen + 6 * abs(sig), size=200), [cen]])
            e = np.asarray(gaussian_envelope(jnp.asarray(t), cen, sig))
            if e.max() > 1 + tol or e.min() < 0 or not np.all(np.isfinite(e)):
                k = int(np.argmax(e))
                return True, f"gaussian_envelope(t={t[k]!r}, center={cen}, sigma={sig}) -> {e[k]!r} (must be in (0, 1])"
        else:
            modes = (witness or {}).get("notes", {}).get("modes") or {}
            mw = modes.get("spectral_width", MODES[attempt % 3])
            mc = modes.get("center_wave", MODES[(attempt // 3) % 3])
            vals = {"period": 3e-15, "wavelength": 1e-6, "frequency": 3e14}
            wv = vals[mw] * float(rng.uniform(2, 20) if mw != "frequency" else rng.uniform(0.05, 0.5))
            cv = vals[mc] * float(rng.uniform(0.5, 2))
            prof = GaussianPulseProfile(spectral_width=WaveCharacter(**{mw: wv}), center_wave=WaveCharacter(phase_shift=float(rng.uniform(-3, 3)), **{mc: cv}))
            sigma_t = 1.0 / (2 * np.pi * prof.spectral_width.get_frequency())
            t = np.concatenate([rng.uniform(-2 * sigma_t, 14 * sigma_t, size=400), [6 * sigma_t]])
            a = np.asarray(prof.get_amplitude(jnp.asarray(t), 1.0, float(rng.uniform(-3, 3))))
            if np.max(np.abs(a)) > 1 + tol or not np.all(np.isfinite(a)):
                k = int(np.argmax(np.abs(a)))
                return True, f"GaussianPulseProfile(spectral_width {mw}={wv}, center_wave {mc}={cv}).get_amplitude(t={t[k]!r}) -> {a[k]!r}, exceeds unit amplitude"
    return False, f"{what}: 30 random parameter sets on the real code satisfy the contract"


def replay(key, obligation, witness):
    part = obligation.split("|", 1)[0] if "|" in obligation else ((witness or {}).get("notes", {}).get("part") or key)
    if part == "wave_character":
        return _replay_wave(witness)
    if part.startswith("custom_signal/"):
        return _replay_custom(witness, part.split("/")[1])
    return _replay_bounds(witness, {"ramp": "ramp", "continuous_wave": "cw", "gaussian_envelope": "gauss_env", "gaussian_pulse": "gauss_pulse"}.get(part, "ramp"))


FUNCTIONS = [
    "fdtdx.core.wavelength.WaveCharacter.__post_init__/_check_input/get_period/get_frequency/get_wavelength",
    "fdtdx.objects.sources.profile.CustomTimeSignalProfile.__post_init__/get_amplitude (linear and nearest)",
    "fdtdx.objects.sources.profile.SingleFrequencyProfile.get_amplitude",
    "fdtdx.objects.sources.profile.GaussianPulseProfile.__post_init__/get_amplitude",
    "fdtdx.core.window.linear_rampup",
    "fdtdx.core.window.gaussian_envelope",
]
INLINED = ["TreeClass construction (pytreeclass autoinit)", "jnp.clip / jnp.floor / jnp.where / integer-array indexing (vc shims)"]
STUBS = ["cos, exp: uninterpreted functions with the axioms -1 <= cos(x) <= 1, exp(x) > 0, x <= 0 ==> exp(x) <= 1, x >= 0 ==> exp(x) >= 1"]
ASSUMPTIONS = [
    "precondition: the given wave quantity is non-zero (the property's identities divide by it)",
    "precondition: custom signal has n >= 2 samples and time_step_duration > 0 (enforced by the constructor); sample coordinate x = (t - start)/dt over the reals: 'exactly at its sample times' is exact real arithmetic, floating-point rounding of (t - start)/dt is not modelled",
    "beyond the last sample (n-1 < x < n) the code holds the last sample; the property makes no claim there and none is checked",
    "precondition: period > 0 and num_startup_periods > 0 for the continuous-wave ramp (ramp duration > 0)",
    "precondition: Gaussian sigma != 0, i.e. spectral width quantity non-zero",
    "trigonometric/exponential functions enter only through their range axioms (trusted mathematical facts)",
]
MIN_OBLIGATIONS = {"quick": 50, "thorough": 50}
LEVEL_TEXT = (
    "Deductive proof over all real parameter values, all signal lengths n >= 2, all signals and all query times: the three WaveCharacter input modes satisfy period*frequency = 1 and "
    "wavelength = c*period (invalid constructor patterns raise); the real CustomTimeSignalProfile.get_amplitude returns signal[j] at sample coordinate j, the linear interpolant between "
    "neighbouring samples and the outside value outside the window; linear_rampup is the clamped linear ramp (monotone, within [0,1]); the continuous-wave amplitude is ramp x carrier and "
    "bounded by 1; the Gaussian envelope lies in (0,1] and the Gaussian pulse amplitude is bounded by 1 for all 3x3 wave-description modes"
)
LEVEL_NOTE = "real arithmetic (no IEEE rounding); cos/exp abstracted by range axioms; preconditions: non-zero wave quantity, dt > 0, ramp duration > 0, sigma != 0"
