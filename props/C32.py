"""C32  Symmetry unfolding is consistent.

Contracts (specification side written from the property text / the documented physics, never
from the code):

  parity table      electric (-1) plane normal to a: tangential E and normal H odd, normal E and
                    tangential H even; magnetic (+1) plane: the opposite.
  Yee offsets       E_c is half a cell off along c only; H_c is half a cell off along the two axes
                    other than c.  A component "sits on" a plane normal to a iff its offset along a
                    is 0.  An electric plane lies on the reduced min edge (integer position 0), a
                    magnetic plane half a cell below it, so the m+-j map applies iff the wall is
                    electric AND the component sits on the plane; everything else is a plain flip.
                    Detector records co-located at the E_z Yee point (i, j, k+1/2) sit on electric
                    x/y planes; raw (non-interpolated) records use the plain flip (documented).
  unfold(X)         for every symmetric axis (extent n, plane at full index m = n):
                      full[m + i]     = X[i]                        0 <= i < n      (upper half)
                      full[m - 1 - i] = p * X[i]                    plain flip
                      full[m - i]     = p * X[i]   (1 <= i < n),  full[0] = full[1]   m+-j map
                    with p the parity of the component; several axes compose.
  reduce_volume     unfold(reduce(S)) == reduce(unfold(S)) whenever no stored sample sits on a plane.

The finite tables are enumerated exhaustively (that is a proof); the array contracts are proved
pointwise for symbolic extents and symbolic values on the REAL functions; every symmetry tuple /
straddle mask / detector kind is a separate enumerated configuration.

Every configuration is described by a plain `cfg` dict and a generator `_GEN[cfg['fn']](cfg, mk)`
yielding (name, got, spec, where) items.  With the symbolic factory the items become obligations;
with the concrete factory (real jnp arrays, real JAX, no shims) the very same generator is the
replay of a refutation on the real code.
"""

from __future__ import annotations

import itertools
import random

from vc import array as A
from vc import scene
from vc.array import SymArray
from vc.core import ite, v_eq
from vc.harness import Task
from vc.obl import prove_arrays_equal, sym_int, sym_real

ID = "C32"
LEVEL = "proof"
TECHNIQUE = "exhaustive enumeration of the finite parity/index-map tables against the documented table; symbolic execution of the real mirror/unfold functions over symbolic extents and values with pointwise obligations against an explicit mirror-map specification; z3"
MODULES = ["fdtdx.fdtd.symmetry", "fdtdx.core.physics.symmetry", "fdtdx.objects.detectors.detector"]
FILES = ["src/fdtdx/fdtd/symmetry.py", "src/fdtdx/core/physics/symmetry.py", "src/fdtdx/objects/object.py", "src/fdtdx/objects/detectors/detector.py"]
FUNCTIONS = [
    "fdtdx.core.physics.symmetry.field_component_parity",
    "fdtdx.core.physics.symmetry.component_sits_on_plane",
    "fdtdx.core.physics.symmetry.mirror_pairs_on_plane",
    "fdtdx.core.physics.symmetry.mirror_extend_low_side",
    "fdtdx.core.physics.symmetry.mirror_about_interior_plane",
    "fdtdx.core.physics.symmetry.restrict_to_kept_half",
    "fdtdx.fdtd.symmetry.unfold_fields",
    "fdtdx.fdtd.symmetry.unfold_array",
    "fdtdx.fdtd.symmetry.unfold_detector_states",
    "fdtdx.fdtd.symmetry._unfold_one_detector / _unfold_poynting / _unfold_energy_slices",
    "fdtdx.fdtd.symmetry._poynting_parity",
]
INLINED = [
    "fdtdx.core.physics.symmetry._slice_axis",
    "fdtdx.fdtd.symmetry._check_has_symmetry / _colocated_on_plane_axes / _stored_component_spec / _component_signs / _reduce_factor",
    "fdtdx.objects.object.SimulationObject.straddles_symmetry_plane / unreduced_grid_slice_tuple",
    "fdtdx.objects.detectors.detector.Detector._volume_weighted_spatial_mean (the reduction of Field/Phasor detectors, run for real on both sides of the commutation clause)",
]
STUBS = []
ASSUMPTIONS = [
    "reduced extents: n >= 1 cell on every axis; on an axis where a stored sample sits ON an electric plane (m+-j map) the general tasks assume n >= 2 and the 1-cell case is the separate task 'edge_one_cell' (same contract: axis doubled, kept half == input; the value of the single filled cell is left unconstrained)",
    "detector index map taken from the documentation: exact_interpolation records are co-located at the E_z Yee point (on-plane for electric x/y planes), raw staggered records use the plain flip",
    "reduce_volume clause: the reduction is the detector's own (volume-weighted mean for Field/Phasor through the real _volume_weighted_spatial_mean, weighted sum for Energy/Poynting) with a uniform positive cell weight (symbolic); proved end-to-end for symbolic values on the enumerated reduced shapes REDUCE_SHAPES, and for symbolic extents as the per-cell lemma 'a cell and its 2^k mirror images add up to K*factor*S[i]'; passing from that lemma to the sums is the re-indexing of a finite sum by the reflection bijection (not mechanised here)",
    "configuration space: symmetry tuples {-1,0,1}^3 minus 0 (26) x straddle masks (8); quick tier = one (symmetry, mask) pair per 'touched' class (27 classes, which is all the unfolding depends on) and a stated sample of component subsets; thorough tier = all 208 pairs and all 63 component subsets",
    "detector kinds covered: FieldDetector, PhasorDetector, EnergyDetector (spatial / as_slices / reduce_volume), PoyntingFluxDetector (scalar / all components, spatial / summed), ModeOverlapDetector (raw stored phasor, unfolded by the PhasorDetector branch), DiffractiveDetector (documented NotImplementedError); other detector classes raise the documented NotImplementedError and are not exercised",
]
MIN_OBLIGATIONS = {"quick": 8000, "thorough": 300000}
LEVEL_TEXT = "Deductive proof, for all array values and all extents (symbolic), that the real mirror helpers, unfold_fields, unfold_array and unfold_detector_states produce exactly the documented full-domain array (kept half == input, mirrored half == parity * input at the documented m+-j / flip index) for every symmetry tuple, straddle mask, detector kind and enumerated component subset; parity and index-map tables checked exhaustively against the physical table"
LEVEL_NOTE = "real arithmetic; the summation clause (reduce_volume) is proved per enumerated small shape plus a symbolic-extent per-cell lemma, the finite-sum re-indexing between the two is not mechanised; quick tier covers a stated subset of the configuration space"

FIELD_TYPES = ("E", "H")
WALLS = (-1, 1)
ALL_SYM = [s for s in itertools.product((-1, 0, 1), repeat=3) if any(s)]
COMPONENT_NAMES = ("Ex", "Ey", "Ez", "Hx", "Hy", "Hz")
REDUCE_SHAPES = {"quick": [(2, 1, 3), (1, 2, 2)], "thorough": [(1, 1, 1), (2, 1, 3), (1, 2, 2), (3, 2, 1), (2, 2, 2), (1, 3, 1)]}


# ---------------------------------------------------------------------------------------
# specification (from the property text and the documented physics; independent of the code)
# ---------------------------------------------------------------------------------------


def spec_parity(field_type, component, axis, wall):
    """electric plane: tangential E / normal H odd; magnetic plane: tangential H / normal E odd"""
    tangential = component != axis
    if wall == -1:
        odd = tangential if field_type == "E" else not tangential
    elif wall == 1:
        odd = tangential if field_type == "H" else not tangential
    else:
        raise AssertionError("spec_parity: wall must be -1 or +1")
    return -1 if odd else 1


def spec_yee_half_offset(field_type, component, axis):
    """Yee staggering: is the component half a cell off the integer grid along `axis`?"""
    if field_type == "E":
        return axis == component
    return axis != component


def spec_sits_on_plane(field_type, component, axis):
    return not spec_yee_half_offset(field_type, component, axis)


def spec_pairs_on_plane(field_type, component, axis, wall):
    """m+-j map iff the plane is electric (it lies on the integer row at the min edge) and the
    component is sampled at integer positions along the axis"""
    return wall == -1 and spec_sits_on_plane(field_type, component, axis)


def spec_poynting_parity(component, axis, wall):
    """S = E x H is a polar vector: its normal component is odd, the tangential ones even,
    for either wall kind"""
    del wall
    return -1 if component == axis else 1


def spec_colocated_on_plane(exact_interpolation, axis, wall):
    """detector samples co-located at the E_z Yee point (i, j, k+1/2): integer along x and y;
    without exact interpolation the documented map is the plain flip"""
    return bool(exact_interpolation) and wall == -1 and axis in (0, 1)


def _sel(cond, a, b):
    if isinstance(cond, bool):
        return a if cond else b
    return ite(cond, a, b)


def spec_source(i, n, on_plane):
    """full-axis index i (0 <= i < 2n) -> (is_upper_half, source index in the kept half)"""
    upper = i >= n
    if on_plane:
        low = _sel(i >= 1, n - i, n - 1)  # m-j <-> m+j ; the outermost cell repeats its neighbour
    else:
        low = n - 1 - i  # plain flip
    return upper, _sel(upper, i - n, low)


def spec_unfold(X, plan):
    """plan: {array_axis: (sign_fn(src_idx) -> +-1 or value, on_plane)}.  The explicit full-domain
    array of the contract in the module docstring."""
    X = A.asarray(X)
    shape = tuple((2 * d) if k in plan else d for k, d in enumerate(X.shape))

    def fn(idx):
        src = list(idx)
        ups = []
        for k, (_, on_plane) in plan.items():
            upper, s = spec_source(A._wrap_idx(idx[k]), X.shape[k], on_plane)
            src[k] = A._raw_index(s)
            ups.append((k, upper))
        v = X.at_index(tuple(src))
        for k, upper in ups:
            sg = plan[k][0](tuple(src))
            if A._is_pyint(sg) and sg == 1:
                continue
            v = _sel(upper, v, sg * v)
        return v

    return SymArray(shape, fn, X.kind)


def stored_components(components):
    """canonical stacking order Ex,Ey,Ez,Hx,Hy,Hz of Field/Phasor detectors"""
    return [(n[0], "xyz".index(n[1])) for n in COMPONENT_NAMES if n in components]


# ---------------------------------------------------------------------------------------
# input factories: symbolic (obligations) / concrete (replay on the real code under real JAX)
# ---------------------------------------------------------------------------------------


class _SymFactory:
    symbolic = True

    def __init__(self, inp):
        self.inp = inp

    def int(self, name, lo=None, hi=None, register=True):
        v = sym_int(name, lo=lo, hi=hi)
        if register:
            self.inp.scalar(name, v)
        return v

    def arr(self, name, shape, kind="real", register=True):
        a = A.fresh_array(name, shape, kind)
        if register:
            self.inp.array(name, a)
        return a

    def pos_real(self, name):
        return sym_real(name, lo_strict=0)

    def full(self, shape, v):
        return A.full(shape, v)

    def ones(self, shape):
        return A.ones(shape)

    def zeros(self, shape):
        return A.zeros(shape)

    def scalar(self, v):
        return A.asarray(v)


class _ConcreteFactory:
    """real jnp arrays with seeded random data; integer inputs from the witness when sane"""

    symbolic = False

    def __init__(self, rng, scalars=None):
        self.rng = rng
        self.scalars = scalars or {}

    def int(self, name, lo=None, hi=None, register=True):
        v = self.scalars.get(name)
        if isinstance(v, int) and not isinstance(v, bool) and (lo is None or v >= lo) and (hi is None or v <= hi) and abs(v) <= 6:
            return v
        if lo is not None:
            return int(self.rng.integers(lo, lo + 3))
        if hi is not None:
            return int(self.rng.integers(hi - 2, hi + 1))
        return int(self.rng.integers(0, 3))

    def arr(self, name, shape, kind="real", register=True):
        import jax.numpy as jnp

        shape = tuple(int(d) for d in shape)
        a = self.rng.normal(size=shape)
        if kind == "complex":
            a = a + 1j * self.rng.normal(size=shape)
        return jnp.asarray(a)

    def pos_real(self, name):
        return float(self.rng.uniform(0.5, 2.0))

    def full(self, shape, v):
        import jax.numpy as jnp

        return jnp.full(tuple(int(d) for d in shape), v)

    def ones(self, shape):
        return self.full(shape, 1.0)

    def zeros(self, shape):
        return self.full(shape, 0.0)

    def scalar(self, v):
        import jax.numpy as jnp

        return jnp.asarray(v)


def _shape_of(x):
    return tuple(x.shape)


# ---------------------------------------------------------------------------------------
# A. finite tables, exhaustively
# ---------------------------------------------------------------------------------------


def _raises(exc, f, *a, **k):
    try:
        f(*a, **k)
    except exc:
        return True
    return False


def _gen_tables(cfg, mk):
    import fdtdx.core.physics.symmetry as P
    import fdtdx.fdtd.symmetry as S

    for ft in FIELD_TYPES:
        for comp in range(3):
            for ax in range(3):
                yield f"component_sits_on_plane({ft},{comp},{ax})", bool(P.component_sits_on_plane(ft, comp, ax)) == spec_sits_on_plane(ft, comp, ax), None, None
                for wall in WALLS:
                    got = P.field_component_parity(ft, comp, ax, wall)
                    yield f"field_component_parity({ft},{comp},{ax},{wall:+d})", got == spec_parity(ft, comp, ax, wall), None, None
                    yield f"mirror_pairs_on_plane({ft},{comp},{ax},{wall:+d})", bool(P.mirror_pairs_on_plane(ft, comp, ax, wall)) == spec_pairs_on_plane(ft, comp, ax, wall), None, None
                    # the table re-exported by the user-facing module
                    yield f"fdtd.symmetry.field_component_parity({ft},{comp},{ax},{wall:+d})", S.field_component_parity(ft, comp, ax, wall) == spec_parity(ft, comp, ax, wall), None, None
    for comp in range(3):
        for ax in range(3):
            for wall in WALLS:
                yield f"_poynting_parity({comp},{ax},{wall:+d})", S._poynting_parity(comp, ax, wall) == spec_poynting_parity(comp, ax, wall), None, None
    # documented error behaviour
    for ft in FIELD_TYPES:
        for wall in (0, 2, -2):
            yield f"field_component_parity({ft},wall={wall}) raises ValueError", _raises(ValueError, P.field_component_parity, ft, 0, 0, wall), None, None
    for bad in ("B", "e", ""):
        yield f"component_sits_on_plane(field_type={bad!r}) raises ValueError", _raises(ValueError, P.component_sits_on_plane, bad, 0, 0), None, None
    F = mk.zeros((3, 2, 2, 2))
    yield "unfold_fields(symmetry=(0,0,0)) raises ValueError", _raises(ValueError, S.unfold_fields, F, (0, 0, 0), "E"), None, None
    yield "unfold_fields(field_type='B') raises ValueError", _raises(ValueError, S.unfold_fields, F, (0, -1, 0), "B"), None, None
    yield "unfold_array(symmetry=(0,0,0)) raises ValueError", _raises(ValueError, S.unfold_array, F, (0, 0, 0), (1, 2, 3)), None, None
    cfg0 = _real_config((0, 0, 0))
    det = _place_detector(_make_detector("energy", {"mode": "spatial"}), (2, 2, 2), (0, 0, 0), cfg0)
    yield "unfold_detector_states(symmetry=(0,0,0)) raises ValueError", _raises(ValueError, _unfold_states, [(det, {"energy": mk.zeros((1, 2, 2, 2))})], cfg0, mk), None, None


# ---------------------------------------------------------------------------------------
# B. mirror helpers, symbolic extents
# ---------------------------------------------------------------------------------------


def _gen_low_side(cfg, mk):
    import fdtdx.core.physics.symmetry as P

    axis, parity, on_plane = cfg["axis"], cfg["parity"], cfg["on_plane"]
    dims = [mk.int(f"d{k}", lo=2 if (on_plane and k == axis) else 1) for k in range(4)]
    X = mk.arr("X", tuple(dims))
    low = P.mirror_extend_low_side(X, axis=axis, parity=parity, on_plane=on_plane)
    XS = A.asarray(X)
    n = dims[axis]

    def spec_fn(idx):
        _, s = spec_source(A._wrap_idx(idx[axis]), n, on_plane)  # low block = full indices 0..n-1
        src = list(idx)
        src[axis] = A._raw_index(s)
        return parity * XS.at_index(tuple(src))

    yield f"mirror_extend_low_side(axis={axis},parity={parity:+d},on_plane={on_plane})/post", low, SymArray(tuple(dims), spec_fn, "real"), None


def _gen_interior(cfg, mk):
    import fdtdx.core.physics.symmetry as P

    axis, on_plane = cfg["axis"], cfg["on_plane"]
    dims = [mk.int(f"d{k}", lo=1) for k in range(4)]
    n = dims[axis]
    full_dims = list(dims)
    full_dims[axis] = 2 * n
    X = mk.arr("X", tuple(full_dims))
    out = P.mirror_about_interior_plane(X, axis, on_plane)
    XS = A.asarray(X)

    def spec_fn(idx):
        i = A._wrap_idx(idx[axis])
        if on_plane:
            s = _sel(i >= 1, 2 * n - i, 0)  # n-j <-> n+j; index 0 has no partner and is kept
        else:
            s = 2 * n - 1 - i
        src = list(idx)
        src[axis] = A._raw_index(s)
        return XS.at_index(tuple(src))

    yield f"mirror_about_interior_plane(axis={axis},on_plane={on_plane})/post", out, SymArray(tuple(full_dims), spec_fn, "real"), None


def _gen_restrict(cfg, mk):
    import fdtdx.core.physics.symmetry as P

    lead, axes = cfg["lead"], tuple(cfg["axes"])
    dims = [mk.int(f"d{k}", lo=1) for k in range(lead + 3)]
    full_dims = [2 * d if (k - lead) in axes else d for k, d in enumerate(dims)]
    X = mk.arr("X", tuple(full_dims))
    out = P.restrict_to_kept_half(X, axes)
    XS = A.asarray(X)

    def spec_fn(idx):
        src = [A._raw_index(A._wrap_idx(i) + dims[k]) if (k - lead) in axes else i for k, i in enumerate(idx)]
        return XS.at_index(tuple(src))

    yield f"restrict_to_kept_half(rank={lead + 3},axes={axes})/post", out, SymArray(tuple(dims), spec_fn, "real"), None


# ---------------------------------------------------------------------------------------
# C. unfold_fields
# ---------------------------------------------------------------------------------------


def _gen_unfold_fields(cfg, mk):
    import fdtdx.core.physics.symmetry as P
    import fdtdx.fdtd.symmetry as S

    sym, field_type = tuple(cfg["symmetry"]), cfg["field_type"]
    # >= 2 cells where a component sits on an electric plane (1-cell case: edge task)
    dims = tuple(mk.int("n" + "xyz"[a], lo=2 if sym[a] == -1 else 1) for a in range(3))
    F = mk.arr("F", (3, *dims))
    full = S.unfold_fields(F, sym, field_type)
    sym_axes = tuple(a for a in range(3) if sym[a] != 0)
    pre = f"unfold_fields[{field_type}]/post:"
    yield pre + "rank", len(full.shape) == 4 and full.shape[0] == 3, None, None
    for a in range(3):
        yield pre + f"shape[{a + 1}]", v_eq(full.shape[a + 1], 2 * dims[a] if sym[a] else dims[a]), None, None
    # explicit mirror map + parity (spec tables, not the code's)
    for comp in range(3):
        plan = {a + 1: ((lambda src, p=spec_parity(field_type, comp, a, sym[a]): p), spec_pairs_on_plane(field_type, comp, a, sym[a])) for a in sym_axes}
        yield pre + f"parity_and_index_map[{'xyz'[comp]}]", full[comp : comp + 1], spec_unfold(F[comp : comp + 1], plan), None
    # keeping the upper half returns the original (real restrict_to_kept_half)
    yield pre + "kept_half_is_input", P.restrict_to_kept_half(full, sym_axes), F, None
    # the unfolded field is a parity eigenfunction of the interior-plane mirror (the map used by
    # project_onto_parity for mode profiles), cell by cell wherever a partner exists
    for a in sym_axes:
        for comp in range(3):
            p = spec_parity(field_type, comp, a, sym[a])
            onp = spec_pairs_on_plane(field_type, comp, a, sym[a])
            single = full[comp : comp + 1]
            mir = P.mirror_about_interior_plane(single, a + 1, onp)
            n = dims[a]

            def where(idx, a=a, onp=onp, p=p, n=n):
                if not onp:
                    return True
                i = idx[a + 1]
                w = i >= 1  # index 0 has no partner
                if p == -1:
                    w = A._vand(w, A._vnot(v_eq(i, n)))  # the plane row is its own mirror
                return w

            yield pre + f"mirror_eigen[{'xyz'[comp]},axis={a}]", single, p * mir, where


def _eq_true(a, b):
    """a == b as a provable fact (symbolic) or a plain comparison (concrete)"""
    from vc.core import ctx, have_ctx

    e = v_eq(a, b)
    if isinstance(e, bool):
        return e
    return have_ctx() and ctx().implied(e)


# ---------------------------------------------------------------------------------------
# D. unfold_array (generic building block of the detector unfolding)
# ---------------------------------------------------------------------------------------


def _gen_unfold_array(cfg, mk):
    """layout: 'TCxyz' (signs per component), 'Txyz' (scalar signs), 'zTyCx' (permuted axes)"""
    import fdtdx.fdtd.symmetry as S

    sym, on_plane_axes, layout = tuple(cfg["symmetry"]), tuple(cfg["on_plane_axes"]), cfg["layout"]
    dims = tuple(mk.int("n" + "xyz"[a], lo=2 if a in on_plane_axes else 1) for a in range(3))
    T = mk.int("T", lo=1)
    C = mk.int("C", lo=1)
    if layout == "TCxyz":
        shape, spatial, comp_axis = (T, C, *dims), (2, 3, 4), 1
    elif layout == "Txyz":
        shape, spatial, comp_axis = (T, *dims), (1, 2, 3), None
    else:
        shape, spatial, comp_axis = (dims[2], T, dims[1], C, dims[0]), (4, 2, 0), 3
    X = mk.arr("X", shape)
    # sign arrays: the first symmetric axis gets an arbitrary broadcastable sign array, the second
    # a concrete -1, the third none (default +1); keeps the obligations linear
    signs = {}
    for rank, a in enumerate(a for a in range(3) if sym[a] != 0):
        if rank == 0:
            if comp_axis is None:
                signs[a] = mk.arr(f"sign{a}", ())
            else:
                sshape = [1] * len(shape)
                sshape[comp_axis] = C
                signs[a] = mk.arr(f"sign{a}", tuple(sshape))
        elif rank == 1:
            signs[a] = mk.scalar(-1.0)
    out = S.unfold_array(X, sym, spatial, signs if signs else None, on_plane_axes)
    sign_arrs = {a: A.asarray(v) for a, v in signs.items()}
    plan = {}
    for a in range(3):
        if sym[a] == 0:
            continue

        def sign_fn(src, a=a):
            if a not in sign_arrs:
                return 1
            if sign_arrs[a].ndim == 0:
                return sign_arrs[a].at_index(())
            return sign_arrs[a].at_index(tuple(src[k] if k == comp_axis else 0 for k in range(len(shape))))

        plan[spatial[a]] = (sign_fn, a in on_plane_axes)
    yield f"unfold_array[{layout},on={list(on_plane_axes)}]/post:mirror_concat", out, spec_unfold(X, plan), None


# ---------------------------------------------------------------------------------------
# E. detectors through the public unfold_detector_states
# ---------------------------------------------------------------------------------------


def _touched(sym, straddle):
    return tuple(sym[a] if straddle[a] else 0 for a in range(3))


def _make_detector(kind, opts, name="det"):
    import fdtdx
    from fdtdx.core.wavelength import WaveCharacter

    exact = opts.get("exact", True)
    if kind == "field":
        return fdtdx.FieldDetector(name=name, components=tuple(opts["components"]), reduce_volume=opts.get("reduce", False), exact_interpolation=exact, plot=False)
    if kind == "phasor":
        wcs = (WaveCharacter(wavelength=1e-6), WaveCharacter(wavelength=1.5e-6))
        return fdtdx.PhasorDetector(name=name, wave_characters=wcs, components=tuple(opts["components"]), reduce_volume=opts.get("reduce", False), exact_interpolation=exact, plot=False)
    if kind == "modeoverlap":  # a PhasorDetector subclass: all six components, one frequency here
        return fdtdx.ModeOverlapDetector(name=name, wave_characters=(WaveCharacter(wavelength=1e-6),), direction="+", exact_interpolation=exact)
    if kind == "energy":
        return fdtdx.EnergyDetector(name=name, as_slices=opts.get("mode") == "slices", reduce_volume=opts.get("mode") == "reduced", exact_interpolation=exact, plot=False)
    if kind == "poynting":
        return fdtdx.PoyntingFluxDetector(name=name, direction=opts.get("direction", "+"), reduce_volume=opts.get("reduce", False), keep_all_components=opts.get("keep_all", False), fixed_propagation_axis=opts.get("prop", 0), exact_interpolation=exact, plot=False)
    if kind == "diffractive":
        from fdtdx.objects.detectors.diffractive import DiffractiveDetector

        return DiffractiveDetector(name=name, frequencies=(3e14,), direction="+", plot=False)
    raise AssertionError(kind)


def _place_detector(det, dims, straddle, cfg, starts=None, lows=None):
    """placed (clipped) slice [s, s+n) on every axis; on straddled axes the clipped slice starts at
    the plane (0) and the unreduced slice starts at an arbitrary negative index"""
    sl, un = [], []
    for a in range(3):
        if straddle[a]:
            lo = lows[a] if lows is not None else -1
            sl.append((0, dims[a]))
            un.append((lo, dims[a]))
        else:
            st = starts[a] if starts is not None else 0
            sl.append((st, st + dims[a]))
            un.append((st, st + dims[a]))
    det = scene._place(det, tuple(sl), cfg)
    return det.aset("_unreduced_grid_slice_tuple", tuple(un))


def _real_config(sym):
    from fdtdx.config import SimulationConfig
    from fdtdx.core.grid import UniformGrid

    return SimulationConfig(time=1e-15, grid=UniformGrid(spacing=1.0), backend="cpu", symmetry=tuple(sym))


def _container(dets_states, cfg, mk, extra_states=None):
    from fdtdx.fdtd.container import ArrayContainer, FieldState, ObjectContainer

    vol = scene.real_volume((4, 4, 4), cfg)
    objs = ObjectContainer(object_list=[vol, *[d for d, _ in dets_states]], volume_idx=0)
    z = mk.zeros((3, 1, 1, 1))
    states = {d.name: st for d, st in dets_states}
    states.update(extra_states or {})
    arrays = ArrayContainer(fields=FieldState(E=z, H=z, psi_E={}, psi_H={}), inv_permittivities=z, inv_permeabilities=1.0, detector_states=states, recording_state=None)
    return arrays, objs, z


def _unfold_states(dets_states, cfg, mk):
    """run the REAL unfold_detector_states on a container holding the given detectors/states"""
    import fdtdx.fdtd.symmetry as S

    arrays, objs, _ = _container(dets_states, cfg, mk)
    return S.unfold_detector_states(arrays, objs, cfg).detector_states


def _detector_state_and_spec(kind, opts, dims, touched, T, mk):
    """fresh spatial record of the documented shape and the unfolded record the contract demands:
    -> (state dict, {key: spec array})"""
    exact = opts.get("exact", True)
    axes = [a for a in range(3) if touched[a]]

    def plan_for(spatial, sign_of):
        return {spatial[a]: ((lambda src, a=a: sign_of(src, a)), spec_colocated_on_plane(exact, a, touched[a])) for a in axes if spatial[a] is not None}

    if kind in ("field", "phasor", "modeoverlap"):
        comps = stored_components(opts.get("components", COMPONENT_NAMES))
        if kind == "field":
            shape, spatial, ca, key, k = (T, len(comps), *dims), (2, 3, 4), 1, "fields", "real"
        else:
            shape, spatial, ca, key, k = (1, 1 if kind == "modeoverlap" else 2, len(comps), *dims), (3, 4, 5), 2, "phasor", "complex"
        X = mk.arr("S", shape, k)
        plan = plan_for(spatial, lambda src, a: spec_parity(comps[src[ca]][0], comps[src[ca]][1], a, touched[a]))
        return {key: X}, {key: spec_unfold(X, plan) if axes else X}
    if kind == "energy":
        if opts.get("mode") == "slices":
            st, sp = {}, {}
            for key, (p, q) in {"XY Plane": (0, 1), "XZ Plane": (0, 2), "YZ Plane": (1, 2)}.items():
                X = mk.arr("S" + key[:2], (T, dims[p], dims[q]))
                spatial = [None, None, None]
                spatial[p], spatial[q] = 1, 2
                plan = plan_for(spatial, lambda src, a: 1)
                st[key] = X
                sp[key] = spec_unfold(X, plan) if plan else X
            return st, sp
        X = mk.arr("S", (T, *dims))
        return {"energy": X}, {"energy": spec_unfold(X, plan_for((1, 2, 3), lambda src, a: 1)) if axes else X}
    if kind == "poynting":
        if opts.get("keep_all"):
            X = mk.arr("S", (T, 3, *dims))
            plan = plan_for((2, 3, 4), lambda src, a: spec_poynting_parity(src[1], a, touched[a]))
        else:
            X = mk.arr("S", (T, *dims))
            plan = plan_for((1, 2, 3), lambda src, a: spec_poynting_parity(opts.get("prop", 0), a, touched[a]))
        return {"poynting_flux": X}, {"poynting_flux": spec_unfold(X, plan) if axes else X}
    raise AssertionError(kind)


def _component_subsets(tier, rnd):
    allsub = [tuple(n for n, b in zip(COMPONENT_NAMES, bits) if b) for bits in itertools.product((0, 1), repeat=6) if any(bits)]
    if tier == "thorough":
        return allsub + [("Hx", "Ez", "Ex")]
    # E_c and H_c have opposite parity across every plane: a subset given in non-canonical order
    # with such a pair exposes any confusion between user order and stored (canonical) order
    pick = [COMPONENT_NAMES, ("Hx", "Ez", "Ex")]
    pick += rnd.sample(allsub, 2)
    return list(dict.fromkeys(pick))


def _spatial_variants(tier, rnd):
    """(label, kind, opts) for every detector kind that stores a spatial record"""
    out = []
    for exact in (True, False):
        e = "x" if exact else "r"
        for comps in _component_subsets(tier, rnd):
            lab = "".join(n for n in comps)
            out.append((f"field[{lab},{e}]", "field", {"components": list(comps), "exact": exact}))
            out.append((f"phasor[{lab},{e}]", "phasor", {"components": list(comps), "exact": exact}))
        out.append((f"modeoverlap[{e}]", "modeoverlap", {"exact": exact}))
        out.append((f"energy[spatial,{e}]", "energy", {"mode": "spatial", "exact": exact}))
        out.append((f"energy[slices,{e}]", "energy", {"mode": "slices", "exact": exact}))
        out.append((f"poynting[all,{e}]", "poynting", {"keep_all": True, "exact": exact, "prop": 1}))
        for p in range(3):
            out.append((f"poynting[S{'xyz'[p]},{e}]", "poynting", {"keep_all": False, "exact": exact, "prop": p, "direction": "+-"[p % 2]}))
    return out


def _gen_detectors(cfg, mk):
    sym, straddle = tuple(cfg["symmetry"]), tuple(cfg["straddle"])
    touched = _touched(sym, straddle)
    rcfg = _real_config(sym)
    # extents: >= 2 on axes where co-located samples can sit on an electric plane
    dims = tuple(mk.int("n" + "xyz"[a], lo=2 if (touched[a] == -1 and a in (0, 1)) else 1) for a in range(3))
    T = mk.int("T", lo=1)
    starts = tuple(mk.int(f"start{a}", lo=0) for a in range(3))
    lows = tuple(mk.int(f"low{a}", hi=-1) for a in range(3))
    for label, kind, opts in cfg["variants"]:
        det = _place_detector(_make_detector(kind, opts), dims, straddle, rcfg, starts, lows)
        state, spec = _detector_state_and_spec(kind, opts, dims, touched, T, mk)
        got = _unfold_states([(det, state)], rcfg, mk)["det"]
        yield f"{label}/post:keys", sorted(got.keys()) == sorted(spec.keys()), None, None
        for key in spec:
            yield f"{label}/post:{key}", got[key], spec[key], None
    if cfg.get("extras", True):
        # a state that belongs to no detector object is passed through, other arrays untouched
        import fdtdx.fdtd.symmetry as S

        det = _place_detector(_make_detector("energy", {"mode": "spatial"}), dims, straddle, rcfg, starts, lows)
        Y = mk.arr("Y", (T, 2))
        arrays, objs, z = _container([(det, {"energy": mk.arr("S", (T, *dims))})], rcfg, mk, extra_states={"orphan": {"v": Y}})
        new = S.unfold_detector_states(arrays, objs, rcfg)
        yield "orphan_state/post:unchanged", new.detector_states["orphan"]["v"], Y, None
        yield "orphan_state/post:fields_untouched", new.fields.E, z, None
        yield "orphan_state/post:materials_untouched", new.inv_permittivities, z, None
        # documented: a DiffractiveDetector that was clipped cannot be unfolded
        if any(touched):
            dd = _place_detector(_make_detector("diffractive", {}), dims, straddle, rcfg, starts, lows)
            yield "diffractive/post:raises NotImplementedError", _raises(NotImplementedError, _unfold_states, [(dd, {"diffractive": mk.arr("D", (T, 1, 1), "complex")})], rcfg, mk), None, None


# ---------------------------------------------------------------------------------------
# F. volume-reduced values: unfold(reduce(S)) == reduce(unfold(S)) when nothing sits on a plane
# ---------------------------------------------------------------------------------------


def _reduce_variants(tier, rnd):
    out = []
    for exact in (True, False):
        e = "x" if exact else "r"
        subs = (_component_subsets(tier, rnd) + [("Hx", "Ex")]) if tier == "thorough" else [COMPONENT_NAMES, ("Hx", "Ex"), ("Ey",)]
        for comps in subs:
            lab = "".join(comps)
            out.append((f"field[{lab},{e}]", "field", {"components": list(comps), "exact": exact}))
            out.append((f"phasor[{lab},{e}]", "phasor", {"components": list(comps), "exact": exact}))
        out.append((f"energy[{e}]", "energy", {"exact": exact}))
        out.append((f"energy_slices[{e}]", "energy_slices", {"exact": exact}))
        out.append((f"poynting[all,{e}]", "poynting", {"keep_all": True, "exact": exact, "prop": 2}))
        for p in range(3):
            out.append((f"poynting[S{'xyz'[p]},{e}]", "poynting", {"keep_all": False, "exact": exact, "prop": p}))
    return out


def _nothing_on_plane(opts, touched):
    return not any(spec_colocated_on_plane(opts.get("exact", True), a, touched[a]) for a in range(3) if touched[a])


def _with_weights(det, w):
    return det.aset("_cached_cell_volume_weights", w, create_new_ok=True)


def _reduce_pair(kind, opts, dims, touched, T, rcfg, straddle, weight, mk):
    """-> (unfold(reduce(S)), reduce(unfold(S))) for one detector kind, both through the real
    unfold_detector_states; the reduction is the detector's own (volume-weighted mean for
    Field/Phasor via the real _volume_weighted_spatial_mean, weighted sum for Energy/Poynting)"""
    full_dims = tuple(2 * d if touched[a] else d for a, d in enumerate(dims))
    w_red = mk.full(dims, weight)
    w_full = mk.full(full_dims, weight)
    if kind in ("field", "phasor"):
        key = "fields" if kind == "field" else "phasor"
        lead = 2 if kind == "field" else 3
        sp = _place_detector(_make_detector(kind, dict(opts, reduce=False)), dims, straddle, rcfg)
        rv = _place_detector(_make_detector(kind, dict(opts, reduce=True)), dims, straddle, rcfg)
        state, _ = _detector_state_and_spec(kind, opts, dims, touched, T, mk)
        S_ = state[key]
        R = _with_weights(rv, w_red)._volume_weighted_spatial_mean(S_, leading_dims=lead)
        lhs = _unfold_states([(rv, {key: R})], rcfg, mk)["det"][key]
        full = _unfold_states([(sp, {key: S_})], rcfg, mk)["det"][key]
        full_det = _with_weights(_place_detector(_make_detector(kind, dict(opts, reduce=True)), full_dims, (0, 0, 0), rcfg), w_full)
        return lhs, full_det._volume_weighted_spatial_mean(full, leading_dims=lead)
    if kind == "energy":
        sp = _place_detector(_make_detector("energy", {"mode": "spatial", "exact": opts["exact"]}), dims, straddle, rcfg)
        rv = _place_detector(_make_detector("energy", {"mode": "reduced", "exact": opts["exact"]}), dims, straddle, rcfg)
        S_ = mk.arr("S", (T, *dims))
        R = (S_ * w_red).sum(axis=(1, 2, 3))[:, None]
        lhs = _unfold_states([(rv, {"energy": R})], rcfg, mk)["det"]["energy"]
        full = _unfold_states([(sp, {"energy": S_})], rcfg, mk)["det"]["energy"]
        return lhs, (full * w_full).sum(axis=(1, 2, 3))[:, None]
    if kind == "energy_slices":
        sp = _place_detector(_make_detector("energy", {"mode": "spatial", "exact": opts["exact"]}), dims, straddle, rcfg)
        sl = _place_detector(_make_detector("energy", {"mode": "slices", "exact": opts["exact"]}), dims, straddle, rcfg)
        S_ = mk.arr("S", (T, *dims))
        planes = lambda E: {"XY Plane": E.mean(axis=3), "XZ Plane": E.mean(axis=2), "YZ Plane": E.mean(axis=1)}  # noqa: E731
        lhs = _unfold_states([(sl, planes(S_))], rcfg, mk)["det"]
        full = _unfold_states([(sp, {"energy": S_})], rcfg, mk)["det"]["energy"]
        return lhs, planes(full)
    if kind == "poynting":
        sp = _place_detector(_make_detector("poynting", dict(opts, reduce=False)), dims, straddle, rcfg)
        rv = _place_detector(_make_detector("poynting", dict(opts, reduce=True)), dims, straddle, rcfg)
        if opts.get("keep_all"):
            S_ = mk.arr("S", (T, 3, *dims))
            red = lambda X, w: (X * w).sum(axis=(2, 3, 4))  # noqa: E731
        else:
            S_ = mk.arr("S", (T, *dims))
            red = lambda X, w: (X * w).sum(axis=(1, 2, 3))[:, None]  # noqa: E731
        lhs = _unfold_states([(rv, {"poynting_flux": red(S_, w_red)})], rcfg, mk)["det"]["poynting_flux"]
        full = _unfold_states([(sp, {"poynting_flux": S_})], rcfg, mk)["det"]["poynting_flux"]
        return lhs, red(full, w_full)
    raise AssertionError(kind)


def _gen_reduce_commutes(cfg, mk):
    sym, straddle = tuple(cfg["symmetry"]), tuple(cfg["straddle"])
    touched = _touched(sym, straddle)
    rcfg = _real_config(sym)
    T = mk.int("T", lo=1)
    weight = mk.pos_real("cell_weight")
    for dims in cfg["shapes"]:
        dims = tuple(dims)
        for label, kind, opts in cfg["variants"]:
            if not _nothing_on_plane(opts, touched):
                continue  # the property makes no claim when a stored sample sits on a plane
            lhs, rhs = _reduce_pair(kind, opts, dims, touched, T, rcfg, straddle, weight, mk)
            nm = f"{label}/shape={'x'.join(map(str, dims))}/post:unfold(reduce)==reduce(unfold)"
            if isinstance(lhs, dict):
                for key in lhs:
                    yield f"{nm}[{key}]", lhs[key], rhs[key], None
            else:
                yield nm, lhs, rhs, None


def _gen_pair_sum(cfg, mk):
    """symbolic extents: every reduced cell i and its 2^k mirror images in the unfolded spatial
    record add up to  K * factor * S[i],  factor being what the real code multiplies the
    volume-reduced value with (K = 2^k for a mean, 1 for a sum).  Summing over i (a re-indexing of
    the full box by the reflection bijection) gives the commutation for all extents."""
    sym, straddle = tuple(cfg["symmetry"]), tuple(cfg["straddle"])
    touched = _touched(sym, straddle)
    axes = [a for a in range(3) if touched[a]]
    rcfg = _real_config(sym)
    dims = tuple(mk.int("n" + "xyz"[a], lo=1) for a in range(3))
    T = mk.int("T", lo=1)
    for label, kind, opts in cfg["variants"]:
        if kind == "energy_slices" or not _nothing_on_plane(opts, touched):
            continue
        mean = kind in ("field", "phasor")
        if kind == "energy":
            sp_opts, rv_opts = {"mode": "spatial", "exact": opts["exact"]}, {"mode": "reduced", "exact": opts["exact"]}
        else:
            sp_opts, rv_opts = dict(opts, reduce=False), dict(opts, reduce=True)
        sp = _place_detector(_make_detector(kind, sp_opts), dims, straddle, rcfg)
        rv = _place_detector(_make_detector(kind, rv_opts), dims, straddle, rcfg)
        state, _ = _detector_state_and_spec(kind, sp_opts, dims, touched, T, mk)
        ((key, S_),) = state.items()
        full = A.asarray(_unfold_states([(sp, {key: S_})], rcfg, mk)["det"][key])
        SS = A.asarray(S_)
        nlead = SS.ndim - 3
        scalar_record = kind == "energy" or (kind == "poynting" and not opts.get("keep_all"))
        rshape = (T, 1) if scalar_record else tuple(S_.shape[:nlead])
        R = mk.arr("R", rshape, SS.kind)
        factor = A.asarray(_unfold_states([(rv, {key: mk.ones(rshape)})], rcfg, mk)["det"][key])
        outR = _unfold_states([(rv, {key: R})], rcfg, mk)["det"][key]
        yield f"{label}/post:reduced_value_scaled_linearly", outR, factor * A.asarray(R), None
        K = 2 ** len(axes) if mean else 1

        def pair(idx, full=full, nlead=nlead):
            tot = 0
            for sigma in itertools.product((0, 1), repeat=len(axes)):
                j = list(idx)
                for a, sg in zip(axes, sigma):
                    i = A._wrap_idx(idx[nlead + a])
                    j[nlead + a] = A._raw_index(dims[a] + i if sg == 0 else dims[a] - 1 - i)
                tot = tot + full.at_index(tuple(j))
            return tot

        def rhs(idx, SS=SS, factor=factor, nlead=nlead, K=K, scalar_record=scalar_record):
            fidx = (idx[0], 0) if scalar_record else tuple(idx[:nlead])
            return K * factor.at_index(fidx) * SS.at_index(idx)

        yield f"{label}/post:mirror_images_sum_to_factor", SymArray(SS.shape, pair, SS.kind), SymArray(SS.shape, rhs, SS.kind), None


# ---------------------------------------------------------------------------------------
# G. edge case: ONE kept cell on an axis whose samples sit on an electric plane
# ---------------------------------------------------------------------------------------


def _gen_edge_one_cell(cfg, mk):
    """same contract as everywhere else (axis doubled, kept half == input); only the value of the
    single filled cell is left open ('repeats its neighbour' has no unique reading for n = 1)"""
    import fdtdx.core.physics.symmetry as P
    import fdtdx.fdtd.symmetry as S

    axis = cfg["axis"]  # physical axis with extent 1
    dims = tuple(1 if a == axis else mk.int("n" + "xyz"[a], lo=1) for a in range(3))
    sym = tuple(-1 if a == axis else 0 for a in range(3))
    X = mk.arr("X", (mk.int("T", lo=1), *dims))
    low = P.mirror_extend_low_side(X, axis=axis + 1, parity=-1, on_plane=True)
    yield f"one_cell/mirror_extend_low_side/post:same_shape_as_input ## on_plane=True, input shape {_shape_of(X)} -> low block shape {_shape_of(low)}", v_eq(low.shape[axis + 1], 1), None, None
    out = S.unfold_array(X, sym, (1, 2, 3), None, (axis,))
    yield f"one_cell/unfold_array/post:axis_doubled ## unfold_array(shape {_shape_of(X)}, symmetry={sym}, on_plane_axes=({axis},)) -> shape {_shape_of(out)}", v_eq(out.shape[axis + 1], 2), None, None
    for ft in FIELD_TYPES:
        F = mk.arr("F", (3, *dims))
        try:
            full = S.unfold_fields(F, sym, ft)
        except (ValueError, TypeError) as e:  # shape clash when stacking the components
            yield f"one_cell/unfold_fields[{ft}]/post:returns_full_domain_field ## unfold_fields(shape {_shape_of(F)}, symmetry={sym}, {ft!r}) raised {type(e).__name__}: {str(e)[:200]}", False, None, None
            continue
        yield f"one_cell/unfold_fields[{ft}]/post:axis_doubled", v_eq(full.shape[axis + 1], 2), None, None
        if _eq_true(full.shape[axis + 1], 2):
            yield f"one_cell/unfold_fields[{ft}]/post:kept_half_is_input", P.restrict_to_kept_half(full, (axis,)), F, None
    if axis in (0, 1):  # co-located detector samples sit on electric x/y planes
        rcfg = _real_config(sym)
        straddle = tuple(1 if a == axis else 0 for a in range(3))
        det = _place_detector(_make_detector("energy", {"mode": "spatial", "exact": True}), dims, straddle, rcfg)
        got = _unfold_states([(det, {"energy": X})], rcfg, mk)["det"]["energy"]
        yield f"one_cell/unfold_detector_states[energy]/post:axis_doubled ## EnergyDetector record of shape {_shape_of(X)} clipped by the electric plane on axis {axis} -> unfolded shape {_shape_of(got)}", v_eq(got.shape[axis + 1], 2), None, None


_GEN = {
    "tables": _gen_tables,
    "mirror_extend_low_side": _gen_low_side,
    "mirror_about_interior_plane": _gen_interior,
    "restrict_to_kept_half": _gen_restrict,
    "unfold_fields": _gen_unfold_fields,
    "unfold_array": _gen_unfold_array,
    "detectors": _gen_detectors,
    "reduce_commutes": _gen_reduce_commutes,
    "pair_sum": _gen_pair_sum,
    "edge_one_cell": _gen_edge_one_cell,
}


# ---------------------------------------------------------------------------------------
# tasks
# ---------------------------------------------------------------------------------------


def _body(cfgs):
    def body(c, inp):
        mk = _SymFactory(inp)
        c.cover("pre")
        for cfg in cfgs:
            inp.note("cfg", cfg)
            for name, got, spec, where in _GEN[cfg["fn"]](cfg, mk):
                name = name.split(" ## ")[0]
                if spec is None:
                    c.prove(name, got)
                else:
                    prove_arrays_equal(name, got, spec, where=where)
        c.cover("post")

    return body


def _sym_label(s):
    return "".join({-1: "e", 0: "0", 1: "m"}[v] for v in s)


def _config_pairs(tier, seed):
    """(symmetry, straddle mask) configurations.  thorough: all 26 x 8.  quick: one pair per
    'touched' tuple in {-1,0,1}^3 (27 classes: what the unfolding actually depends on), the
    untouched axes drawn from {no symmetry, symmetric but not straddled}."""
    if tier == "thorough":
        return [(s, st) for s in ALL_SYM for st in itertools.product((0, 1), repeat=3)]
    rnd = random.Random(seed + 17)
    out = []
    for t in itertools.product((-1, 0, 1), repeat=3):
        while True:
            sym, st = [], []
            for a in range(3):
                if t[a]:
                    sym.append(t[a])
                    st.append(1)
                elif rnd.random() < 0.5:
                    sym.append(0)
                    st.append(rnd.choice((0, 1)))
                else:
                    sym.append(rnd.choice((-1, 1)))
                    st.append(0)
            if any(sym):
                break
        out.append((tuple(sym), tuple(st)))
    return out


def _configs(tier, seed):
    """task key -> list of cfg dicts"""
    rnd = random.Random(seed)
    out = {"tables": [{"fn": "tables"}]}
    out["helpers/mirror_extend_low_side"] = [{"fn": "mirror_extend_low_side", "axis": ax, "parity": p, "on_plane": op} for ax in (1, 2, 3) for p in (1, -1) for op in (False, True)]
    out["helpers/mirror_about_interior_plane"] = [{"fn": "mirror_about_interior_plane", "axis": ax, "on_plane": op} for ax in (1, 2, 3) for op in (False, True)]
    out["helpers/restrict_to_kept_half"] = [{"fn": "restrict_to_kept_half", "lead": lead, "axes": list(axes)} for lead in (1, 2) for r in range(4) for axes in itertools.combinations(range(3), r)]
    out["edge_one_cell"] = [{"fn": "edge_one_cell", "axis": a} for a in range(3)]
    for s in ALL_SYM:
        out[f"unfold_fields/{_sym_label(s)}"] = [{"fn": "unfold_fields", "symmetry": list(s), "field_type": ft} for ft in FIELD_TYPES]
        sym_axes = [a for a in range(3) if s[a]]
        subsets = [tuple(x) for r in range(len(sym_axes) + 1) for x in itertools.combinations(sym_axes, r)]
        layouts = ["TCxyz", "Txyz", "zTyCx"]
        if tier == "thorough":
            combos = [(op, lay) for op in subsets for lay in layouts]
        else:
            pick = sorted({(), tuple(sym_axes), rnd.choice(subsets)})
            combos = [(op, layouts[(k + len(sym_axes) + sum(s)) % 3]) for k, op in enumerate(pick)]
        out[f"unfold_array/{_sym_label(s)}"] = [{"fn": "unfold_array", "symmetry": list(s), "on_plane_axes": list(op), "layout": lay} for op, lay in combos]
    for s, st in _config_pairs(tier, seed):
        lab = f"{_sym_label(s)}/straddle{''.join(map(str, st))}"
        vrnd = random.Random(f"{seed}/{s}/{st}")
        variants = [list(v) for v in _spatial_variants(tier, vrnd)]
        if tier == "thorough":
            # split the 63 component subsets over several tasks
            chunk = 40
            for k in range(0, len(variants), chunk):
                out[f"detectors/{lab}/{k // chunk}"] = [{"fn": "detectors", "symmetry": list(s), "straddle": list(st), "variants": variants[k : k + chunk], "extras": k == 0}]
        else:
            out[f"detectors/{lab}"] = [{"fn": "detectors", "symmetry": list(s), "straddle": list(st), "variants": variants, "extras": True}]
        if any(_touched(s, st)):
            rv = [list(v) for v in _reduce_variants("quick" if tier == "quick" else "thorough", vrnd)]
            if tier == "thorough":  # all singletons, the full set, the mixed-order pair and a seeded sample of the rest
                keep = set(vrnd.sample(sorted({tuple(v[2]["components"]) for v in rv if v[1] == "field"}), 8))
                rv = [v for v in rv if v[1] not in ("field", "phasor") or len(v[2]["components"]) in (1, 6) or tuple(v[2]["components"]) in keep]
            out[f"reduced/{lab}"] = [
                {"fn": "reduce_commutes", "symmetry": list(s), "straddle": list(st), "variants": rv, "shapes": [list(d) for d in REDUCE_SHAPES[tier]]},
                {"fn": "pair_sum", "symmetry": list(s), "straddle": list(st), "variants": rv},
            ]
    return out


def tasks(tier, seed):
    return {k: Task(_body(cfgs)) for k, cfgs in _configs(tier, seed).items()}


# ---------------------------------------------------------------------------------------
# replay: the same generators on real jnp arrays under real JAX (no shims)
# ---------------------------------------------------------------------------------------


def _to_numpy(x):
    import numpy as np

    if isinstance(x, SymArray):
        return x.to_numpy(dtype=complex if x.kind == "complex" else float)
    return np.asarray(x)


def _mismatch(got, spec, where):
    import numpy as np

    g, s = _to_numpy(got), _to_numpy(spec)
    if g.shape != s.shape:
        return f"shape {g.shape} vs contract shape {s.shape}"
    for idx in np.ndindex(*g.shape):
        if where is not None and where(idx) is False:
            continue
        if abs(complex(g[idx]) - complex(s[idx])) > 1e-9 * (1 + abs(complex(s[idx]))):
            return f"at index {idx}: real code gives {g[idx]!r}, contract demands {s[idx]!r}"
    return None


_REPLAY_CACHE = {}


def _short(cfg):
    return {k: v for k, v in cfg.items() if k != "variants"}


def _replay_results(cfg, scalars):
    """run one configuration's generator on real jnp arrays (3 seeded trials: extents from the
    witness when sane, then random small extents) -> {obligation base name: failure detail or None}"""
    import json

    import numpy as np

    ck = json.dumps(cfg, sort_keys=True, default=str)
    if ck in _REPLAY_CACHE:
        return _REPLAY_CACHE[ck]
    res = {}
    for trial in range(3):
        mk = _ConcreteFactory(np.random.default_rng(trial), scalars if trial == 0 else None)
        for name, got, spec, where in _GEN[cfg["fn"]](cfg, mk):
            base, _, note = name.partition(" ## ")
            if res.get(base):
                continue
            if spec is None:
                bad = None if got is True else f"real code under real JAX violates it{' (' + note + ')' if note else ''}"
            else:
                bad = _mismatch(got, spec, where)
                if bad:
                    bad = f"input shape {_shape_of(got)}: {bad}"
            res[base] = bad
    _REPLAY_CACHE[ck] = res
    return res


def replay(key, obligation, witness):
    """re-run the configuration of the refuted obligation on the REAL code under real JAX with
    concrete jnp arrays; the obligation's own generator is the oracle"""
    cfg = ((witness or {}).get("notes") or {}).get("cfg")
    cands = [cfg] if isinstance(cfg, dict) else []
    cands += [c for c in (_configs("quick", 0).get(key) or _configs("thorough", 0).get(key) or []) if c not in cands]
    scalars = (witness or {}).get("scalars") or {}
    tried = 0
    for cfg in cands:
        if "variants" in cfg:  # only the detector variant the obligation is about
            label = obligation.split("/post:")[0].split("/shape=")[0]
            cfg = dict(cfg, variants=[v for v in cfg["variants"] if v[0] == label], extras=label in ("orphan_state", "diffractive"))
            if not cfg["variants"] and not cfg["extras"]:
                continue
        try:
            res = _replay_results(cfg, scalars)
        except Exception as e:  # noqa: BLE001  (not a reproduction: obligations never map exceptions to refutations)
            return False, f"replay of cfg={_short(cfg)} raised {type(e).__name__}: {str(e)[:300]}"
        for base, bad in res.items():
            if obligation.startswith(base):
                tried += 1
                if bad:
                    return True, f"cfg={_short(cfg)}: '{base}' {bad}"
    return False, f"no failing input found on the real code ({tried} matching concrete evaluations)"
