"""C17  Phasor detectors compute the windowed discrete Fourier transform.

Spec (from the property text).  For a detector with angular frequencies w_f = 2*pi*frequency_f,
component subset c_1..c_C (canonical order), recorded steps R = thin(on, stride) and window
weights win(t) (1 without apodization, apodization.get_window(t*dt) with), scale s = 2 / sum_{t in R} win(t)
in continuous mode and s = stride in pulse mode:

    phasor[0, f, i, cell]  ==  sum_{t in R}  win(t) * field_{c_i}(t, cell) * exp(i * w_f * t*dt) * s          (DFT)

Proof structure
  (step)   PhasorDetector.update for a SYMBOLIC step t, symbolic number of steps, arbitrary window
           table W, window sum, stride, frequencies, dt, fields and a SYMBOLIC detector box:
               state'[0,f,i,cell] == state[0,f,i,cell] + W[t] * field_{c_i}(cell) * (cos(w_f t dt) + i sin(w_f t dt)) * s
           (exp of an imaginary argument is (cos, sin) with cos/sin uninterpreted).
  (setup)  the REAL PhasorDetector.place_on_grid / _calculate_on_list / _static_scale / init_state on a
           concrete number of steps T and on-list (enumerated), abstract apodization window (an
           uninterpreted non-negative function of time):  recorded-step mask == thin(on, stride),
           W[t] == win(t) on recorded steps and 0 elsewhere, window sum == sum W, pulse scale ==
           stride, init_state == 0; and, running the REAL update over all T steps behind the
           recorded-step gate (as update_detector_states does), the final state equals (DFT).
  Induction (general T): update_detector_states calls update exactly at the steps with
           _is_on_at_time_step_arr[t] (C14); by (step) each call adds the (DFT) summand of step t and
           W[t] is win(t) there by (setup); the state starts at 0 (init_state) => after the last step
           the state is the sum over R.  (setup) executes this induction concretely for T <= Tmax.
  (thin)   _calculate_on_list == "every stride-th active step" for ALL on-lists up to a bounded
           length (exhaustive enumeration; labelled bounded).
  (flux)   PhasorPoyntingFluxDetector.compute_poynting_flux and
           ClosedSurfacePhasorPoyntingFluxDetector.compute_net_flux on arbitrary complex phasor
           records == (1/2 in continuous mode) * signed sum over the plane / the faces of
           Re(E x conj H)_normal * face area; their accumulation is the same (step) identity (for the
           closed-surface detector per stored face).
  (run)    bounded end-to-end cross-check under real JAX: real detectors (real windows, strides incl.
           "auto", switches) driven over a random field history, compared with the DFT of the
           FieldDetector record of the same run computed by numpy.
"""

from __future__ import annotations

import itertools
import math
import random

from props import common as K
from spec import C16_detlib as L
from vc import array as A
from vc import scene
from vc.core import SymNum, apply_uf, ctx, v_eq
from vc.harness import Task
from vc.obl import prove_arrays_equal, sym_int, sym_real

ID = "C17"
LEVEL = "proof"
TECHNIQUE = "symbolic execution of the real PhasorDetector place_on_grid/update and phasor-Poynting post-processing; per-step DFT summand lemma for a symbolic step (cos/sin uninterpreted) + real set-up code on enumerated schedules + induction; z3 / ring normal form"
MODULES = L.DET_MODULES
FILES = [
    "src/fdtdx/objects/detectors/phasor.py",
    "src/fdtdx/objects/detectors/poynting_flux.py",
    "src/fdtdx/core/window.py",
    "src/fdtdx/objects/detectors/detector.py",
    "src/fdtdx/core/physics/metrics.py",
]
FUNCTIONS = [
    "fdtdx.objects.detectors.phasor.PhasorDetector.update",
    "fdtdx.objects.detectors.phasor.PhasorDetector._static_scale",
    "fdtdx.objects.detectors.phasor.PhasorDetector.place_on_grid (window table, window sum, stride)",
    "fdtdx.objects.detectors.phasor.PhasorDetector._calculate_on_list / _resolve_dft_stride (explicit strides)",
    "fdtdx.objects.detectors.phasor.PhasorDetector._angular_frequencies",
    "fdtdx.objects.detectors.detector.Detector.place_on_grid / init_state",
    "fdtdx.objects.detectors.poynting_flux._phasor_poynting_vector",
    "fdtdx.objects.detectors.poynting_flux.PhasorPoyntingFluxDetector.place_on_grid/compute_poynting_flux",
    "fdtdx.objects.detectors.poynting_flux.ClosedSurfacePhasorPoyntingFluxDetector.place_on_grid/update/compute_net_flux",
    "fdtdx.core.physics.metrics.compute_poynting_flux",
]
INLINED = ["fdtdx.core.wavelength.WaveCharacter.get_frequency", "fdtdx.objects.detectors.poynting_flux._slice_face/_resolve_face_area_weights", "fdtdx.core.grid.RectilinearGrid.face_area", "TreeClass.aset"]
STUBS = [
    "TemporalWindow.get_window: an uninterpreted function apod(time) >= 0 (any window); the real GaussianWindow/TukeyWindow are exercised in the bounded real-JAX runs only",
    "SimulationConfig.time_steps_total returns the enumerated T; RectilinearGrid storage = vc.scene.SymGrid (symbolic widths, symbolic dt > 0)",
    "update_detector_states' gate (update is called exactly when _is_on_at_time_step_arr[t]): assumed here, proved under C14",
]
ASSUMPTIONS = [
    "precondition of place_on_grid: the window sums to a positive number over the recorded steps (otherwise the code raises, as documented)",
    "(setup) with stride > 1 is proved for frequencies with stride*dt*|f| <= 0.25 (above, the code additionally logs an aliasing warning whose message formatting is not modelled); (step) has no such restriction",
    "component tuples are given in canonical order; frequencies arbitrary reals (also given as wavelength / period > 0)",
    "the number of time steps T and the base on-list are enumerated in (setup)/(thin): all on-lists up to the stated length; (step) is for arbitrary T",
    "dft_subsample='auto' and the concrete window classes are covered by the bounded real-JAX runs only",
    "plane / box extents of the phasor Poynting detectors enumerated (small), values symbolic",
]
MIN_OBLIGATIONS = {"quick": 2500, "thorough": 25000}
AXIOMS = {"apod": [lambda args, term, apps: [term >= 0]]}
LEVEL_TEXT = (
    "Deductive proof of the per-step DFT summand identity of the real PhasorDetector.update for all steps, windows, frequencies, strides, fields and "
    "detector boxes (every component subset), of the real set-up code (window table, window sum, thinning, scale) and of the full accumulated sum for "
    "enumerated schedules with symbolic windows and fields, and of the phasor-Poynting post-processing for all phasor values on enumerated plane/box extents; "
    "induction over the recorded steps (stated in the module docstring) extends the accumulated sum to any number of steps"
)
LEVEL_NOTE = (
    "cos/sin uninterpreted (the identity does not depend on their values); exact real arithmetic; schedule length in (setup) BOUNDED (T <= 5 quick, <= 7 thorough), "
    "thinning exhaustively enumerated up to T <= 9 (bounded, labelled); plane/box extents BOUNDED (<= 3 per axis), all values UNBOUNDED; 'auto' stride and concrete windows only in bounded real-JAX runs"
)
BOUNDED_RULE = "bounded parts: (thin) exhaustive enumeration of on-lists/strides on the real _calculate_on_list; (run) real detectors under real JAX on seeded random histories vs numpy DFT; reported separately, not counted as proved"


# ---------------------------------------------------------------------------------------
# spec pieces
# ---------------------------------------------------------------------------------------


def _thin(on, stride):
    """spec: keep every stride-th ACTIVE step (the 1st, (1+stride)-th, ...)"""
    kept, rank = [], 0
    for o in on:
        kept.append(bool(o) and rank % stride == 0)
        rank += 1 if o else 0
    return kept


def _expi(theta):
    """exp(i*theta): (cos, sin) uninterpreted for symbolic theta, the true value for a concrete one
    (t = 0 gives exp(0) = 1)"""
    if not A.is_sym(theta):
        import cmath

        return cmath.exp(1j * float(theta))
    return SymNum.wrap(*_parts(apply_uf("cos", theta), apply_uf("sin", theta)))


def _parts(re, im):
    from vc.core import _num_parts

    return _num_parts(re)[0], _num_parts(im)[0]


def _field_of(name, E, H):
    return (E if name[0] == "E" else H)["xyz".index(name[1])]


def _abstract_window():
    from fdtdx.core.window import TemporalWindow

    class AbstractWindow(TemporalWindow):
        """any apodization window: an uninterpreted non-negative function of time"""

        def get_window(self, time):
            return A.asarray(time)._map(lambda v: apply_uf("apod", v), "real")

    return AbstractWindow()


def _wcs(nfreq, how, inp):
    from fdtdx.core.wavelength import WaveCharacter

    out = []
    for i in range(nfreq):
        if how == "frequency":
            f = sym_real(f"freq{i}")
            out.append(WaveCharacter(frequency=f))
        elif how == "wavelength":
            f = sym_real(f"wavelength{i}", lo_strict=0)
            out.append(WaveCharacter(wavelength=f))
        else:
            f = sym_real(f"period{i}", lo_strict=0)
            out.append(WaveCharacter(period=f))
        inp.scalar(f"{how}{i}", f)
    return tuple(out)


def _omega(wc):
    return 2 * math.pi * wc.get_frequency()


def _note(inp, **kw):
    inp.note("spec", {k: str(v) for k, v in kw.items()})


def _generalise(det, T=None):
    """arbitrary window table / window sum / stride in place of the placed values"""
    T = T if T is not None else sym_int("T", lo=1)
    win = A.fresh_array("window", (T,))
    wsum = sym_real("window_sum", lo_strict=0)
    stride = sym_int("stride", lo=1)
    det = det.aset("_window_at_time_step_arr", win, create_new_ok=True).aset("_window_sum", wsum, create_new_ok=True).aset("_dft_stride", stride, create_new_ok=True)
    return det, T, win, wsum, stride


def _scale(mode, wsum, stride):
    return 2 / wsum if mode == "continuous" else stride


# ---------------------------------------------------------------------------------------
# (step)
# ---------------------------------------------------------------------------------------


def _step_task(comps, nfreq, mode, how="frequency", nonuniform=True):
    def body(c, inp):
        from fdtdx.objects.detectors.phasor import PhasorDetector

        _note(inp, kind="step", comps=comps, nfreq=nfreq, mode=mode, how=how, nonuniform=nonuniform)
        shape, cfg = L.make_cfg(nonuniform)
        box = scene.sym_shape(names=("Bx", "By", "Bz"))
        sl = []
        for a in range(3):
            lo = sym_int(f"lo{a}", lo=0)
            c.assume((lo + box[a] <= shape[a]).z)
            sl.append((lo, lo + box[a]))
        wcs = _wcs(nfreq, how, inp)
        det = PhasorDetector(name="ph", wave_characters=wcs, components=comps, scaling_mode=mode, switch=L.on_switch())
        det = scene._place(det, tuple(sl), cfg)
        det, T, win, wsum, stride = _generalise(det)
        t = sym_int("t", lo=0)
        c.assume((t + 1 <= T).z)
        inp.scalar("t", t)
        t_arr = A.SymArray((), lambda idx: t, "int", memo=False)
        E = A.fresh_array("E", (3, *box))
        H = A.fresh_array("H", (3, *box))
        C = len(comps)
        S0 = A.fresh_array("S0", (1, nfreq, C, *box), "complex")
        c.cover("pre")
        S1 = det.update(t_arr, E, H, {"phasor": S0}, None, None)["phasor"]
        dt = cfg.time_step_duration
        s = _scale(mode, wsum, stride)
        w_t = win.at_index((A._raw_index(t),))
        canon = [n for n in L.COMPONENTS if n in comps]
        c.prove("component_count", len(canon) == C)
        for f in range(nfreq):
            ph = _expi(_omega(wcs[f]) * (t * dt))
            for ci, nm in enumerate(canon):
                spec = S0[0, f, ci] + _field_of(nm, E, H) * (w_t * ph * s)
                prove_arrays_equal(f"state'==state+win(t)*field*exp(i*w*t)*scale[f{f},{nm}]", S1[0, f, ci], spec)

    return body


def _step_reduced_task(sizes, comps, mode, nonuniform):
    """the same summand for a volume-reduced detector: weighted mean of the spatial summand"""

    def body(c, inp):
        from fdtdx.objects.detectors.phasor import PhasorDetector

        _note(inp, kind="step_reduced", sizes=sizes, comps=comps, mode=mode, nonuniform=nonuniform)
        shape, cfg = L.make_cfg(nonuniform)
        sl = L.region(shape, sizes, inp)
        V = L.volume_fn(L.width_fn(cfg, sl))
        wcs = _wcs(1, "frequency", inp)
        det = PhasorDetector(name="ph", wave_characters=wcs, components=comps, scaling_mode=mode, reduce_volume=True, switch=L.on_switch()).place_on_grid(sl, cfg, L.key())
        det, T, win, wsum, stride = _generalise(det)
        (det,), V = L.cut_volume_weights([det], V, sizes)
        t = sym_int("t", lo=0)
        c.assume((t + 1 <= T).z)
        t_arr = A.SymArray((), lambda idx: t, "int", memo=False)
        E, H = L.fresh_fields(sizes, inp=inp)
        C = len(comps)
        S0 = A.fresh_array("S0", (1, 1, C), "complex")
        c.cover("pre")
        S1 = det.update(t_arr, E, H, {"phasor": S0}, None, None)["phasor"]
        s = _scale(mode, wsum, stride)
        ph = _expi(_omega(wcs[0]) * (t * cfg.time_step_duration))
        w_t = win.at_index((A._raw_index(t),))
        vtot = L.wsum(lambda x, y, z: 1, V, sizes)
        canon = [n for n in L.COMPONENTS if n in comps]
        for ci, nm in enumerate(canon):
            F = _field_of(nm, E, H)
            # volume-weighted mean over the box of the spatial summand win(t)*field(cell)*exp(i*w*t)*scale
            mean = L.wsum(lambda x, y, z: F.at_index((x, y, z)) * (w_t * ph * s), V, sizes) / vtot
            c.prove(f"reduced_state'==state+mean_V(win(t)*field*exp(i*w*t)*scale)[{nm}]", v_eq(S1.at_index((0, 0, ci)), S0.at_index((0, 0, ci)) + mean))

    return body


# ---------------------------------------------------------------------------------------
# (setup) + concrete-T accumulation
# ---------------------------------------------------------------------------------------


def _setup_task(on, stride, apod, mode, comps, nfreq, cls_name="PhasorDetector"):
    on = tuple(bool(o) for o in on)
    T = len(on)

    def body(c, inp):
        import fdtdx.objects.detectors.phasor as P
        from fdtdx.objects.detectors.poynting_flux import PhasorPoyntingFluxDetector

        _note(inp, kind="setup", on=on, stride=stride, apod=apod, mode=mode, comps=comps, nfreq=nfreq, cls=cls_name)
        shape, cfg = L.make_cfg(True, T=T)
        dt = cfg.time_step_duration
        sizes = (2, 1, 2)
        sl = L.region(shape, sizes, inp)
        wcs = _wcs(nfreq, "frequency", inp)
        if stride > 1:
            # place_on_grid only LOGS a warning when stride*dt*f_max > 0.25 (formatting a symbolic number in
            # that message is not modelled): the set-up contract is frequency independent, so it is proved
            # for the frequencies below that threshold; (step) covers every frequency
            for wc in wcs:
                c.assume((stride * dt * abs(wc.get_frequency()) <= 0.25).z)
        kept = _thin(on, max(1, stride))
        win_spec = [(apply_uf("apod", t * dt) if apod else 1) if kept[t] else 0 for t in range(T)]
        total = 0
        for v in win_spec:
            total = total + v
        if apod:
            c.assume((total > 0).z)  # documented precondition (otherwise place_on_grid raises)
        kw = dict(name="ph", wave_characters=wcs, scaling_mode=mode, dft_subsample=stride, switch=L.on_switch([t for t in range(T) if on[t]]), apodization=_abstract_window() if apod else None)
        if cls_name == "PhasorDetector":
            det = P.PhasorDetector(components=comps, **kw)
        else:
            det = PhasorPoyntingFluxDetector(direction="+", fixed_propagation_axis=1, **kw)
        c.cover("pre")
        det = det.place_on_grid(sl, cfg, L.key())
        # ---- set-up contract
        c.prove("recorded_steps==every_stride-th_active_step", [bool(x) for x in det._calculate_on_list()] == kept)
        prove_arrays_equal("on_mask==recorded_steps", det._is_on_at_time_step_arr, A.asarray(kept))
        c.prove("stride_resolved", det._dft_stride == max(1, stride))
        prove_arrays_equal("window_table==win(t)*recorded(t)", det._window_at_time_step_arr, A.asarray(win_spec))
        c.prove("window_sum==sum_recorded_win", v_eq(det._window_sum, total))
        s = 2 / total if mode == "continuous" else max(1, stride)
        c.prove("scale==2/sum(window)|stride", v_eq(det._static_scale(), s))
        st = det.init_state()
        C = len(det.components)
        c.prove("init_state:keys", list(st) == ["phasor"])
        prove_arrays_equal("init_state:zeros", st["phasor"], A.zeros((1, nfreq, C, *sizes), "complex"))
        # ---- the whole run: update behind the recorded-step gate
        fields = []
        for t in range(T):
            E = A.fresh_array(f"E{t}", (3, *sizes))
            H = A.fresh_array(f"H{t}", (3, *sizes))
            inp.array(f"E{t}", E)
            inp.array(f"H{t}", H)
            fields.append((E, H))
            gate = det._is_on_at_time_step_arr.at_index((t,))
            if gate is True or (not isinstance(gate, bool) and bool(gate)):
                st = det.update(A.asarray(t), E, H, st, None, None)
        canon = [n for n in L.COMPONENTS if n in det.components]
        for f in range(nfreq):
            for ci, nm in enumerate(canon):
                spec = A.zeros(sizes, "complex")
                for t in range(T):
                    if kept[t]:
                        spec = spec + _field_of(nm, *fields[t]) * (win_spec[t] * _expi(_omega(wcs[f]) * (t * dt)) * s)
                prove_arrays_equal(f"accumulated==windowed_DFT[f{f},{nm}]", st["phasor"][0, f, ci], spec)

    return body


# ---------------------------------------------------------------------------------------
# (thin) bounded exhaustive enumeration
# ---------------------------------------------------------------------------------------


def _thin_task(T_values, strides):
    def body(c, inp):
        from fdtdx.core.wavelength import WaveCharacter
        from fdtdx.objects.detectors.phasor import PhasorDetector

        for T in T_values:
            shape, cfg = L.make_cfg(False, T=T)
            sl = tuple((0, 1) for _ in range(3))
            for stride in strides:
                bad = None
                n = 0
                for on in itertools.product((False, True), repeat=T):
                    det = PhasorDetector(name="ph", wave_characters=(WaveCharacter(frequency=1.0),), dft_subsample=stride, switch=L.on_switch([t for t in range(T) if on[t]]))
                    det = scene._place(det, sl, cfg)
                    try:
                        got = [bool(x) for x in det._calculate_on_list()]
                    except Exception as e:  # noqa: BLE001
                        if not L.is_repo_exception(e):
                            raise
                        got = f"raised {type(e).__name__}: {e}"
                    n += 1
                    if got != _thin(on, max(1, stride)) and bad is None:
                        bad = {"on": list(on), "stride": stride, "got": got, "expected": _thin(on, max(1, stride))}
                c.bounded(f"thin/T{T}/stride{stride}", bad is None, case={"T": T, "stride": stride, "on_lists": n}, witness={"notes": {"spec": {"kind": "'thin'"}, "case": bad}})

    return body


# ---------------------------------------------------------------------------------------
# (flux) phasor Poynting post-processing
# ---------------------------------------------------------------------------------------


def _plane_flux_task(nonuniform, sizes, fixed_axis, mode, nfreq=2):
    def body(c, inp):
        from fdtdx.objects.detectors.poynting_flux import PhasorPoyntingFluxDetector

        _note(inp, kind="plane_flux", nonuniform=nonuniform, sizes=sizes, fixed_axis=fixed_axis, mode=mode, nfreq=nfreq)
        shape, cfg = L.make_cfg(nonuniform)
        sl = L.region(shape, sizes, inp)
        W = L.width_fn(cfg, sl)
        wcs = _wcs(nfreq, "frequency", inp)
        p = fixed_axis if fixed_axis is not None else list(sizes).index(1)
        P = A.fresh_array("phasor", (1, nfreq, 6, *sizes), "complex")
        inp.array("phasor", P)
        half = 0.5 if mode == "continuous" else 1
        c.cover("pre")

        def S(f, comp, x, y, z):
            Ev = [P.at_index((0, f, i, x, y, z)) for i in range(3)]
            Hv = [P.at_index((0, f, 3 + i, x, y, z)) for i in range(3)]
            return L.re_cross_conj(Ev, Hv, comp)

        failed = {}
        for direction, keep in itertools.product("+-", (False, True)):
            det = PhasorPoyntingFluxDetector(name=f"pp{direction}{int(keep)}", wave_characters=wcs, direction=direction, keep_all_components=keep, fixed_propagation_axis=fixed_axis, scaling_mode=mode, switch=L.on_switch())
            try:
                det = det.place_on_grid(sl, cfg, L.key())
            except Exception as e:  # noqa: BLE001  placing a detector on a valid box must not fail
                if not L.is_repo_exception(e):
                    raise
                failed.setdefault(keep, []).append(f"direction={direction}: {type(e).__name__}: {e}")
                continue
            c.prove(f"components_all_six[{direction},all={keep}]", tuple(det.components) == L.COMPONENTS and det.reduce_volume is False)
            # an explicitly fixed axis (0 included) wins over the shape; otherwise the size-one axis
            ok, ax = L.guarded(f"no_exception_on_valid_input/propagation_axis[{direction},all={keep}]", lambda d=det: d.propagation_axis)
            if ok:
                c.prove(f"propagation_axis[{direction},all={keep}]", ax == p)
            ok, out = L.guarded(f"no_exception_on_valid_input/compute_poynting_flux[{direction},all={keep}]", det.compute_poynting_flux, {"phasor": P})
            if not ok:
                continue
            sgn = 1 if direction == "+" else -1
            if keep:
                c.prove(f"shape[{direction},all]", tuple(out.shape) == (nfreq, 3))
                for f in range(nfreq):
                    for comp in range(3):
                        spec = half * sgn * L.wsum(lambda x, y, z: S(f, comp, x, y, z), L.area_fn(W, comp), sizes)
                        c.prove(f"flux==h*sum(Re(ExH*)_c*A_c)[{direction},all,f{f},c{comp}]", v_eq(out.at_index((f, comp)), spec))
            else:
                c.prove(f"shape[{direction},single]", tuple(out.shape) == (nfreq,))
                for f in range(nfreq):
                    spec = half * sgn * L.wsum(lambda x, y, z: S(f, p, x, y, z), L.area_fn(W, p), sizes)
                    c.prove(f"flux==h*sum(Re(ExH*)_p*A_p)[{direction},single,f{f}]", v_eq(out.at_index((f,)), spec))
        for keep in (False, True):
            if keep in failed:
                inp.note("exception", failed[keep])
            c.prove(f"place_on_grid_succeeds/{'all' if keep else 'single'}_components", keep not in failed)

    return body


def _closed_task(nonuniform, sizes, axes, orientation, mode, nfreq=1):
    """ClosedSurfacePhasorPoyntingFluxDetector: accumulation per face and net flux"""

    def body(c, inp):
        from fdtdx.objects.detectors.poynting_flux import ClosedSurfacePhasorPoyntingFluxDetector as CSP

        _note(inp, kind="closed", nonuniform=nonuniform, sizes=sizes, axes=axes, orientation=orientation, mode=mode, nfreq=nfreq)
        shape, cfg = L.make_cfg(nonuniform)
        sl = L.region(shape, sizes, inp)
        W = L.width_fn(cfg, sl)
        wcs = _wcs(nfreq, "frequency", inp)
        det = CSP(name="cs", wave_characters=wcs, orientation=orientation, axes=axes, scaling_mode=mode, switch=L.on_switch()).place_on_grid(sl, cfg, L.key())
        active = tuple(axes) if axes is not None else tuple(a for a in range(3) if sizes[a] > 1)
        half = 0.5 if mode == "continuous" else 1
        sgn = -1 if orientation == "inward" else 1
        st = {}
        for a in active:
            plane = tuple(1 if i == a else sizes[i] for i in range(3))
            for side in ("min", "max"):
                st[f"phasor_axis{a}_{side}"] = A.fresh_array(f"P{a}{side}", (1, nfreq, 6, *plane), "complex")
        c.cover("pre")
        z = det.init_state()
        c.prove("init_state:face_records", sorted(z) == sorted(st))
        for kname in sorted(st):
            prove_arrays_equal(f"init_state:zeros[{kname}]", z[kname], A.zeros(st[kname].shape, "complex"))
        # ---- net flux of arbitrary face phasors
        out = det.compute_net_flux(st)
        c.prove("net_flux:shape", tuple(out.shape) == (nfreq,))

        def S(P, f, comp, x, y, z_):
            Ev = [P.at_index((0, f, i, x, y, z_)) for i in range(3)]
            Hv = [P.at_index((0, f, 3 + i, x, y, z_)) for i in range(3)]
            return L.re_cross_conj(Ev, Hv, comp)

        for f in range(nfreq):
            tot = 0
            for a in active:
                plane = tuple(1 if i == a else sizes[i] for i in range(3))
                Aa = L.area_fn(W, a)
                for side, sg in (("max", 1), ("min", -1)):
                    P = st[f"phasor_axis{a}_{side}"]
                    tot = tot + sg * L.wsum(lambda x, y, z_: S(P, f, a, x, y, z_), Aa, plane)
            c.prove(f"net_flux==h*s*sum_faces(+-Re(ExH*)_a*A_a)[f{f}]", v_eq(out.at_index((f,)), half * sgn * tot))
        # ---- accumulation per stored face (same summand as PhasorDetector, restricted to the face)
        for windowed in (False, True):
            d2, T, win, wsum, stride = _generalise(det)
            t = sym_int("t", lo=0)
            c.assume((t + 1 <= T).z)
            t_arr = A.SymArray((), lambda idx: t, "int", memo=False)
            w_t = win.at_index((A._raw_index(t),))
            hyp = [] if windowed else [(w_t == 1).z]  # no apodization: the window is the recorded-step mask
            E, H = L.fresh_fields(sizes, inp=inp, names=("E", "H"))
            new = d2.update(t_arr, E, H, dict(st), None, None)
            c.prove(f"update:face_records[{'apodized' if windowed else 'plain'}]", sorted(new) == sorted(st))
            s = _scale(mode, wsum, stride)
            dt = cfg.time_step_duration
            tag = "apodized" if windowed else "no_apodization"
            goal = True
            for a in active:
                for side in ("min", "max"):
                    kname = f"phasor_axis{a}_{side}"
                    ix = [slice(None)] * 3
                    ix[a] = slice(0, 1) if side == "min" else slice(sizes[a] - 1, sizes[a])
                    for f in range(nfreq):
                        ph = _expi(_omega(wcs[f]) * (t * dt))
                        for ci, nm in enumerate(L.COMPONENTS):
                            spec = st[kname][0, f, ci] + _field_of(nm, E, H)[tuple(ix)] * (w_t * ph * s)
                            goal = A._vand(goal, _all_equal(f"update:face_shape[{kname}]", new[kname][0, f, ci], spec))
            # one obligation per configuration: every stored face accumulates the windowed DFT summand
            c.prove(f"face_state'==state+win(t)*field*exp(i*w*t)*scale/{tag}", goal, extra_hyps=hyp)

    return body


def _all_equal(name, X, Y):
    """conjunction over all (few, concrete) cells of X == Y; shapes are proved equal separately"""
    from vc.obl import index_cases, prove_same_shape

    X, Y = A.asarray(X), A.asarray(Y)
    if not prove_same_shape(name, X, Y):
        return False
    goal = True
    for label, idx, h in index_cases(X.shape):
        goal = A._vand(goal, v_eq(X.at_index(idx), Y.at_index(idx)))
    return goal


# ---------------------------------------------------------------------------------------
# (run) bounded end-to-end under real JAX
# ---------------------------------------------------------------------------------------


class RealCodeRaised(Exception):
    pass


def _real_run(case, seed):
    """-> (max relative deviation, detail); an exception raised by the detector under test on this valid
    use counts as an infinite deviation (the detail carries the exception)"""
    try:
        return _real_run_inner(case, seed)
    except RealCodeRaised as e:
        return float("inf"), f"the real code raised on a valid input: {e} (case {case})"


def _real_run_inner(case, seed):
    """REAL detectors, real JAX (float64/complex128): drive update over T steps behind the recorded-step
    gate with a random field history; compare with the DFT computed by numpy from the FieldDetector
    record of the same run.  -> (max relative deviation, detail)"""
    import jax
    import jax.numpy as jnp
    import numpy as np

    from fdtdx.core.switch import OnOffSwitch
    from fdtdx.core.wavelength import WaveCharacter
    from fdtdx.core.window import GaussianWindow, TukeyWindow
    from fdtdx.objects.detectors.field import FieldDetector
    from fdtdx.objects.detectors.phasor import PhasorDetector
    from fdtdx.objects.detectors.poynting_flux import ClosedSurfacePhasorPoyntingFluxDetector, PhasorPoyntingFluxDetector

    rng = np.random.default_rng(seed)
    T = case["T"]
    nonuni = case.get("nonuniform", False)
    sizes = tuple(case.get("sizes", (2, 1, 3)))
    lo = (1, 0, 2)
    gshape = tuple(l + s + 1 for l, s in zip(lo, sizes))
    cfg = L.real_cfg(nonuni, gshape, time_steps=T, seed=seed)
    dt = float(cfg.time_step_duration)
    sl = tuple((l, l + s) for l, s in zip(lo, sizes))
    kk = jax.random.PRNGKey(0)
    sw = OnOffSwitch(**case.get("switch", {}))
    wl = case.get("wavelengths", (30 * dt * 299792458.0, 11 * dt * 299792458.0))
    wcs = tuple(WaveCharacter(wavelength=w) for w in wl)
    omegas = np.array([2 * np.pi * wc.get_frequency() for wc in wcs])
    apod = case.get("apodization")
    window = None
    if apod == "gaussian":
        window = GaussianWindow(center_time=0.45 * T * dt, sigma_time=0.2 * T * dt)
    elif apod == "tukey":
        window = TukeyWindow(start_time=0.1 * T * dt, end_time=0.9 * T * dt, alpha=0.5)
    elif apod == "hann":
        window = TukeyWindow(start_time=0.0, end_time=(T - 1) * dt, alpha=1.0)
    mode = case.get("mode", "continuous")
    sub = case.get("dft_subsample", 1)
    comps = tuple(case.get("comps", L.COMPONENTS))
    kind = case.get("detector", "phasor")
    common = dict(wave_characters=wcs, switch=sw, dtype=jnp.complex128, scaling_mode=mode, dft_subsample=sub, apodization=window)
    if kind == "phasor":
        det = PhasorDetector(name="ph", components=comps, reduce_volume=bool(case.get("reduce")), **common)
    elif kind == "plane":
        det = PhasorPoyntingFluxDetector(name="pp", direction=case.get("direction", "+"), keep_all_components=bool(case.get("keep")), fixed_propagation_axis=case.get("fixed_axis"), **common)
    else:
        det = ClosedSurfacePhasorPoyntingFluxDetector(name="cs", orientation=case.get("orientation", "outward"), axes=case.get("axes"), **common)
    cls_name = type(det).__name__

    def call(what, fn, *a):
        try:
            return fn(*a)
        except Exception as e:  # noqa: BLE001
            raise RealCodeRaised(f"{cls_name}.{what}: {type(e).__name__}: {e}") from e

    det = call("place_on_grid", det.place_on_grid, sl, cfg, kk)
    ref = FieldDetector(name="fd", components=L.COMPONENTS, switch=sw, dtype=jnp.float64).place_on_grid(sl, cfg, kk)
    st, rs = call("init_state", det.init_state), ref.init_state()
    hist = rng.normal(size=(T, 2, 3, *sizes))
    for t in range(T):
        tt = jnp.asarray(t, dtype=jnp.int32)
        E, H = jnp.asarray(hist[t, 0]), jnp.asarray(hist[t, 1])
        if bool(det._is_on_at_time_step_arr[t]):
            st = call("update", det.update, tt, E, H, st, None, None)
        if bool(ref._is_on_at_time_step_arr[t]):
            rs = ref.update(tt, E, H, rs, None, None)
    # ---- the spec, from the FieldDetector record of the same run
    base_on = np.asarray(ref._is_on_at_time_step_arr)
    steps_on = np.nonzero(base_on)[0]
    record = np.asarray(rs["fields"])  # (n_on, 6, *sizes), row i = i-th active step
    if sub == "auto":
        fmax = max(abs(float(wc.get_frequency())) for wc in wcs)
        stride = max(1, math.floor(1.0 / (12 * fmax * dt)))
    else:
        stride = max(1, int(sub))
    kept_rows = list(range(0, len(steps_on), stride))
    tk = steps_on[kept_rows]
    win = np.ones(len(tk)) if window is None else np.asarray(window.get_window(jnp.asarray(tk * dt)))
    scale = 2.0 / win.sum() if mode == "continuous" else float(stride)
    dft = np.einsum("t,tc...,ft->fc...", win, record[kept_rows], np.exp(1j * omegas[:, None] * (tk * dt)[None, :])) * scale  # (F, 6, *sizes)
    w = L.real_widths(cfg, sl)

    def area(a):
        out = np.ones(sizes)
        for b in range(3):
            if b != a:
                out = out * w[b].reshape([-1 if i == b else 1 for i in range(3)])
        return out

    def rel(a, b):
        a, b = np.asarray(a), np.asarray(b)
        if a.shape != b.shape:
            return float("inf")
        return float(np.max(np.abs(a - b)) / max(1e-300, np.max(np.abs(a)), np.max(np.abs(b))))

    Sv = np.real(np.cross(dft[:, :3], np.conj(dft[:, 3:]), axis=1))  # (F, 3, *sizes)
    half = 0.5 if mode == "continuous" else 1.0
    if kind == "phasor":
        idx = [L.COMPONENTS.index(n) for n in L.COMPONENTS if n in comps]
        exp = dft[:, idx]
        if case.get("reduce"):
            V = w[0][:, None, None] * w[1][None, :, None] * w[2][None, None, :]
            exp = (exp * V).sum(axis=(2, 3, 4)) / V.sum()
        dev = rel(np.asarray(st["phasor"])[0], exp)
    elif kind == "plane":
        fa = case.get("fixed_axis")
        p = fa if fa is not None else list(sizes).index(1)
        sg = -1.0 if case.get("direction", "+") == "-" else 1.0
        got = np.asarray(call("compute_poynting_flux", det.compute_poynting_flux, st))
        if case.get("keep"):
            exp = np.stack([(Sv[:, cc] * area(cc)).sum(axis=(1, 2, 3)) for cc in range(3)], axis=1) * half * sg
        else:
            exp = (Sv[:, p] * area(p)).sum(axis=(1, 2, 3)) * half * sg
        dev = rel(got, exp)
    else:
        axes = case.get("axes")
        active = tuple(axes) if axes is not None else (0, 1, 2)
        tot = np.zeros(len(wcs))
        for a in active:
            Sa = np.moveaxis(Sv[:, a] * area(a), 1 + a, 1)  # (F, n_a, ...)
            tot = tot + Sa[:, -1].sum(axis=(1, 2)) - Sa[:, 0].sum(axis=(1, 2))
        if case.get("orientation") == "inward":
            tot = -tot
        dev = rel(np.asarray(call("compute_net_flux", det.compute_net_flux, st)), tot * half)
        # the stored face phasors themselves (a size-one axis has a vanishing net flux whatever is stored)
        for kname, rec in st.items():
            a, side = int(kname[len("phasor_axis")]), kname.rsplit("_", 1)[1]
            face = np.take(dft, [0 if side == "min" else sizes[a] - 1], axis=2 + a)
            dev = max(dev, rel(np.asarray(rec)[0], face))
    return dev, f"T={T} recorded steps={list(map(int, tk))} stride={stride} window={apod} mode={mode} detector={kind}: max relative deviation from the DFT of the FieldDetector history = {dev:.3e}"


def _real_net_flux(spec, seed=0):
    """REAL ClosedSurfacePhasorPoyntingFluxDetector.compute_net_flux on random, mutually independent
    face phasors vs (1/2 in continuous mode) * sum_faces +-Re(E x conj H)_a * area"""
    import jax
    import jax.numpy as jnp
    import numpy as np

    from fdtdx.core.wavelength import WaveCharacter
    from fdtdx.objects.detectors.poynting_flux import ClosedSurfacePhasorPoyntingFluxDetector

    rng = np.random.default_rng(seed)
    sizes = tuple(spec["sizes"])
    lo = (1, 0, 2)
    cfg = L.real_cfg(bool(spec.get("nonuniform")), tuple(l + s + 1 for l, s in zip(lo, sizes)), time_steps=4, seed=seed)
    sl = tuple((l, l + s) for l, s in zip(lo, sizes))
    axes, mode = spec["axes"], spec["mode"]
    det = ClosedSurfacePhasorPoyntingFluxDetector(name="cs", wave_characters=(WaveCharacter(wavelength=1e-6), WaveCharacter(wavelength=0.7e-6)), orientation=spec["orientation"], axes=axes, scaling_mode=mode, dtype=jnp.complex128)
    try:
        det = det.place_on_grid(sl, cfg, jax.random.PRNGKey(0))
        st = {k: jnp.asarray(rng.normal(size=v.shape) + 1j * rng.normal(size=v.shape)) for k, v in det.init_state().items()}
        got = np.asarray(det.compute_net_flux(st))
    except Exception as e:  # noqa: BLE001
        return float("inf"), f"the real code raised on a valid input: {type(e).__name__}: {e}"
    w = L.real_widths(cfg, sl)
    exp = np.zeros(2)
    for a in tuple(axes) if axes is not None else tuple(i for i in range(3) if sizes[i] > 1):
        t = [b for b in range(3) if b != a]
        area = np.ones([1 if i == a else sizes[i] for i in range(3)])
        for b in t:
            area = area * w[b].reshape([-1 if i == b else 1 for i in range(3)])
        for side, sg in (("max", 1.0), ("min", -1.0)):
            P = np.asarray(st[f"phasor_axis{a}_{side}"])[0]
            Sa = np.real(np.cross(P[:, :3], np.conj(P[:, 3:]), axis=1))[:, a]
            exp = exp + sg * (Sa * area).sum(axis=(1, 2, 3))
    exp = exp * (0.5 if mode == "continuous" else 1.0) * (-1.0 if spec["orientation"] == "inward" else 1.0)
    dev = float(np.max(np.abs(got - exp)) / max(1e-300, np.max(np.abs(exp)), np.max(np.abs(got))))
    return dev, f"compute_net_flux on random independent face phasors, box {sizes}, axes={axes}, {spec['orientation']}, {mode}: real {got}, expected {exp} (relative deviation {dev:.3e})"


def _tol(case):
    """the window table is stored in float32 by place_on_grid (even for complex128 detectors), so
    apodized records carry ~1e-7 relative rounding; un-apodized records are exact to float64"""
    return 1e-9 if case.get("apodization") is None else 5e-6


def _run_cases(tier):
    sw_all = {}
    sw_gate = {"fixed_on_time_steps": [1, 2, 4, 5, 6, 9, 10, 11, 12, 15, 17]}
    sw_int = {"interval": 2}
    cases = []
    for det in ("phasor", "plane", "closed"):
        for mode in ("continuous", "pulse"):
            for apod in (None, "gaussian", "tukey"):
                for sub, sw in ((1, sw_all), (3, sw_gate), ("auto", sw_int), (2, sw_all)):
                    case = dict(detector=det, T=18, mode=mode, apodization=apod, dft_subsample=sub, switch=sw)
                    if det == "phasor":
                        case.update(comps=("Ey", "Hx", "Hz") if sub == 3 else L.COMPONENTS, reduce=(sub == 2), nonuniform=(apod == "tukey"))
                    elif det == "plane":
                        case.update(keep=False, direction="-" if sub == 3 else "+", nonuniform=(apod == "gaussian"))
                    else:
                        case.update(sizes=(2, 2, 3), orientation="inward" if sub == 2 else "outward", axes=(0, 2) if sub == 3 else None, nonuniform=(apod is None))
                    cases.append(case)
    if tier != "thorough":
        cases = [cs for i, cs in enumerate(cases) if i % 2 == 0 or cs["detector"] == "closed"]
    return cases


def _run_task(cases):
    def body(c, inp):
        for i, case in enumerate(cases):
            dev, detail = _real_run(case, seed=i)
            c.bounded(f"run/{case['detector']}/{case['mode']}/apod={case['apodization']}/sub={case['dft_subsample']}", dev <= _tol(case), case=case, witness={"notes": {"spec": {"kind": "'run'"}, "case": case, "detail": detail}})

    return body


# ---------------------------------------------------------------------------------------
# task table
# ---------------------------------------------------------------------------------------


def _all_comp_sets():
    out = []
    for r in range(1, 7):
        out += list(itertools.combinations(L.COMPONENTS, r))
    return out


def _lab(sizes):
    return "x".join(str(s) for s in sizes)


def _configs(tier, seed):
    rnd = random.Random(seed)
    thorough = tier == "thorough"
    out = {}
    # (step)
    sets = _all_comp_sets()
    if not thorough:
        sets = [s for s in sets if len(s) in (1, 6)] + rnd.sample([s for s in sets if 1 < len(s) < 6], 10)
    for i, comps in enumerate(sets):
        for mode in ("continuous", "pulse"):
            nf = 1 + (i + (mode == "pulse")) % 2
            how = ("frequency", "frequency", "wavelength", "period")[i % 4]
            out[f"step/{'+'.join(comps)}/{mode}/f{nf}/{how}"] = _step_task(comps, nf, mode, how, nonuniform=(i % 3 != 0))
    for i, sizes in enumerate([(1, 1, 1), (2, 1, 2), (1, 2, 3), (2, 2, 2)] + ([(3, 3, 3), (3, 1, 1)] if thorough else [])):
        for mode in ("continuous", "pulse"):
            out[f"step_reduced/{_lab(sizes)}/{mode}"] = _step_reduced_task(sizes, sets[(3 * i) % len(sets)], mode, nonuniform=(i % 2 == 0))
    # (setup): all on-lists up to Tmax with at least one active step, explicit strides
    Tmax = 7 if thorough else 5
    onlists = [on for T in range(1, Tmax + 1) for on in itertools.product((False, True), repeat=T) if any(on)]
    if not thorough:
        small = [on for on in onlists if len(on) <= 3]
        onlists = small + rnd.sample([on for on in onlists if len(on) > 3], 18) + [(True,) * 5, (False, True, True, False, True)]
    combos = []
    for i, on in enumerate(onlists):
        for stride in (1, 2, 3) if thorough else ((1, 2, 3)[i % 3], (2, 1, 4, 0)[i % 4]):
            combos.append((on, stride, (i + stride) % 2 == 0, ("continuous", "pulse")[(i + stride) % 2 if not thorough else i % 2]))
    combos = sorted(set(combos))
    for j, (on, stride, apod, mode) in enumerate(combos):
        comps = [("Ex", "Ey", "Ez", "Hx", "Hy", "Hz"), ("Ez",), ("Ex", "Hy"), ("Ey", "Ez", "Hx")][j % 4]
        cls = "PhasorPoyntingFluxDetector" if j % 7 == 3 else "PhasorDetector"
        lab = "".join("1" if o else "0" for o in on)
        nf = 1 if stride > 1 else 1 + j % 2  # max() over several symbolic frequencies would fork
        out[f"setup/on{lab}/stride{stride}/{'apod' if apod else 'plain'}/{mode}/{cls}"] = _setup_task(on, stride, apod, mode, comps, nf, cls)
    # (flux)
    planes = [(1, 2, 3), (3, 1, 2), (2, 3, 1), (1, 1, 1), (2, 2, 1)] + ([s for s in itertools.product((1, 2, 3), repeat=3) if sum(1 for v in s if v == 1) == 1] if thorough else [])
    for i, sizes in enumerate(sorted(set(planes))):
        for nonuni, gl in ((False, "uni"), (True, "rect")):
            mode = ("continuous", "pulse")[(i + int(nonuni)) % 2]
            fa = None if sum(1 for v in sizes if v == 1) == 1 else i % 3
            for m in ("continuous", "pulse") if thorough else (mode,):
                out[f"plane_flux/{gl}/{_lab(sizes)}/{'auto' if fa is None else f'fixed{fa}'}/{m}"] = _plane_flux_task(nonuni, sizes, fa, m)
    for sizes, fa in [((2, 2, 2), 0), ((1, 2, 3), 1), ((2, 1, 1), 2)]:
        out[f"plane_flux/rect/{_lab(sizes)}/fixed{fa}/continuous"] = _plane_flux_task(True, sizes, fa, "continuous")
    # a fixed axis on planes NOT normal to it (the size-one axis must be ignored) and on the plane normal
    # to it, for every axis (0 included), volumes and lines as well
    fixed = [((2, 1, 3), 0), ((3, 2, 1), 0), ((1, 2, 3), 1), ((2, 3, 1), 1), ((1, 3, 2), 2), ((3, 1, 2), 2), ((1, 2, 2), 0), ((2, 1, 2), 1), ((2, 2, 1), 2), ((1, 1, 2), 0), ((2, 2, 2), 1), ((2, 1, 1), 0)]
    for i, (sizes, fa) in enumerate(fixed):
        for nonuni, gl in ((False, "uni"), (True, "rect")):
            m = ("continuous", "pulse")[(i + int(nonuni)) % 2]
            out.setdefault(f"plane_flux/{gl}/{_lab(sizes)}/fixed{fa}/{m}", _plane_flux_task(nonuni, sizes, fa, m))
    boxes = [((2, 2, 2), None), ((3, 2, 2), None), ((2, 1, 3), None), ((2, 3, 1), (0, 1)), ((1, 1, 1), (0, 1, 2)), ((2, 2, 1), (2,))]
    if thorough:
        boxes += [((3, 3, 3), None), ((1, 3, 2), None), ((3, 3, 2), (0, 2)), ((2, 2, 2), (1,))]
    for i, (sizes, axes) in enumerate(boxes):
        for nonuni, gl in ((False, "uni"), (True, "rect")):
            for orientation in ("outward", "inward") if thorough else (("outward", "inward")[(i + int(nonuni)) % 2],):
                mode = ("continuous", "pulse")[(i + int(nonuni)) % 2]
                out[f"closed/{gl}/{_lab(sizes)}/axes{axes}/{orientation}/{mode}"] = _closed_task(nonuni, sizes, axes, orientation, mode)
    return out


def tasks(tier, seed):
    out = L.grouped(_configs(tier, seed), 15 if tier == "quick" else 30)
    Ts = list(range(1, 8)) if tier == "quick" else list(range(1, 10))
    out["thin/enumeration"] = Task(_thin_task(Ts, (0, 1, 2, 3, 4, 5, 7)))
    cases = _run_cases(tier)
    n = 2 if tier == "quick" else 4
    for i in range(n):
        out[f"run/{i:02d}"] = Task(_run_task(cases[i::n]), modules=[], patch_names=())
    return out


# ---------------------------------------------------------------------------------------
# replay
# ---------------------------------------------------------------------------------------


_REPLAY_CACHE = {}


def replay(key, obligation, witness):
    """memoised per configuration (many obligations of one configuration share one real-code run)"""
    import json

    ck = json.dumps(((witness or {}).get("notes") or {}), sort_keys=True, default=str)
    if ck not in _REPLAY_CACHE:
        _REPLAY_CACHE[ck] = _replay(key, obligation, witness)
    return _REPLAY_CACHE[ck]


def _replay(key, obligation, witness):
    """Real detectors under real JAX: drive the failing configuration class over a random field
    history and compare the record / flux with the windowed DFT of the FieldDetector history."""
    notes = (witness or {}).get("notes") or {}
    spec = K.parse_spec(notes)
    kind = spec.get("kind")
    if kind == "run":
        dev, detail = _real_run(notes["case"], seed=0)
        return dev > _tol(notes["case"]), detail
    if kind == "thin":
        from fdtdx.core.switch import OnOffSwitch
        from fdtdx.core.wavelength import WaveCharacter
        from fdtdx.objects.detectors.phasor import PhasorDetector

        case = notes.get("case") or {}
        on, stride = case.get("on"), case.get("stride")
        if on is None:
            return False, "no failing on-list recorded"
        cfg = L.real_cfg(False, (2, 2, 2), time_steps=len(on))
        det = PhasorDetector(name="p", wave_characters=(WaveCharacter(wavelength=1e-6),), dft_subsample=stride, switch=OnOffSwitch(fixed_on_time_steps=[t for t, o in enumerate(on) if o]))
        det = scene._place(det, ((0, 1),) * 3, cfg)
        try:
            got = [bool(x) for x in det._calculate_on_list()]
        except Exception as e:  # noqa: BLE001
            got = f"raised {type(e).__name__}: {e}"
        exp = _thin(on, max(1, stride))
        return got != exp, f"on={on} stride={stride}: real _calculate_on_list -> {got}, every stride-th active step -> {exp}"
    cases = []
    if kind in ("step", "step_reduced", "setup"):
        comps = tuple(spec.get("comps", L.COMPONENTS))
        for apod in (None, "gaussian"):
            for sub in (1, max(2, int(spec.get("stride", 2) or 2))):
                cases.append(dict(detector="phasor" if spec.get("cls", "PhasorDetector") == "PhasorDetector" else "plane", T=14, mode=spec.get("mode", "continuous"), apodization=apod, dft_subsample=sub, comps=comps, reduce=(kind == "step_reduced"), sizes=tuple(spec["sizes"]) if kind == "step_reduced" else (2, 1, 3), nonuniform=bool(spec.get("nonuniform", True)), fixed_axis=1))
    elif kind == "plane_flux":
        for keep in (False, True):
            for d in "+-":
                cases.append(dict(detector="plane", T=10, mode=spec["mode"], apodization=None, dft_subsample=1, keep=keep, direction=d, sizes=tuple(spec["sizes"]), fixed_axis=spec["fixed_axis"], nonuniform=bool(spec["nonuniform"])))
    elif kind == "closed":
        dev, detail = _real_net_flux(spec)
        if dev > 1e-9:
            return True, detail
        for apod in (None, "gaussian", "tukey"):
            cases.append(dict(detector="closed", T=12, mode=spec["mode"], apodization=apod, dft_subsample=1, sizes=tuple(spec["sizes"]), axes=spec["axes"], orientation=spec["orientation"], nonuniform=bool(spec["nonuniform"])))
    else:
        return False, f"no replay for configuration kind {kind!r}"
    details = []
    for i, case in enumerate(cases):
        dev, detail = _real_run(case, seed=i)
        details.append(detail)
        if dev > _tol(case):
            return True, "real detector deviates from the windowed DFT of the field history:\n" + "\n".join(details)
    return False, "\n".join(details)
