"""C23  Fabrication clean-up keeps exactly the connected material.

What is PROVED (symbolic grid shape Nx,Ny,Nz >= 3, symbolic binary design, all inputs):

  Loop contract of the flood fill in compute_polymer_connection / compute_air_connection
  (`jax.lax.fori_loop(0, max(shape), body, seeds)` is replaced by a contract stub that runs the REAL
  loop body once on an arbitrary state):
      R := an ARBITRARY set that contains the seed cells lying in the mask and is closed under
           "face-neighbour inside the mask"; the reachable set Reach is the smallest such set.
      Inv(c):  c[q] => R[q] or seed[q]
      one real pass D:   Inv(c)  =>  D(c)[p] => R[p] and mask[p]              (soundness, stays in mask)
                         c[p] and mask[p] => D(c)[p]                          (extensive)
                         c[q] and mask[q] and mask[p] and q~p => D(c)[p]      (adds every face neighbour)
                         c <= c'  =>  D(c) <= D(c')                           (monotone)
      trip count >= 1.
  Hence connected <= Reach for every closed R, i.e. NOTHING UNREACHABLE IS KEPT, and a state that is a
  fixpoint of D equals Reach (completeness *conditional on* the loop having reached its fixpoint).
  On top of the contract: remove_floating_polymer and RemoveFloatingMaterial.__call__ (both background
  indices) keep only cells that are material and reachable, never add material, and write only the
  two material indices.

What is NOT provable (and false): that max(shape) passes reach the fixpoint.  That clause, the
single-layer (Nz == 1) case and the whole of connect_holes_and_structures / connect_slice are covered
by a BOUNDED search only: the real code under real JAX on enumerated / seeded-random / adversarial
(serpentine, spiral, 3-D snake) designs against a scipy.ndimage.label flood-fill oracle.
"""

from __future__ import annotations

import itertools
import random

import z3

from vc import array as A
from vc.array import SymArray
from vc.core import SymBool, SymNum, ctx, zbool
from vc.harness import Task
from vc.obl import index_cases, sym_int

ID = "C23"
LEVEL = "proof"
TECHNIQUE = "loop contract (inductive invariant c <= R for an arbitrary mask-closed set R) discharged on the real dilation pass with symbolic shape and design, z3; completeness and connect_holes_and_structures by bounded search with a flood-fill oracle"
BT_MOD = "fdtdx.objects.device.parameters.binary_transform"
MODULES = [BT_MOD, "fdtdx.objects.device.parameters.discrete", "fdtdx.core.jax.ste", "fdtdx.core.misc", "fdtdx.materials"]
FILES = ["src/fdtdx/objects/device/parameters/binary_transform.py", "src/fdtdx/objects/device/parameters/discrete.py"]
FUNCTIONS = [
    "fdtdx.objects.device.parameters.binary_transform.seperated_3d_dilation (as the fori_loop body of both flood fills)",
    "fdtdx.objects.device.parameters.binary_transform.compute_polymer_connection",
    "fdtdx.objects.device.parameters.binary_transform.compute_air_connection",
    "fdtdx.objects.device.parameters.binary_transform.remove_floating_polymer",
    "fdtdx.objects.device.parameters.discrete.RemoveFloatingMaterial.__call__",
    "fdtdx.objects.device.parameters.binary_transform.connect_holes_and_structures / connect_slice / dilate_jax (bounded only)",
    "fdtdx.objects.device.parameters.discrete.ConnectHolesAndStructures.__call__ (bounded only)",
]
INLINED = ["fdtdx.core.jax.ste.straight_through_estimator", "fdtdx.core.misc.get_background_material_name", "fdtdx.materials.compute_ordered_names"]
STUBS = ["jax.lax.fori_loop inside compute_polymer_connection / compute_air_connection: replaced by the loop contract above (its obligations are proved on the real loop body in the same task); a run-to-fixpoint jax.lax.while_loop(cond, step, (state, flag)) whose step is one dilation pass is handled by the same contract, its exit flag treated as an arbitrary boolean"]
ASSUMPTIONS = [
    "every grid dimension >= 3 in the deductive part (jax.scipy.signal.convolve2d swaps its operands or raises for an image smaller than the 3x3 kernel); Nz == 1 designs only in the bounded part",
    "jax.scipy.signal.convolve2d(mode='same', boundary='fill') = textbook zero-filled convolution (vc/signal.py, cross-checked against real JAX on concrete data inside this check)",
    "'connected' = reachable from a bottom-layer (z index 0) material cell through face-adjacent material cells; background 'enclosed' = not reachable from the top layer or the four side faces through face-adjacent background cells",
    "the completeness direction (every reachable cell is kept), single-layer designs and connect_holes_and_structures are NOT proved: bounded stand-in on the designs listed in LEVEL_NOTE",
]
MIN_OBLIGATIONS = {"quick": 300, "thorough": 300}  # after the fixpoint-loop fix the flood fills no longer fork on max(shape)
LEVEL_TEXT = "Deductive proof, for all grid shapes >= 3^3 and all binary designs, that one real dilation pass preserves 'subset of every mask-closed set containing the seeds', stays in the mask, is extensive/monotone and adds every face neighbour; composed through the real compute_polymer_connection, compute_air_connection, remove_floating_polymer and RemoveFloatingMaterial.__call__ this gives: only connected material is kept, nothing is added"
LEVEL_NOTE = "completeness (fixpoint reached in max(shape) passes), Nz == 1 and connect_holes_and_structures are bounded only: all y-constant designs on 3x3x3 and 4x3x4, seeded random designs on shapes up to 8x8x4 (thorough 10x10x6), serpentine/spiral/snake templates up to 9 cells per axis (thorough 15), real code under real JAX against scipy.ndimage.label"
BOUNDED_RULE = "real remove_floating_polymer / RemoveFloatingMaterial / connect_holes_and_structures / ConnectHolesAndStructures under real JAX on enumerated, seeded-random and adversarial designs; oracle = scipy.ndimage.label with face connectivity"

N4 = ((0, 1, 0), (1, 1, 1), (0, 1, 0))


# ---------------------------------------------------------------------------------------
# deductive part
# ---------------------------------------------------------------------------------------


def _ball():
    """offsets reachable by one pass xy -> xz -> yz (and a margin): |d|_inf <= 2, |d|_1 <= 3"""
    return [d for d in itertools.product(range(-2, 3), repeat=3) if sum(abs(x) for x in d) <= 3]


UNIT = [(1, 0, 0), (-1, 0, 0), (0, 1, 0), (0, -1, 0), (0, 0, 1), (0, 0, -1)]


def _add(p, d):
    return tuple(a + b for a, b in zip(p, d))


def _inr(q, shape):
    res = True
    for v, n in zip(q, shape):
        res = A._vand(res, A._vand(v >= 0, v < n))
    return res


def _at(arr, q):
    return arr.at_index(tuple(A._raw_index(v) for v in q))


def _imp(a, b):
    return A._vor(A._vnot(a), b)


class _Spec:
    """mask / R / seed predicates in the coordinates of the loop state (which may be z-padded)"""

    def __init__(self, lshape, mask_at, R_at, seed_at):
        self.lshape = lshape
        self.mask_at = mask_at
        self.R_at = R_at
        self.seed_at = seed_at  # spec seeds: cells that R is known to contain when they lie in the mask

    def facts(self, p):
        """instances, on the ball around p, of:  seed & mask => R;  R[q'] & mask[q] & q~q' => R[q]"""
        out = []
        pts = [_add(p, d) for d in _ball()]
        offs = set(_ball())
        for d in _ball():
            q = _add(p, d)
            out.append(_imp(A._vand(_inr(q, self.lshape), A._vand(self.seed_at(q), self.mask_at(q))), self.R_at(q)))
            for u in UNIT:
                d2 = _add(d, u)
                if d2 not in offs:
                    continue
                q2 = _add(p, d2)
                out.append(_imp(A._vand(A._vand(_inr(q, self.lshape), _inr(q2, self.lshape)), A._vand(self.R_at(q2), self.mask_at(q))), self.R_at(q)))
        del pts
        return [zbool(f) for f in out if f is not True]


def _make_loop_stub(c, spec_of, tag, log):
    """contract stub for jax.lax.fori_loop(lo, hi, body, init) of the flood fills"""

    def stub(lo, hi, body_fn, init):
        init = A.asarray(init)
        sp = spec_of(init.shape)
        lshape = init.shape
        log.append(tag)
        trip = hi - lo
        c.prove(f"{tag}/loop:at_least_one_pass", trip >= 1)
        it = sym_int("it", lo=0)
        cur = A.fresh_array("cur", lshape, "bool")
        cur2 = A.fresh_array("cur_sup", lshape, "bool")
        if getattr(c, "inputs", None) is not None:
            c.inputs.array("cur", cur, default=False)
            c.inputs.array("cur_sup", cur2, default=False)
        out = A.asarray(body_fn(it, cur))
        out2 = A.asarray(body_fn(it, cur2))
        c.prove(f"{tag}/loop:state_shape_kept", all(A._dim_same_syntactic(x, y) or A.dim_eq(x, y) for x, y in zip(out.shape, lshape)) and out.ndim == 3)
        for label, idx, hy in index_cases(lshape):
            p = tuple(A._wrap_idx(i) for i in idx)
            facts = sp.facts(p)
            inv = []
            mono = []
            for d in _ball():
                q = _add(p, d)
                g = _inr(q, lshape)
                inv.append(zbool(_imp(A._vand(g, _at(cur, q)), A._vor(sp.R_at(q), _at(init, q)))))
                mono.append(zbool(_imp(A._vand(g, _at(cur, q)), _at(cur2, q))))
            op = _at(out, p)
            # seeds of the code that lie in the mask are spec seeds (what "connected to the bottom layer" means)
            c.prove(f"{tag}/loop:code_seed_in_mask_is_spec_seed[{label}]", _imp(A._vand(_at(init, p), sp.mask_at(p)), sp.seed_at(p)), extra_hyps=hy)
            # a seed cell's in-plane neighbour inside the mask is itself reachable (layer seeds: it is a seed; masked seeds: closure)
            for u in [(0, 0, 0), *UNIT[:4]]:
                q = _add(p, u)
                c.prove(f"{tag}/loop:seed_leak_is_reachable[{label}]{u}", _imp(A._vand(A._vand(_inr(q, lshape), _at(init, q)), sp.mask_at(p)), sp.R_at(p)), extra_hyps=hy + facts)
            c.prove(f"{tag}/pass:sound_and_in_mask[{label}]", _imp(op, A._vand(sp.R_at(p), sp.mask_at(p))), extra_hyps=hy + facts + inv)
            c.prove(f"{tag}/pass:extensive[{label}]", _imp(A._vand(_at(cur, p), sp.mask_at(p)), op), extra_hyps=hy)
            for u in UNIT:
                q = _add(p, u)
                c.prove(f"{tag}/pass:adds_face_neighbour[{label}]{u}", _imp(A._vand(A._vand(_inr(q, lshape), _at(cur, q)), A._vand(sp.mask_at(q), sp.mask_at(p))), op), extra_hyps=hy)
            c.prove(f"{tag}/pass:monotone[{label}]", _imp(op, _at(out2, p)), extra_hyps=hy + mono)
        # what the loop guarantees after >= 1 passes
        return A.fresh_array("flood", lshape, "bool", fact=lambda v, idx: _imp(v, A._vand(sp.R_at(idx), sp.mask_at(idx))))

    return stub


def _shape(inp, nz1=False):
    dims = []
    for n in "xyz":
        if nz1 and n == "z":
            dims.append(1)
            continue
        d = sym_int("N" + n, lo=3)
        inp.scalar("N" + n, d)
        dims.append(d)
    return tuple(dims)


class _patched_loop:
    """installs the loop contract for `jax.lax.fori_loop(lo, hi, body, seeds)` and, should the flood fill be
    rewritten as a run-to-fixpoint loop, for `jax.lax.while_loop(cond, step, (seeds, flag))` whose step
    performs one dilation pass on element 0 of the carry.  The exit flag (`jnp.any(new != old)`, a
    reduction over symbolic axes) is treated as an arbitrary boolean: only what holds after >= 1 passes
    for ANY number of passes is used."""

    def __init__(self, stub):
        self.stub = stub

    def __enter__(self):
        import importlib

        from vc.core import Unsupported
        from vc.obl import sym_bool

        bt = importlib.import_module(BT_MOD)
        self.lax = bt.jax.lax
        self.jnp = bt.jnp
        self.saved = (self.lax.fori_loop, self.lax.while_loop, self.jnp.any)
        stub = self.stub
        orig_any = self.jnp.any

        def any_(a, *args, **kw):
            try:
                return orig_any(a, *args, **kw)
            except Unsupported:
                return A.asarray(sym_bool("any_over_symbolic_axes"))

        def while_stub(cond_fun, body_fun, init_val, **kw):
            if not isinstance(init_val, (tuple, list)) or len(init_val) < 1 or A.asarray(init_val[0]).ndim != 3:
                raise Unsupported("while_loop carry is not (state, ...) with a 3-d state")
            first = cond_fun(init_val)
            first = first.item() if isinstance(first, SymArray) else first
            ctx().prove("loop:while_condition_true_on_entry", bool(first) if not isinstance(first, SymBool) else first)
            rest = tuple(init_val[1:])
            res = stub(0, 1, lambda i, arr: body_fun((arr, *rest))[0], init_val[0])
            return (res, *[A.asarray(False) for _ in rest])

        self.lax.fori_loop = stub
        self.lax.while_loop = while_stub
        self.jnp.any = any_

    def __exit__(self, *a):
        self.lax.fori_loop, self.lax.while_loop, self.jnp.any = self.saved


def _polymer_spec(M, R, shape, padded):
    """spec in loop coordinates.  padded: the loop state is the design with one zero layer below and above."""

    def mk(lshape):
        if not padded:
            return _Spec(lshape, lambda q: _at(M, q), lambda q: _at(R, q), lambda q: q[2] == 0)
        return _Spec(
            lshape,
            lambda q: A._vand(q[2] == 1, _at(M, (q[0], q[1], 0))),
            lambda q: A._vand(q[2] == 1, _at(R, (q[0], q[1], 0))),
            lambda q: q[2] == 1,
        )

    return mk


def _polymer_body(nz1, level):
    """level: 'connection' | 'remove' | 'module0' | 'module1'"""

    def body(c, inp):
        import importlib

        bt = importlib.import_module(BT_MOD)
        shape = _shape(inp, nz1)
        R = A.fresh_array("R", shape, "bool")
        log = []
        c.cover("pre")
        if level.startswith("module"):
            import fdtdx
            from fdtdx.objects.device.parameters.discrete import RemoveFloatingMaterial

            bg = int(level[-1])
            P = A.fresh_array("P", shape, "int", fact=lambda v, idx: A._vand(v >= 0, v <= 1))
            inp.array("P", P, default=0)
            inp.note("background_idx", bg)
            M = SymArray(shape, lambda idx: P.at_index(idx) != bg, "bool")
            mats = {"lo": fdtdx.Material(permittivity=1.0), "hi": fdtdx.Material(permittivity=2.25)}
            mod = RemoveFloatingMaterial(background_material=None if bg == 0 else "hi")
            mod = mod.init_module(config=None, materials=mats, matrix_voxel_grid_shape=shape, single_voxel_size=(1.0, 1.0, 1.0), output_shape={"p": shape})
            with _patched_loop(_make_loop_stub(c, _polymer_spec(M, R, shape, nz1), "polymer", log)):
                res = mod({"p": P})
            c.prove("RemoveFloatingMaterial/post:single_key", list(res.keys()) == ["p"])
            out = A.asarray(res["p"])
            c.prove("RemoveFloatingMaterial/post:shape", out.ndim == 3 and all(A._dim_same_syntactic(x, y) for x, y in zip(out.shape, shape)))
            for label, idx, hy in index_cases(shape):
                v = out.at_index(idx)
                c.prove(f"RemoveFloatingMaterial/post:binary_index[{label}]", A._vor(A.v_eq(v, 0), A.v_eq(v, 1)), extra_hyps=hy)
                c.prove(f"RemoveFloatingMaterial/post:kept_material_was_material_and_is_connected[{label}]", _imp(A._vnot(A.v_eq(v, bg)), A._vand(M.at_index(idx), R.at_index(idx))), extra_hyps=hy)
                c.prove(f"RemoveFloatingMaterial/post:kept_cells_unchanged[{label}]", _imp(A._vnot(A.v_eq(v, bg)), A.v_eq(v, P.at_index(idx))), extra_hyps=hy)
        else:
            M = A.fresh_array("M", shape, "bool")
            inp.array("M", M, default=False)
            with _patched_loop(_make_loop_stub(c, _polymer_spec(M, R, shape, nz1), "polymer", log)):
                out = bt.compute_polymer_connection(M) if level == "connection" else bt.remove_floating_polymer(M)
            out = A.asarray(out)
            nm = "compute_polymer_connection" if level == "connection" else "remove_floating_polymer"
            c.prove(f"{nm}/post:shape", out.ndim == 3 and all(A._dim_same_syntactic(x, y) or A.dim_eq(x, y) for x, y in zip(out.shape, shape)))
            for label, idx, hy in index_cases(shape):
                c.prove(f"{nm}/post:only_connected_material[{label}]", _imp(out.at_index(idx), A._vand(M.at_index(idx), R.at_index(idx))), extra_hyps=hy)
        c.prove("flood_fill_loop_reached_once", log == ["polymer"])

    return body


def _air_body(c, inp):
    import importlib

    bt = importlib.import_module(BT_MOD)
    shape = _shape(inp)
    M = A.fresh_array("M", shape, "bool")
    inp.array("M", M, default=False)
    R = A.fresh_array("Rair", shape, "bool")
    log = []

    def border(q):
        res = q[2] == shape[2] - 1
        for ax in (0, 1):
            res = A._vor(res, A._vor(q[ax] == 0, q[ax] == shape[ax] - 1))
        return res

    spec = lambda lshape: _Spec(lshape, lambda q: A._vnot(_at(M, q)), lambda q: _at(R, q), border)  # noqa: E731
    c.cover("pre")
    with _patched_loop(_make_loop_stub(c, spec, "air", log)):
        out = A.asarray(bt.compute_air_connection(M))
    c.prove("compute_air_connection/post:shape", out.ndim == 3 and all(A._dim_same_syntactic(x, y) or A.dim_eq(x, y) for x, y in zip(out.shape, shape)))
    for label, idx, hy in index_cases(shape):
        c.prove(f"compute_air_connection/post:only_background_connected_to_sides_or_top[{label}]", _imp(out.at_index(idx), A._vand(A._vnot(M.at_index(idx)), R.at_index(idx))), extra_hyps=hy)
    c.prove("flood_fill_loop_reached_once", log == ["air"])


def _shim_crosscheck(seed):
    """the convolve2d shim and the shimmed dilation pass agree with real JAX on seeded concrete data"""

    def body(c, inp):
        import importlib

        import jax
        import jax.numpy as rjnp
        import numpy as np

        from vc.signal import convolve2d

        bt = importlib.import_module(BT_MOD)
        rng = np.random.default_rng(seed)
        for t in range(6):
            sh = tuple(int(x) for x in rng.integers(3, 6, size=2))
            img = rng.random(sh) < 0.4
            ker = rng.random((3, 3)) < 0.6 if t % 2 else np.array(N4, dtype=bool)
            ref = np.asarray(jax.scipy.signal.convolve2d(rjnp.asarray(img), rjnp.asarray(ker), mode="same", boundary="fill"))
            got = convolve2d(A.asarray(img), A.asarray(ker), mode="same").to_numpy(float)
            c.prove(f"shim/convolve2d_matches_real_jax[{t}]", bool(got.shape == ref.shape and np.abs(got - ref).max() < 1e-6))
        for t in range(2):
            sh = tuple(int(x) for x in rng.integers(3, 5, size=3))
            arr = rng.random(sh) < 0.3
            mask = rng.random(sh) < 0.7
            k = np.array(N4, dtype=bool)
            sym = bt.seperated_3d_dilation(A.asarray(arr), A.asarray(k), A.asarray(k), A.asarray(k), A.asarray(mask)).to_numpy(bool)
            saved = (bt.jnp, bt.jax)
            bt.jnp, bt.jax = rjnp, jax
            try:
                ref = np.asarray(bt.seperated_3d_dilation(rjnp.asarray(arr), rjnp.asarray(k), rjnp.asarray(k), rjnp.asarray(k), rjnp.asarray(mask)))
            finally:
                bt.jnp, bt.jax = saved
            c.prove(f"shim/dilation_pass_matches_real_jax[{t}]", bool((sym == ref).all()))

    return body


# ---------------------------------------------------------------------------------------
# bounded part (real code, real JAX)
# ---------------------------------------------------------------------------------------


def _label_reach(m, seed):
    import numpy as np
    from scipy import ndimage

    lab, _ = ndimage.label(m)  # default structure = face connectivity
    ids = np.unique(lab[seed & m])
    ids = ids[ids != 0]
    return np.isin(lab, ids) & m


def oracle_connected(m):
    import numpy as np

    seed = np.zeros_like(m)
    seed[..., 0] = True
    return _label_reach(m, seed)


def oracle_enclosed_background(m):
    import numpy as np

    a = ~m
    seed = np.zeros_like(m)
    seed[..., -1] = True
    seed[0] = True
    seed[-1] = True
    seed[:, 0] = True
    seed[:, -1] = True
    return a & ~_label_reach(a, seed)


def serpentine_xz(nx, ny, nz):
    import numpy as np

    m = np.zeros((nx, ny, nz), bool)
    for x in range(0, nx, 2):
        m[x, :, 1:] = True
    m[0, :, 0] = True
    for k, x in enumerate(range(1, nx, 2)):
        m[x, :, nz - 1 if k % 2 == 0 else 1] = True
    return m


def serpentine_xy(nx, ny, nz, z):
    import numpy as np

    m = np.zeros((nx, ny, nz), bool)
    for y in range(0, ny, 2):
        m[:, y, z] = True
    for k, y in enumerate(range(1, ny, 2)):
        m[nx - 1 if k % 2 == 0 else 0, y, z] = True
    m[0, 0, : z + 1] = True
    return m


def spiral_xy(n, nz, z):
    """square spiral of width-1 material in the plane z, attached to the bottom by a pillar at its outer end"""
    import numpy as np

    m = np.zeros((n, n, nz), bool)
    x = y = 0
    dx, dy = 1, 0
    lo_x, hi_x, lo_y, hi_y = 0, n - 1, 0, n - 1
    m[0, 0, : z + 1] = True
    steps = 0
    while lo_x <= hi_x and lo_y <= hi_y and steps < 4 * n * n:
        m[x, y, z] = True
        nx_, ny_ = x + dx, y + dy
        if not (lo_x <= nx_ <= hi_x and lo_y <= ny_ <= hi_y):
            # turn, shrink the box by two so that the arms do not touch
            if (dx, dy) == (1, 0):
                lo_y += 2
            elif (dx, dy) == (0, 1):
                hi_x -= 2
            elif (dx, dy) == (-1, 0):
                hi_y -= 2
            else:
                lo_x += 2
            dx, dy = -dy, dx
            nx_, ny_ = x + dx, y + dy
            if not (lo_x <= nx_ <= hi_x and lo_y <= ny_ <= hi_y):
                break
        x, y = nx_, ny_
        steps += 1
    return m


def snake_3d(n):
    """the 3x3x3 minimal witness pattern generalised: a width-1 path climbing up, across and down again"""
    import numpy as np

    m = np.zeros((n, n, n), bool)
    m[0, n - 1, :] = True  # pillar up at (0, n-1)
    m[0, :, n - 1] = True  # across the top along y
    m[0, 0, 1:] = True  # down again at (0, 0), stopping above the bottom layer
    m[1:, 0, 1] = True  # and along x just above the bottom
    return m


def _templates(tier):
    big = 15 if tier == "thorough" else 9
    out = []
    for n in range(3, big + 1, 2):
        out.append((f"serpentine_xz_{n}x3x{n}", serpentine_xz(n, 3, n)))
        out.append((f"serpentine_xy_{n}x{n}x3", serpentine_xy(n, n, 3, 2)))
        out.append((f"spiral_xy_{n}x{n}x3", spiral_xy(n, 3, 2)))
        out.append((f"snake3d_{n}", snake_3d(n)))
    out.append(("serpentine_xz_5x3x4", serpentine_xz(5, 3, 4)))
    out.append(("serpentine_xz_7x4x5", serpentine_xz(7, 4, 5)))
    out.append(("serpentine_xy_5x7x4", serpentine_xy(5, 7, 4, 2)))
    return out


def _modules(bg, cls_name, shape):
    import fdtdx
    from fdtdx.objects.device.parameters import discrete as D

    mats = {"lo": fdtdx.Material(permittivity=1.0), "hi": fdtdx.Material(permittivity=2.25)}
    cls = getattr(D, cls_name)
    mod = cls(background_material=None if bg == 0 else "hi")
    return mod.init_module(config=None, materials=mats, matrix_voxel_grid_shape=shape, single_voxel_size=(1.0, 1.0, 1.0), output_shape={"p": shape})


def _run_remove(designs, via_module_bg=None):
    """real code on a batch of same-shaped designs -> kept material (bool, batch)"""
    import importlib

    import jax
    import jax.numpy as jnp
    import numpy as np

    bt = importlib.import_module(BT_MOD)
    designs = np.asarray(designs, dtype=bool)
    if via_module_bg is None:
        f = jax.jit(jax.vmap(bt.remove_floating_polymer))
        return np.asarray(f(jnp.asarray(designs)))
    bg = via_module_bg
    mod = _modules(bg, "RemoveFloatingMaterial", designs.shape[1:])
    f = jax.jit(jax.vmap(lambda p: mod({"p": p})["p"]))
    idx = np.where(designs, 1 - bg, bg).astype(np.float32)
    out = np.asarray(f(jnp.asarray(idx)))
    return np.rint(out).astype(int) != bg


def _run_connect(designs, via_module_bg=None):
    import importlib

    import jax
    import jax.numpy as jnp
    import numpy as np

    bt = importlib.import_module(BT_MOD)
    designs = np.asarray(designs, dtype=bool)
    if via_module_bg is None:
        f = jax.jit(jax.vmap(bt.connect_holes_and_structures))
        return np.asarray(f(jnp.asarray(designs))).astype(bool)
    bg = via_module_bg
    mod = _modules(bg, "ConnectHolesAndStructures", designs.shape[1:])
    f = jax.jit(jax.vmap(lambda p: mod({"p": p})["p"]))
    idx = np.where(designs, 1 - bg, bg).astype(np.float32)
    out = np.asarray(f(jnp.asarray(idx)))
    return np.rint(out).astype(int) != bg


def _wit(m, extra=None):
    import numpy as np

    m = np.asarray(m, dtype=bool)
    w = {"shape": list(m.shape), "design": [int(x) for x in m.ravel()]}
    if extra:
        w.update(extra)
    return w


def _judge_remove(c, label, designs, kept, single_layer=False, max_witnesses=2):
    """compare kept material with the oracle; one bounded record per clause and batch"""
    import numpy as np

    n = len(designs)
    bad_sound = []
    bad_complete = []
    bad_single = []
    for i in range(n):
        m = np.asarray(designs[i], dtype=bool)
        o = oracle_connected(m)
        k = np.asarray(kept[i], dtype=bool)
        if (k & ~o).any():
            bad_sound.append(i)
        if (o & ~k).any():
            # a single-layer design that loses ALL its material is the Nz == 1 seeding defect; anything else
            # is a flood fill that stopped before its fixpoint
            (bad_single if single_layer and not k.any() else bad_complete).append(i)
    clauses = [("remove_floating/sound:only_connected_material_kept", bad_sound), ("remove_floating/complete:every_connected_cell_kept", bad_complete)]
    if single_layer:
        clauses.append(("remove_floating/single_layer_keeps_bottom_material", bad_single))
    for name, bad in clauses:
        w = None
        if bad:
            # smallest failing design first
            bad = sorted(bad, key=lambda i: int(np.asarray(designs[i]).sum()))
            i = bad[0]
            w = _wit(designs[i], {"kept": [int(x) for x in np.asarray(kept[i]).ravel()], "failing_in_batch": len(bad), "batch": label})
        c.bounded(name, not bad, case={"batch": label, "designs": n}, witness=w)


def _judge_connect(c, label, designs, outs):
    import numpy as np

    bad_f, bad_e = [], []
    for i in range(len(designs)):
        r = np.asarray(outs[i], dtype=bool)
        if (r & ~oracle_connected(r)).any():
            bad_f.append(i)
        if oracle_enclosed_background(r).any():
            bad_e.append(i)
    for name, bad in (("connect_holes_and_structures/no_floating_material", bad_f), ("connect_holes_and_structures/no_enclosed_background", bad_e)):
        w = None
        if bad:
            bad = sorted(bad, key=lambda i: int(np.asarray(designs[i]).sum()))
            i = bad[0]
            w = _wit(designs[i], {"output": [int(x) for x in np.asarray(outs[i]).ravel()], "failing_in_batch": len(bad), "batch": label})
        c.bounded(name, not bad, case={"batch": label, "designs": len(designs)}, witness=w)


def _y_constant_designs(nx, ny, nz):
    import numpy as np

    n = nx * nz
    ids = np.arange(1 << n, dtype=np.uint32)
    bits = ((ids[:, None] >> np.arange(n, dtype=np.uint32)[None, :]) & 1).astype(bool).reshape(-1, nx, 1, nz)
    return np.repeat(bits, ny, axis=2)


def _random_designs(rng, shape, n):
    import numpy as np

    dens = rng.choice([0.25, 0.4, 0.55, 0.7, 0.85], size=n)
    return rng.random((n, *shape)) < dens[:, None, None, None]


def _bounded_remove_enum(c, inp):
    for shp in ((3, 3, 3), (4, 3, 4)):
        d = _y_constant_designs(*shp)
        _judge_remove(c, f"all y-constant designs on {shp}", d, _run_remove(d))


def _bounded_remove_templates(tier):
    def body(c, inp):
        import numpy as np

        for name, m in _templates(tier):
            d = m[None]
            _judge_remove(c, name, d, _run_remove(d))
            # the small templates also through the parameter-transform class, both background indices
            for bg in (0, 1) if max(m.shape) <= 5 else ():
                _judge_remove(c, f"{name} via RemoveFloatingMaterial(bg={bg})", d, _run_remove(d, via_module_bg=bg))
        # single-layer (2-D) designs: every material cell lies in the bottom layer
        for name, m in (("single_layer_serpentine_9x9x1", serpentine_xy(9, 9, 1, 0)), ("single_layer_full_5x4x1", np.ones((5, 4, 1), bool))):
            d = m[None]
            _judge_remove(c, name, d, _run_remove(d), single_layer=True)

    return body


def _bounded_remove_random(shapes, n, seed, via_bg=None):
    def body(c, inp):
        import numpy as np

        for shape in shapes:
            rng = np.random.default_rng([seed, *shape, 23])
            d = _random_designs(rng, shape, n)
            lab = f"{n} seeded random designs on {shape}" + (f" via RemoveFloatingMaterial(bg={via_bg})" if via_bg is not None else "")
            _judge_remove(c, lab, d, _run_remove(d, via_module_bg=via_bg), single_layer=(shape[2] == 1))

    return body


def _bounded_connect_random(shapes, n, seed, via_bg=None):
    def body(c, inp):
        import numpy as np

        for shape in shapes:
            rng = np.random.default_rng([seed, *shape, 2323])
            d = _random_designs(rng, shape, n)
            lab = f"{n} seeded random designs on {shape}" + (f" via ConnectHolesAndStructures(bg={via_bg})" if via_bg is not None else "")
            _judge_connect(c, lab, d, _run_connect(d, via_module_bg=via_bg))

    return body


def _bounded_connect_templates(tier):
    def body(c, inp):
        import numpy as np

        for name, m in _templates(tier):
            if max(m.shape) > 9:
                continue
            for inv in (False, True):
                d = (~m if inv else m)[None]
                _judge_connect(c, ("background-" if inv else "") + name, d, _run_connect(d))

    return body


def _sx(shp):
    return "x".join(map(str, shp))


def tasks(tier, seed):
    out = {}
    nob = dict(modules=[], bounded=True)
    out["shim_crosscheck"] = Task(_shim_crosscheck(seed))
    out["polymer/compute_polymer_connection"] = Task(_polymer_body(False, "connection"), max_paths=64)
    out["polymer/remove_floating_polymer"] = Task(_polymer_body(False, "remove"), max_paths=64)
    out["polymer/RemoveFloatingMaterial_bg0"] = Task(_polymer_body(False, "module0"), max_paths=64)
    out["polymer/RemoveFloatingMaterial_bg1"] = Task(_polymer_body(False, "module1"), max_paths=64)
    out["polymer/single_layer_remove_floating_polymer"] = Task(_polymer_body(True, "remove"), max_paths=64)
    out["air/compute_air_connection"] = Task(_air_body, max_paths=64)
    thorough = tier == "thorough"
    out["bounded/remove/enumerated"] = Task(_bounded_remove_enum, **nob)
    out["bounded/remove/templates"] = Task(_bounded_remove_templates(tier), **nob)
    groups = [[(3, 3, 3), (4, 4, 4)], [(5, 5, 5), (6, 5, 4)], [(8, 8, 4), (3, 7, 5)]]
    if thorough:
        groups += [[(10, 10, 6)], [(7, 7, 7), (12, 4, 5)]]
    for g in groups:
        out[f"bounded/remove/random_{'_'.join(map(_sx, g))}"] = Task(_bounded_remove_random(g, 4000 if thorough else 600, seed), **nob)
    out["bounded/remove/random_5x5x5_module_bg1"] = Task(_bounded_remove_random([(5, 5, 5)], 300, seed, via_bg=1), **nob)
    out["bounded/remove/single_layer_5x5x1_4x7x1"] = Task(_bounded_remove_random([(5, 5, 1), (4, 7, 1)], 200, seed), **nob)
    cgroups = [[(3, 3, 3), (4, 4, 4)], [(5, 5, 3), (5, 5, 5)], [(6, 6, 4)]]
    if thorough:
        cgroups += [[(7, 7, 5)], [(8, 8, 4)]]
    for g in cgroups:
        out[f"bounded/connect/random_{'_'.join(map(_sx, g))}"] = Task(_bounded_connect_random(g, 3000 if thorough else 500, seed), **nob)
    out["bounded/connect/random_4x4x4_module_bg0"] = Task(_bounded_connect_random([(4, 4, 4)], 200, seed, via_bg=0), **nob)
    out["bounded/connect/random_4x4x4_module_bg1"] = Task(_bounded_connect_random([(4, 4, 4)], 200, seed, via_bg=1), **nob)
    out["bounded/connect/templates"] = Task(_bounded_connect_templates(tier), **nob)
    return out


def _closure(start, mask):
    """smallest set containing `start` that is closed under: a mask cell face-adjacent to a member is a member"""
    import numpy as np

    cur = start.copy()
    while True:
        nb = np.zeros_like(cur)
        nb[1:] |= cur[:-1]
        nb[:-1] |= cur[1:]
        nb[:, 1:] |= cur[:, :-1]
        nb[:, :-1] |= cur[:, 1:]
        nb[..., 1:] |= cur[..., :-1]
        nb[..., :-1] |= cur[..., 1:]
        new = cur | (nb & mask)
        if (new == cur).all():
            return cur
        cur = new


def _replay_pass(key, obligation, m, arrs):
    """one REAL pass of the captured fori_loop body on the witness state, judged against the concrete
    form of the loop-contract clauses"""
    import importlib

    import jax
    import jax.numpy as jnp
    import numpy as np

    bt = importlib.import_module(BT_MOD)
    air = key.startswith("air/")
    cap = {}
    orig = jax.lax.fori_loop

    def fake(lo, hi, body, init):
        cap.update(lo=lo, hi=hi, body=body, init=init)
        return init

    jax.lax.fori_loop = fake
    try:
        (bt.compute_air_connection if air else bt.compute_polymer_connection)(jnp.asarray(m))
    finally:
        jax.lax.fori_loop = orig
    if "body" not in cap:
        return False, "the flood fill no longer uses jax.lax.fori_loop; pass-level replay not applicable"
    init = np.asarray(cap["init"]).astype(bool)
    padded = init.shape != m.shape
    mp = np.pad(m, ((0, 0), (0, 0), (1, 1))) if padded else m
    mask = ~mp if air else mp
    seed = np.zeros_like(mask)
    if air:
        seed[..., -1] = True
        seed[0] = True
        seed[-1] = True
        seed[:, 0] = True
        seed[:, -1] = True
    else:
        seed[..., 1 if padded else 0] = True

    def state(name):
        a = arrs.get(name)
        if a is None or a.shape != init.shape:
            return np.zeros_like(init)
        return a.astype(bool)

    cur, sup = state("cur"), state("cur_sup")
    one = lambda x: np.asarray(cap["body"](0, jnp.asarray(x))).astype(bool)  # noqa: E731
    R = _closure((seed & mask) | (cur & ~init), mask)
    out = one(cur)
    probs = []
    if int(cap["hi"]) - int(cap["lo"]) < 1:
        probs.append("loop runs zero passes")
    if (init & mask & ~seed).any():
        probs.append(f"{int((init & mask & ~seed).sum())} code seed cells inside the mask are not bottom-layer/border cells")
    Rs = _closure(seed & mask, mask)
    leak = one(init) & ~Rs
    if leak.any():
        probs.append(f"first pass from the code's seeds marks {int(leak.sum())} cells not connected to the spec seeds")
    if (out & ~mask).any():
        probs.append(f"pass result leaves the mask at {int((out & ~mask).sum())} cells")
    if (out & ~R).any():
        probs.append(f"pass result has {int((out & ~R).sum())} cells outside the closed set generated by the state")
    if (cur & mask & ~out).any():
        probs.append("pass is not extensive")
    nb = _closure(cur & mask, np.zeros_like(mask))  # = cur & mask
    grow = np.zeros_like(mask)
    src = cur & mask
    grow[1:] |= src[:-1]
    grow[:-1] |= src[1:]
    grow[:, 1:] |= src[:, :-1]
    grow[:, :-1] |= src[:, 1:]
    grow[..., 1:] |= src[..., :-1]
    grow[..., :-1] |= src[..., 1:]
    del nb
    if (grow & mask & ~out).any():
        probs.append(f"pass misses {int((grow & mask & ~out).sum())} face neighbours")
    if (out & ~one(cur | sup)).any():
        probs.append("pass is not monotone")
    return bool(probs), f"one real pass of the captured loop body on the witness state (design {m.shape}): " + ("; ".join(probs) if probs else "all loop-contract clauses hold on this state")


def replay(key, obligation, witness):
    """real code under real JAX (eager, no jit/vmap) on the witness design against the flood-fill oracle"""
    import importlib

    import jax.numpy as jnp
    import numpy as np

    bt = importlib.import_module(BT_MOD)
    w = witness or {}
    m = None
    arrs = {}
    if "design" in w:
        m = np.array(w["design"], dtype=bool).reshape(w["shape"])
    else:
        from vc.harness import witness_arrays_to_numpy

        arrs = witness_arrays_to_numpy(w)
        if "M" in arrs:
            m = arrs["M"].astype(bool)
        elif "P" in arrs:
            m = arrs["P"].astype(int) != int(w.get("notes", {}).get("background_idx", 0))
    if (m is None or m.ndim != 3 or m.size == 0) and "design" not in w:
        # the solver's model lives on a huge grid (shapes are unconstrained): look for a small failing
        # input of the same obligation by a seeded search on the real code
        rng = np.random.default_rng(23)
        last = "no small failing input found in 300 seeded trials"
        for t in range(300):
            shp = tuple(int(x) for x in rng.integers(3, 6, size=3))
            if "single_layer" in key:
                shp = (shp[0], shp[1], 1)
            mm = rng.random(shp) < rng.choice([0.3, 0.5, 0.7])
            if "/pass:" in obligation or "/loop:" in obligation:
                lsh = (shp[0], shp[1], 3) if shp[2] == 1 else shp
                st = {"cur": rng.random(lsh) < 0.3, "cur_sup": rng.random(lsh) < 0.3}
                ok, detail = _replay_pass(key, obligation, mm, st)
            else:
                sub = {"shape": list(shp), "design": [int(x) for x in mm.ravel()]}
                ok, detail = replay(key, obligation, sub)
            if ok:
                return True, f"(seeded search, trial {t}) " + detail
        return False, last
    if m is None or m.ndim != 3 or m.size == 0:
        return False, "witness carries no design"
    if min(m.shape[:2]) < 3 or m.shape[2] == 2:
        return False, f"witness shape {m.shape} outside the domain (dims >= 3, or Nz == 1)"
    if "/pass:" in obligation or "/loop:" in obligation:
        return _replay_pass(key, obligation, m, arrs)
    if obligation.startswith("connect_holes_and_structures") or key.startswith("bounded/connect"):
        r = np.asarray(bt.connect_holes_and_structures(jnp.asarray(m))).astype(bool)
        fl = r & ~oracle_connected(r)
        en = oracle_enclosed_background(r)
        detail = f"design {m.shape} with {int(m.sum())} material cells: real connect_holes_and_structures leaves {int(fl.sum())} floating material cells and {int(en.sum())} enclosed background cells"
        return bool(fl.any() or en.any()), detail
    if key.startswith("air/"):
        r = np.asarray(bt.compute_air_connection(jnp.asarray(m))).astype(bool)
        a = ~m
        o = a & ~oracle_enclosed_background(m)
        bad = r & ~o
        return bool(bad.any()), f"design {m.shape}: real compute_air_connection marks {int(bad.sum())} cells that are not background connected to sides/top"
    if "RemoveFloatingMaterial" in obligation and "P" in arrs:
        bg = int(w.get("notes", {}).get("background_idx", 0))
        mod = _modules(bg, "RemoveFloatingMaterial", m.shape)
        P = arrs["P"].astype(np.float32)
        out = np.rint(np.asarray(mod({"p": jnp.asarray(P)})["p"])).astype(int)
        o = oracle_connected(m)
        kept = out != bg
        bad = (kept & ~o) | (kept & (out != np.rint(P).astype(int))) | ((out != 0) & (out != 1))
        return bool(bad.any()), f"RemoveFloatingMaterial(bg={bg}) on design {m.shape}: {int(bad.sum())} cells kept although unconnected / changed / non-binary"
    k = np.asarray(bt.remove_floating_polymer(jnp.asarray(m))).astype(bool)
    o = oracle_connected(m)
    extra = k & ~o
    missing = o & ~k
    cells = [tuple(int(x) for x in ix) for ix in np.argwhere(missing)[:6]]
    detail = f"design {m.shape} with {int(m.sum())} material cells, {int(o.sum())} connected to the bottom layer: real remove_floating_polymer keeps {int(k.sum())}; kept-but-unconnected {int(extra.sum())}, connected-but-removed {int(missing.sum())} (e.g. {cells})"
    if "sound" in obligation or "only_connected" in obligation:
        return bool(extra.any()), detail
    return bool(extra.any() or missing.any()), detail
