"""Shared scene construction for the solver-level properties (C01-C11, C14, C15, C33, C36)."""

from __future__ import annotations

import itertools
import random

import z3

from vc import array as A
from vc import scene
from vc.array import SymArray
from vc.core import SymBool, SymNum, apply_uf, ctx, ite
from vc.obl import sym_int, sym_real

SOLVER_MODULES = [
    "fdtdx.core.physics.curl",
    "fdtdx.core.misc",
    "fdtdx.fdtd.update",
    "fdtdx.fdtd.misc",
    "fdtdx.fdtd.forward",
    "fdtdx.fdtd.backward",
    "fdtdx.fdtd.container",
    "fdtdx.objects.boundaries.boundary",
    "fdtdx.objects.boundaries.bloch",
    "fdtdx.objects.boundaries.pec",
    "fdtdx.objects.boundaries.pmc",
    "fdtdx.objects.boundaries.perfectly_matched_layer",
    "fdtdx.objects.object",
    "fdtdx.objects.sources.source",
    "fdtdx.objects.sources.tfsf",
    "fdtdx.objects.sources.tfsf_region",
    "fdtdx.objects.sources.dipole",
    "fdtdx.objects.sources.linear_polarization",
    "fdtdx.objects.detectors.detector",
    "fdtdx.core.jax.pytrees",
    "fdtdx.core.linalg",
    "fdtdx.core.axis",
]

SOLVER_FILES = [
    "src/fdtdx/core/physics/curl.py",
    "src/fdtdx/core/misc.py",
    "src/fdtdx/fdtd/update.py",
    "src/fdtdx/fdtd/misc.py",
    "src/fdtdx/fdtd/forward.py",
    "src/fdtdx/fdtd/backward.py",
    "src/fdtdx/objects/boundaries/boundary.py",
    "src/fdtdx/objects/boundaries/bloch.py",
    "src/fdtdx/objects/boundaries/pec.py",
    "src/fdtdx/objects/boundaries/pmc.py",
    "src/fdtdx/objects/sources/tfsf.py",
    "src/fdtdx/objects/sources/dipole.py",
    "src/fdtdx/objects/sources/source.py",
]

# (min-face kind, max-face kind); None = open face (zero halo)
AXIS_PAIRS_CLOSED = [
    (None, None),
    ("pec", "pec"),
    ("pmc", "pmc"),
    ("pec", "pmc"),
    ("pmc", "pec"),
    ("pec", None),
    (None, "pmc"),
    ("periodic", "periodic"),
]
AXIS_PAIRS_BLOCH = [("bloch", "bloch")]


def boundary_assignments(tier, seed, pairs, n_sample=12, base=(None, None)):
    """quick: every pair on each axis in turn (others at `base`) + the same pair on all axes +
    a seeded sample of the full product; thorough: the full product."""
    if tier == "thorough":
        return list(itertools.product(pairs, repeat=3))
    out = []
    for ax in range(3):
        for p in pairs:
            a = [base, base, base]
            a[ax] = p
            if tuple(a) not in out:
                out.append(tuple(a))
    for p in pairs:
        if (p, p, p) not in out:
            out.append((p, p, p))
    rnd = random.Random(seed)
    full = list(itertools.product(pairs, repeat=3))
    for a in rnd.sample(full, min(n_sample, len(full))):
        if a not in out:
            out.append(a)
    return out


def bnd_label(assign):
    def k(x):
        return {None: "o", "pec": "E", "pmc": "M", "periodic": "P", "bloch": "B", "pml": "L"}[x]

    return "".join(k(lo) + k(hi) for lo, hi in assign)


def make_boundaries(assign, shape, cfg, thickness=None):
    out = []
    for ax, (lo, hi) in enumerate(assign):
        k = sym_real(f"bloch_k{ax}") if "bloch" in (lo, hi) else None  # one wave vector per axis
        if lo is not None:
            out.append(scene.make_boundary(lo, ax, "-", shape, cfg, thickness=thickness, bloch_k=k))
        if hi is not None:
            out.append(scene.make_boundary(hi, ax, "+", shape, cfg, thickness=thickness, bloch_k=k))
    return out


def wall_facts(assign, shape):
    """facts encoding the wall conditions of a state: tangential E zero on PEC slabs,
    tangential H zero on PMC slabs."""

    def mk(kind):
        def fact(v, idx):
            comp = idx[0]
            res = True
            for ax, (lo, hi) in enumerate(assign):
                if comp == ax:
                    continue
                i = idx[1 + ax]
                if lo == kind:
                    res = A._vand(res, A._vor(A._vnot(i == 0), A.v_eq(v, 0)))
                if hi == kind:
                    res = A._vand(res, A._vor(A._vnot(i == shape[ax] - 1), A.v_eq(v, 0)))
            return res

        return fact

    return mk("pec"), mk("pmc")


def tier_component(arr, comp):
    t = arr.shape[0]
    return comp if t == 3 else 0


def loss_factor_facts(cn, eta0, sigE_tier, sigH_tier):
    """1 - s != 0  (s = c*sigma*eta*inv_eps/2): the forward map is not injective otherwise, so the
    clause is a necessary precondition of C02 (reported, not hidden).  Stated for exactly the
    (sigma component, material component) pairs the component-wise update combines."""

    def pairs(sig_tier, sig_comp, mat):
        if not isinstance(mat, SymArray):
            return [None]
        mt = mat.shape[0]
        if sig_tier == 3:
            return [sig_comp if mt == 3 else 0]
        return [0, 1, 2] if mt == 3 else [0]

    def mk(sig_tier, coef):
        def fact(v, idx, mat):
            res = True
            for cc in pairs(sig_tier, idx[0], mat):
                e = mat if cc is None else mat.at_index((cc,) + tuple(A._raw_index(i) for i in idx[1:]))
                res = A._vand(res, A._vnot(A.v_eq(coef(v, e), 1)))
            return res

        return fact

    sE = mk(sigE_tier, lambda v, e: cn * v * eta0 * e / 2)
    sH = mk(sigH_tier, lambda v, e: cn * v / eta0 * e / 2)
    return sE, sH


# ---------------------------------------------------------------------------------------
# abstract temporal profile / wave character / switch state
# ---------------------------------------------------------------------------------------


def abstract_profile():
    from fdtdx.objects.sources.profile import TemporalProfile

    class AbstractProfile(TemporalProfile):
        """temporal profile as an uninterpreted function of (time, phase shift)"""

        def get_amplitude(self, time, period, phase_shift=0.0):
            def f(t):
                return apply_uf("profile", t, phase_shift)

            if isinstance(time, SymArray):
                return time._map(lambda v: f(v), "real")
            return f(time)

    return AbstractProfile()


def time_scalar(name="t", lo=0):
    """time step as a 0-d integer array (the repository passes a jax scalar array)"""
    t = sym_int(name, lo=lo)
    return SymArray((), lambda idx: t, "int", memo=False), t


def sym_time_total(name="T"):
    return sym_int(name, lo=1)


def switch_arrays(T, always_on=False):
    """per-object schedule state as produced by _update_on_arrays: on-flags and the
    time-step -> on-index map (assumed contract of OnOffSwitch, proved under C14)."""
    if always_on:
        on = A.full((T,), True, "bool")
    else:
        on = A.fresh_array("is_on", (T,), "bool")
    idx = A.fresh_array("on_idx", (T,), "int")
    return on, idx


def make_plane_source(cls_name, shape, cfg, axis, direction, T, gated=False, complex_profile=False, name=None, h_filter=False):
    """REAL UniformPlaneSource/GaussianPlaneSource/ModePlaneSource object with symbolic incident
    profiles (the result of `apply`, an assumed contract: shapes (3,*grid_shape))."""
    import fdtdx
    from fdtdx.core.switch import OnOffSwitch
    from fdtdx.core.wavelength import WaveCharacter

    cls = getattr(fdtdx, cls_name)
    kw = {}
    if cls_name == "GaussianPlaneSource":
        kw["radius"] = 1e-6
    if gated:
        kw["switch"] = OnOffSwitch(start_time=1e-15)
    src = cls(wave_character=WaveCharacter(wavelength=1e-6), direction=direction, name=name or f"{cls_name}_{axis}{direction}", temporal_profile=abstract_profile(), **kw)
    pos = sym_int(f"src_pos{axis}", lo=0)
    ctx().assume((pos + 1 <= shape[axis]).z if isinstance(pos + 1 <= shape[axis], SymBool) else True)
    sl = [(0, n) for n in shape]
    sl[axis] = (pos, pos + 1)
    src = scene._place(src, sl, cfg)
    gshape = tuple(1 if a == axis else shape[a] for a in range(3))
    kind = "complex" if complex_profile else "real"
    src = src.aset("_E", A.fresh_array("srcE", (3, *gshape), kind), create_new_ok=True)
    src = src.aset("_H", A.fresh_array("srcH", (3, *gshape), kind), create_new_ok=True)
    src = src.aset("_time_offset_E", A.fresh_array("toE", (3, *gshape)), create_new_ok=True)
    src = src.aset("_time_offset_H", A.fresh_array("toH", (3, *gshape)), create_new_ok=True)
    if h_filter:
        # dispersive scenes: precomputed broadband-corrected H-side temporal profile (arbitrary samples)
        src = src.aset("_temporal_H_filter", A.fresh_array("temporal_H_filter", (T,)), create_new_ok=True)
    on, idx = switch_arrays(T, always_on=False)
    src = src.aset("_is_on_at_time_step_arr", on, create_new_ok=True)
    src = src.aset("_time_step_to_on_idx", idx, create_new_ok=True)
    return src, pos


def make_dipole(shape, cfg, T, source_type="electric", polarization=2, gated=False, rotated=False, name=None):
    import fdtdx
    from fdtdx.core.switch import OnOffSwitch
    from fdtdx.core.wavelength import WaveCharacter

    kw = {}
    if gated:
        kw["switch"] = OnOffSwitch(start_time=1e-15)
    if rotated == "sym":
        az, el = sym_real("azimuth"), sym_real("elevation")
        ctx().assume(A._vnot(A.v_eq(az, 0)))
        kw["azimuth_angle"] = az
        kw["elevation_angle"] = el
    elif rotated:
        kw["azimuth_angle"] = 30.0
        kw["elevation_angle"] = 20.0
    src = fdtdx.PointDipoleSource(wave_character=WaveCharacter(wavelength=1e-6), polarization=polarization, source_type=source_type, name=name or f"dipole_{source_type}{polarization}", temporal_profile=abstract_profile(), **kw)
    pos = [sym_int(f"dp{a}", lo=0) for a in range(3)]
    for a in range(3):
        ctx().assume((pos[a] + 1 <= shape[a]).z)
    src = scene._place(src, [(p, p + 1) for p in pos], cfg)
    on, idx = switch_arrays(T)
    src = src.aset("_is_on_at_time_step_arr", on, create_new_ok=True)
    src = src.aset("_time_step_to_on_idx", idx, create_new_ok=True)
    return src, pos


# ---------------------------------------------------------------------------------------
# concrete scenes for replay on the real code (real JAX, float64)
# ---------------------------------------------------------------------------------------


class NullRecorder:
    def decompress(self, state, time_step, key):
        return {}, state


def null_gradient_config():
    from fdtdx.config import GradientConfig

    g = GradientConfig.__new__(GradientConfig)
    g.__dict__.update(method="reversible", recorder=NullRecorder(), num_checkpoints=None, num_checkpoints_reversible=0)
    return g


def parse_spec(notes):
    """inverse of inp.note('spec', {k: str(v)})"""
    import ast

    spec = {}
    for k, v in (notes or {}).get("spec", {}).items():
        try:
            spec[k] = ast.literal_eval(v)
        except Exception:  # noqa: BLE001
            spec[k] = v
    return spec


def concrete_scene(spec, witness, seed=0, min_dim=1, max_dim=8):
    """Build REAL config/objects/arrays (jnp float64/complex128) for a configuration spec, using the
    witness' shape/arrays where present and seeded random data elsewhere."""
    import jax.numpy as jnp
    import numpy as np

    from fdtdx.config import SimulationConfig
    from fdtdx.core.grid import RectilinearGrid, UniformGrid
    from fdtdx.fdtd.container import ArrayContainer, FieldState, ObjectContainer
    from vc.harness import witness_arrays_to_numpy

    rng = np.random.default_rng(seed)
    sc = (witness or {}).get("scalars", {})
    # extents from a solver model may be astronomically large: replays run on at most max_dim cells per axis
    shape = tuple(min(max_dim, max(min_dim, int(sc.get(f"N{a}", 3)))) if isinstance(sc.get(f"N{a}", 3), (int, float)) else 3 for a in "xyz")
    wa = witness_arrays_to_numpy(witness or {})
    cplx = bool(spec.get("complex"))
    if spec.get("nonuniform"):
        edges = []
        for ax, n in enumerate(shape):
            w = wa.get(f"w{'xyz'[ax]}")
            if w is None or w.shape != (n,) or np.any(w <= 0):
                w = rng.uniform(0.5, 1.5, size=n) * 1e-8
            edges.append(np.concatenate([[0.0], np.cumsum(w)]))
        grid = RectilinearGrid(x_edges=jnp.asarray(edges[0]), y_edges=jnp.asarray(edges[1]), z_edges=jnp.asarray(edges[2]))
    else:
        grid = UniformGrid(spacing=1e-8)
    cfg = SimulationConfig(time=1e-14, grid=grid, backend="cpu", dtype=jnp.float64, gradient_config=null_gradient_config(), symmetry=tuple(spec.get("symmetry", (0, 0, 0))))
    if isinstance(sc.get("courant_number"), float) and 0 < sc["courant_number"] < 1 and not spec.get("nonuniform"):
        cfg.__dict__["courant_factor"] = sc["courant_number"] * np.sqrt(3)
    bnds = []
    for ax, (lo, hi) in enumerate(spec["bnd"]):
        for kind, d in ((lo, "-"), (hi, "+")):
            if kind is None:
                continue
            k = 0.37e8 if kind == "bloch" else None
            bnds.append(scene.make_boundary(kind, ax, d, shape, cfg, bloch_k=k))
    vol = scene.real_volume(shape, cfg)

    def arr(name, tier, lo, hi, default_shape=None):
        if tier is None:
            return None
        if tier == "scalar":
            return 1.0
        a = wa.get(name)
        if a is None or a.shape != (tier, *shape):
            a = rng.uniform(lo, hi, size=(tier, *shape))
            if tier == 9:  # diagonally dominant full tensors (invertible)
                a = a * 0.1
                for d in (0, 4, 8):
                    a[d] += 1.0
        return jnp.asarray(a)

    def field(name):
        a = wa.get(name)
        if a is None or a.shape != (3, *shape):
            a = rng.normal(size=(3, *shape)) + (1j * rng.normal(size=(3, *shape)) if cplx else 0)
        a = np.asarray(a, dtype=np.complex128 if cplx else np.float64)
        return a

    E, H = field("E"), field("H")
    # enforce the wall preconditions on randomly filled entries
    for ax, (lo, hi) in enumerate(spec["bnd"]):
        for kind, face in ((lo, 0), (hi, shape[ax] - 1)):
            tgt = E if kind == "pec" else H if kind == "pmc" else None
            if tgt is None:
                continue
            for comp in range(3):
                if comp != ax:
                    sl = [slice(None)] * 3
                    sl[ax] = face
                    tgt[(comp, *sl)] = 0
    arrays = ArrayContainer(
        fields=FieldState(E=jnp.asarray(E), H=jnp.asarray(H), psi_E={}, psi_H={}),
        inv_permittivities=arr("inv_eps", spec["eps"], 0.2, 1.0),
        inv_permeabilities=arr("inv_mu", spec["mu"], 0.2, 1.0),
        detector_states={},
        recording_state=None,
        electric_conductivity=arr("sigma_E", spec.get("sigE"), 0.0, 1e-3),
        magnetic_conductivity=arr("sigma_H", spec.get("sigH"), 0.0, 1e-3),
    )
    arrays = arrays.aset("recording_state", object())
    return shape, cfg, [vol, *bnds], arrays, rng


def max_abs_diff(a, b):
    import numpy as np

    a, b = np.asarray(a), np.asarray(b)
    if a.shape != b.shape:
        return float("inf")
    return float(np.max(np.abs(a - b))) if a.size else 0.0


def concrete_sources(spec, shape, cfg, T, rng, arrays):
    """REAL source objects with concrete incident profiles / schedules for replay"""
    import jax.numpy as jnp
    import numpy as np

    import fdtdx
    from fdtdx.core.switch import OnOffSwitch
    from fdtdx.core.wavelength import WaveCharacter

    out = []
    cplx = bool(spec.get("complex"))
    for s in spec.get("sources", []) or []:
        on = np.ones(T, dtype=bool)
        on[1::3] = False
        idx = np.where(on, np.cumsum(on) - 1, -1).astype(np.int32)
        if s[0] == "plane":
            _, cls, ax, d, gated = s[:5]
            kw = {"radius": 1e-6} if cls == "GaussianPlaneSource" else {}
            if gated:
                kw["switch"] = OnOffSwitch(start_time=1e-15)
            src = getattr(fdtdx, cls)(wave_character=WaveCharacter(wavelength=3e-7), direction=d, name=f"r_{cls}_{ax}{d}_{rng.integers(1 << 30)}", **kw)
            pos = int(rng.integers(0, shape[ax]))
            sl = [(0, n) for n in shape]
            sl[ax] = (pos, pos + 1)
            src = scene._place(src, sl, cfg)
            gshape = tuple(1 if a == ax else shape[a] for a in range(3))
            mk = lambda: jnp.asarray(rng.normal(size=(3, *gshape)) + (1j * rng.normal(size=(3, *gshape)) if cplx else 0))  # noqa: E731
            src = src.aset("_E", mk(), create_new_ok=True)
            src = src.aset("_H", mk(), create_new_ok=True)
            src = src.aset("_time_offset_E", jnp.asarray(rng.uniform(-0.5, 0.5, size=(3, *gshape))), create_new_ok=True)
            src = src.aset("_time_offset_H", jnp.asarray(rng.uniform(-0.5, 0.5, size=(3, *gshape))), create_new_ok=True)
        else:
            _, st, pol, gated, rot = s[:5]
            kw = {}
            if gated:
                kw["switch"] = OnOffSwitch(start_time=1e-15)
            if rot:
                kw.update(azimuth_angle=30.0, elevation_angle=20.0)
            src = fdtdx.PointDipoleSource(wave_character=WaveCharacter(wavelength=3e-7), polarization=pol, source_type=st, name=f"r_dip_{rng.integers(1 << 30)}", **kw)
            pos = [int(rng.integers(0, n)) for n in shape]
            src = scene._place(src, [(p, p + 1) for p in pos], cfg)
        src = src.aset("_is_on_at_time_step_arr", jnp.asarray(on), create_new_ok=True)
        src = src.aset("_time_step_to_on_idx", jnp.asarray(idx), create_new_ok=True)
        out.append(src)
    return out
