"""C14  On/off schedules decide exactly when sources inject and detectors record.

Contracts (sidecar; the spec functions below are written from the property text / the docstring of
`is_on_at_time_step`, not from the code):

(a) fdtdx.core.switch.is_on_at_time_step(...)
      the six window parameters are equations for the window [S, E]:
          S = start_time | S = start_after_periods*period
          E = end_time   | E = end_after_periods*period
          E - S = on_for_time | E - S = on_for_periods*period
      a specification is *conflicting* iff a period-based parameter is given without a period, or two
      equations of the same kind are given, or start, end and duration are all given.  Otherwise
          S := given start, else (given end - given duration), else 0
          E := given end, else (S + given duration), else +infinity
      ensures  (not conflicting)  ==>  returns  [not always_off and S <= t*dt <= E]
               conflicting and not always_off ==> raises
               always_off ==> returns False
    proved for ALL real parameter values, all integer t and real dt; the 2^7 None-patterns are forked.
(b) OnOffSwitch.calculate_on_list(T, dt)
      ensures  len == T and on[t] == is_on_at_time_step(<the switch's own fields>, t, dt) and t % interval == 0
               (callee replaced by a stub that checks the arguments at the call site and returns an
               arbitrary boolean per step); fixed step lists: on[t] == (t in list).
    OnOffSwitch.is_default_always_on  ==>  every step t >= 0 is active by rule (a) and interval == 1
      (update_E/update_H skip the gate for such sources).
(c) OnOffSwitch.calculate_time_step_to_on_arr_idx, Detector.place_on_grid, Source._update_on_arrays
      ensures  idx[t] == #{j < t : on[j]} if on[t] else -1   (hence strictly increasing on active steps,
               range [0, #on)), on-array == on-list, _num_time_steps_on == #on, Detector.init_state has #on rows.
    T (a Python list length) is ENUMERATED up to a stated bound; the on-pattern is arbitrary (symbolic).
(d) update_E / update_H / update_E_reverse / update_H_reverse (real, symbolic grid shape, fields, materials, step):
      on[t] false ==> result equals the result without the source (all components, all cells)
    update_detector_states (real, real FieldDetector / EnergyDetector, forward and backward pass):
      on[t] false ==> every state array unchanged;
      on[t] true  ==> rows != idx[t] unchanged and (FieldDetector without interpolation) row idx[t] holds the
                      fields of this step restricted to the detector region.
    Together with (c) (idx strictly increasing over the active steps, onto [0, #on), #on rows allocated) this is
    "one record per active step, in chronological order, and nothing else".
"""

from __future__ import annotations

import itertools

import z3

from props import common as K
from vc import array as A
from vc import scene
from vc.core import SymBool, SymNum, Unsupported, ctx, ite
from vc.harness import Task
from vc.obl import prove_arrays_equal, prove_pointwise, sym_bool, sym_int, sym_real

ID = "C14"
LEVEL = "proof"
TECHNIQUE = "symbolic execution of the real switch / update functions; None-patterns forked, list lengths enumerated, callee stubs with call-site checks; z3"
MODULES = [*K.SOLVER_MODULES, "fdtdx.core.switch", "fdtdx.objects.detectors.field", "fdtdx.objects.detectors.energy", "fdtdx.core.physics.metrics"]
FILES = [
    "src/fdtdx/core/switch.py",
    "src/fdtdx/objects/sources/source.py",
    "src/fdtdx/objects/detectors/detector.py",
    "src/fdtdx/objects/detectors/field.py",
    "src/fdtdx/fdtd/update.py",
]

PARAMS = ("start_time", "start_after_periods", "end_time", "end_after_periods", "on_for_time", "on_for_periods", "period")


class _PlusInfinity:
    """stands for `math.inf` inside fdtdx.core.switch while a symbolic run is active: greater than
    every real (symbolic reals are finite).  Only comparisons are defined."""

    def __ge__(self, o):
        return True

    def __gt__(self, o):
        return True

    def __le__(self, o):
        return isinstance(o, _PlusInfinity)

    def __lt__(self, o):
        return False

    def __repr__(self):
        return "+inf"


def _switch_math():
    import math as real_math
    import types

    ns = types.SimpleNamespace(**{k: getattr(real_math, k) for k in dir(real_math) if not k.startswith("_")})
    ns.inf = _PlusInfinity()
    return ns


SWITCH_PATCH = {"fdtdx.core.switch": {"math": _switch_math()}}


# ---------------------------------------------------------------------------------------
# specification of the time window (from the property text / docstring)
# ---------------------------------------------------------------------------------------


def window_spec(p):
    """p: dict parameter -> value | None.  Returns ('conflict', why) or ('ok', S, E) with E None = +inf."""
    per = p["period"]
    if per is None and any(p[k] is not None for k in ("start_after_periods", "end_after_periods", "on_for_periods")):
        return ("conflict", "period-based parameter without period")
    starts = [v for v in (p["start_time"], None if p["start_after_periods"] is None else p["start_after_periods"] * per) if v is not None]
    ends = [v for v in (p["end_time"], None if p["end_after_periods"] is None else p["end_after_periods"] * per) if v is not None]
    durs = [v for v in (p["on_for_time"], None if p["on_for_periods"] is None else p["on_for_periods"] * per) if v is not None]
    if len(starts) > 1 or len(ends) > 1 or len(durs) > 1:
        return ("conflict", "two equations of the same kind")
    if starts and ends and durs:
        return ("conflict", "start, end and duration all given")
    if starts:
        S = starts[0]
    elif ends and durs:
        S = ends[0] - durs[0]
    else:
        S = 0
    if ends:
        E = ends[0]
    elif durs:
        E = S + durs[0]
    else:
        E = None
    return ("ok", S, E)


def active_spec(p, always_off, t, dt):
    """-> None (conflict) | bool/SymBool"""
    if always_off is True:
        return False
    w = window_spec(p)
    if w[0] == "conflict":
        return None
    _, S, E = w
    tp = t * dt
    res = S <= tp
    if E is not None:
        res = A._vand(res, tp <= E)
    return res


def _iff(a, b):
    a, b = A._tobool(a), A._tobool(b)
    if isinstance(a, bool) and isinstance(b, bool):
        return a == b
    return A.v_eq(a, b)


def _implies(a, b):
    return A._vor(A._vnot(a), b)


def _choose(name, options):
    """fork over a finite list of options: every option is explored on its own paths of the session"""
    options = list(options)
    if len(options) == 1:
        return options[0]
    v = sym_int(name, lo=0, hi=len(options) - 1)
    for k, o in enumerate(options[:-1]):
        if bool(v == k):
            return o
    return options[-1]


def _prefixed(c, prefix):
    """context manager: names of obligations / covers / bounded records emitted through `c` get a prefix"""
    import contextlib

    @contextlib.contextmanager
    def cm():
        orig = (c.prove, c.cover, c.bounded)
        c.prove = lambda name, *a, **kw: orig[0](prefix + name, *a, **kw)
        c.cover = lambda name, *a, **kw: orig[1](prefix + name, *a, **kw)
        c.bounded = lambda name, *a, **kw: orig[2](prefix + name, *a, **kw)
        try:
            yield
        finally:
            c.prove, c.cover, c.bounded = orig

    return cm()


# ---------------------------------------------------------------------------------------
# (a) the per-step rule + the default-always-on lemma
# ---------------------------------------------------------------------------------------


def _fork_params(inp, fixed):
    """symbolic real value or None for each of the seven optional parameters; the None-pattern of the
    parameters not in `fixed` is chosen by forking (every pattern is one group of paths of the session)."""
    p = {}
    for k in PARAMS:
        given = fixed[k] if k in fixed else bool(sym_bool(f"given_{k}"))
        if given:
            p[k] = sym_real(k)
            inp.scalar(k, p[k])
        else:
            p[k] = None
    inp.note("given", {k: int(p[k] is not None) for k in PARAMS})
    return p


def _rule_task(fixed):
    st = {}

    def body(c, inp):
        import fdtdx.core.switch as S

        p = _fork_params(inp, fixed)
        t = sym_int("t")
        dt = sym_real("dt")
        inp.scalar("t", t)
        inp.scalar("dt", dt)
        lab = "".join(str(int(p[k] is not None)) for k in PARAMS)
        st["p"], st["lab"] = p, lab
        c.cover(f"pre[{lab}]")
        expected = active_spec(p, False, t, dt)

        # lemma used by update_E/update_H: a switch that reports `is_default_always_on` is active at
        # every step (t >= 0, dt > 0), has no fixed list and interval 1
        off = sym_bool("always_off")
        interval = sym_int("interval", lo=1)
        with_list = bool(sym_bool("fixed_list_given"))
        inp.scalar("always_off", off)
        inp.scalar("interval", interval)
        inp.note("fixed_list_given", with_list)
        sw = S.OnOffSwitch(**p, is_always_off=off, interval=interval, fixed_on_time_steps=[0] if with_list else None)
        dflt = sw.is_default_always_on
        if not isinstance(dflt, bool):
            dflt = bool(dflt)
        if dflt:
            ok = (not with_list) and expected is not None
            c.prove(f"is_default_always_on[{lab}]/post:no_fixed_list_and_well_specified", ok)
            if ok:
                goal = A._vand(A._vand(A._vnot(off), interval == 1), expected)
                c.prove(f"is_default_always_on[{lab}]/post:every_step_active", goal, extra_hyps=[(t >= 0).z, (dt > 0).z])
            st["dflt_seen"] = True
        got = S.is_on_at_time_step(is_always_off=False, time_step=t, time_step_duration=dt, **p)
        if expected is None:
            c.prove(f"is_on_at_time_step[{lab}]/post:conflicting_specification_rejected", False)
        else:
            c.prove(f"is_on_at_time_step[{lab}]/post:active_iff_in_window", _iff(got, expected))
        # always-off: inactive whatever else is given
        off_res = S.is_on_at_time_step(is_always_off=True, time_step=t, time_step_duration=dt, **p)
        c.prove(f"is_on_at_time_step[{lab}]/post:always_off_inactive", off_res is False)
        # the method and the free function `is_on_at_time_step_from_switch` pass the switch's own fields
        sw2 = S.OnOffSwitch(**p)
        c.prove(f"OnOffSwitch.is_on_at_time_step[{lab}]/post:same_as_rule", _iff(sw2.is_on_at_time_step(time_step=t, time_step_duration=dt), expected))
        c.prove(f"is_on_at_time_step_from_switch[{lab}]/post:same_as_rule", _iff(S.is_on_at_time_step_from_switch(t, dt, sw2), expected))

    def on_exc(c, e):
        p, lab = st["p"], st["lab"]
        if isinstance(e, Unsupported):
            raise e
        # an exception is the documented behaviour exactly for conflicting specifications
        c.prove(f"is_on_at_time_step[{lab}]/raises_only_on_conflict", window_spec(p)[0] == "conflict")

    return Task(body, on_exception=on_exc, extra_patch=SWITCH_PATCH, max_paths=8192)


# ---------------------------------------------------------------------------------------
# (b) the on-list
# ---------------------------------------------------------------------------------------


def _multiple_of(t, interval):
    """t is a multiple of interval (interval >= 1): independent formulation by divisors of the concrete t"""
    if t == 0:
        return True
    res = False
    for d in range(1, t + 1):
        if t % d == 0:
            res = A._vor(res, interval == d)
    return res


def _on_list_stubbed(Tmax):
    """calculate_on_list against the contract of is_on_at_time_step: the callee is replaced by a stub
    that checks the call-site arguments and returns an arbitrary boolean per step."""

    def body(c, inp):
        import fdtdx.core.switch as S

        T = _choose("T", range(Tmax + 1))
        inp.note("T", T)
        sent = {k: object() for k in (*PARAMS, "is_always_off")}
        interval = sym_int("interval", lo=1)
        inp.scalar("interval", interval)
        dt = object()
        sw = S.OnOffSwitch(**{k: sent[k] for k in PARAMS}, is_always_off=sent["is_always_off"], interval=interval)
        r = [sym_bool(f"r{t}") for t in range(T)]
        for t in range(T):
            inp.scalar(f"rule_says_on[{t}]", r[t])
        calls = []

        def stub(**kw):
            tt = kw.pop("time_step")
            ok = kw.pop("time_step_duration") is dt and set(kw) == set(sent) and all(kw[k] is sent[k] for k in sent)
            c.prove(f"T{T}:is_on_at_time_step/pre:called_with_the_switch_fields(t={tt})", ok and isinstance(tt, int) and 0 <= tt < T)
            calls.append(tt)
            return r[tt]

        saved = S.is_on_at_time_step
        S.is_on_at_time_step = stub
        try:
            on = sw.calculate_on_list(num_total_time_steps=T, time_step_duration=dt)
        finally:
            S.is_on_at_time_step = saved
        c.prove(f"T{T}:calculate_on_list/post:length", isinstance(on, list) and len(on) == T)
        for t in range(min(T, len(on))):
            c.prove(f"T{T}:calculate_on_list/post:on[{t}]==rule_and_interval", _iff(on[t], A._vand(r[t], _multiple_of(t, interval))))

    return Task(body, extra_patch=SWITCH_PATCH, max_paths=8192)


SCHEDULE_CLASSES = {
    "default": (),
    "start_end": ("start_time", "end_time"),
    "periods": ("start_after_periods", "on_for_periods", "period"),
    "end_duration": ("end_time", "on_for_time"),
    "end_periods": ("end_after_periods", "period"),
}


def _on_list_end_to_end(cls, Tmax, intervals):
    """unstubbed calculate_on_list with symbolic schedule values (integration of (a) and (b))"""

    def body(c, inp):
        import fdtdx.core.switch as S

        T = _choose("T", range(1, Tmax + 1))
        interval = _choose("interval", intervals)
        inp.note("T", T)
        inp.note("interval", interval)
        inp.note("class", cls)
        p = {k: None for k in PARAMS}
        for k in SCHEDULE_CLASSES[cls]:
            p[k] = sym_real(k)
            inp.scalar(k, p[k])
        inp.note("given", {k: int(p[k] is not None) for k in PARAMS})
        off = bool(sym_bool("always_off"))
        inp.note("always_off", off)
        dt = sym_real("dt", lo_strict=0)
        inp.scalar("dt", dt)
        sw = S.OnOffSwitch(**p, is_always_off=off, interval=interval)
        on = sw.calculate_on_list(num_total_time_steps=T, time_step_duration=dt)
        c.prove(f"T{T}i{interval}:calculate_on_list/post:length", len(on) == T)
        for t in range(min(T, len(on))):
            exp = A._vand(active_spec(p, off, t, dt), t % interval == 0)
            c.prove(f"T{T}i{interval}:calculate_on_list/post:on[{t}]", _iff(on[t], exp))

    def on_exc(c, e):
        if type(e) is not Exception:  # only the switch's own deliberate errors are judged here
            raise e
        c.prove(f"calculate_on_list/raises_on_a_well_specified_schedule({e})", False)

    return Task(body, on_exception=on_exc, extra_patch=SWITCH_PATCH, max_paths=8192)


def _fixed_lists(Tmax):
    """fixed step lists (purely discrete input): exhaustive over all lists of distinct in-range steps in
    every order, plus lists with repetitions, for T <= Tmax.  Recorded as a bounded stand-in."""

    def body(c, inp):
        import fdtdx.core.switch as S

        n = 0
        for T in range(0, Tmax + 1):
            lists = []
            for k in range(0, T + 1):
                lists += [list(x) for x in itertools.permutations(range(T), k)]
            lists += [[s, s] for s in range(T)] + [[s, u, s] for s in range(T) for u in range(T)]
            for L in lists:
                # the window parameters are ignored when a fixed list is given
                sw = S.OnOffSwitch(fixed_on_time_steps=L, start_time=5.0 if n % 2 else None, interval=1 + n % 3)
                on = sw.calculate_on_list(num_total_time_steps=T, time_step_duration=0.5)
                ok = on == [t in L for t in range(T)]
                idx = sw.calculate_time_step_to_on_arr_idx(num_total_time_steps=T, time_step_duration=0.5)
                ok = ok and idx == _index_spec_concrete(on)
                c.bounded("fixed_on_time_steps:on_list_and_index_map", ok, case={"T": T, "list": L}, witness={"notes": {"T": T, "fixed": L}})
                n += 1

    return Task(body, extra_patch=SWITCH_PATCH)


def _index_spec_concrete(on):
    return [sum(1 for j in range(t) if on[j]) if on[t] else -1 for t in range(len(on))]


# ---------------------------------------------------------------------------------------
# (c) the index map
# ---------------------------------------------------------------------------------------


def _count_before(on, t):
    n = 0
    for j in range(t):
        n = n + ite(on[j], 1, 0)
    return n


def _prove_index_map(c, pre, on, idx_at, T):
    """idx[t] == #{j<t: on[j]} if on[t] else -1, and the derived order facts"""
    for t in range(T):
        spec = ite(on[t], _count_before(on, t), -1)
        c.prove(f"{pre}/post:idx[{t}]==count_of_earlier_active_steps_or_-1", A.v_eq(idx_at(t), spec))
    total = _count_before(on, T)
    for t in range(T):
        c.prove(f"{pre}/post:active=>0<=idx[{t}]<n_on", _implies(on[t], A._vand(idx_at(t) >= 0, idx_at(t) < total)))
        for u in range(t + 1, T):
            c.prove(f"{pre}/post:chronological[{t}<{u}]", _implies(A._vand(on[t], on[u]), idx_at(t) < idx_at(u)))


def _sym_config(T, dt):
    """REAL SimulationConfig object whose two schedule-relevant derived quantities are given
    (time_steps_total = T, time_step_duration = dt): an assumed contract of the config."""
    from fdtdx.config import SimulationConfig
    from fdtdx.core.grid import UniformGrid

    class _Cfg(SimulationConfig):
        @property
        def time_steps_total(self):
            return self.__dict__["_T"]

        @property
        def time_step_duration(self):
            return self.__dict__["_dt"]

    cfg = SimulationConfig(time=1e-15, grid=UniformGrid(spacing=1.0), backend="cpu")
    object.__setattr__(cfg, "__class__", _Cfg)
    cfg.__dict__["_T"] = T
    cfg.__dict__["_dt"] = dt
    return cfg


def _index_map(which, Tmax):
    def body(c, inp):
        import fdtdx
        import fdtdx.core.switch as S
        from fdtdx.core.wavelength import WaveCharacter

        T = _choose("T", range(Tmax + 1))
        inp.note("T", T)
        inp.note("which", which)
        on = [sym_bool(f"on{t}") for t in range(T)]
        for t in range(T):
            inp.scalar(f"on[{t}]", on[t])
        dt = sym_real("dt", lo_strict=0)
        inp.scalar("dt", dt)
        log = []

        def stub_on_list(self, num_total_time_steps, time_step_duration):
            log.append((self, num_total_time_steps, time_step_duration))
            return list(on)

        saved = S.OnOffSwitch.calculate_on_list
        S.OnOffSwitch.calculate_on_list = stub_on_list
        pre = f"T{T}:{which}"
        try:
            sw = S.OnOffSwitch(interval=2)
            if which == "switch":
                idx = sw.calculate_time_step_to_on_arr_idx(num_total_time_steps=T, time_step_duration=dt)
                c.prove(f"{pre}/post:length", isinstance(idx, list) and len(idx) == T)
                _prove_index_map(c, pre, on, lambda t: idx[t], T)
            elif which == "detector":
                cfg = _sym_config(T, dt)
                det = fdtdx.FieldDetector(name="det", switch=sw)
                det = det.place_on_grid(grid_slice_tuple=((1, 3), (0, 2), (2, 3)), config=cfg, key=None)
                on_arr, idx_arr = A.asarray(det._is_on_at_time_step_arr), A.asarray(det._time_step_to_arr_idx)
                c.prove(f"{pre}/post:shapes", tuple(on_arr.shape) == (T,) and tuple(idx_arr.shape) == (T,))
                for t in range(T):
                    c.prove(f"{pre}/post:on_arr[{t}]==on_list[{t}]", _iff(on_arr.at_index((t,)), on[t]))
                _prove_index_map(c, pre, on, lambda t: idx_arr.at_index((t,)), T)
                total = _count_before(on, T)
                c.prove(f"{pre}/post:num_time_steps_recorded==n_on", A.v_eq(det.num_time_steps_recorded, total))
                st0 = det.init_state()
                c.prove(f"{pre}/post:init_state_has_one_row_per_active_step", set(st0) == {"fields"} and A.v_eq(st0["fields"].shape[0], total))
            else:
                cfg = _sym_config(T, dt)
                src = fdtdx.PointDipoleSource(name="src", wave_character=WaveCharacter(wavelength=1e-6), polarization=0, switch=sw)
                src = src.place_on_grid(grid_slice_tuple=((1, 2), (0, 1), (2, 3)), config=cfg, key=None)
                on_arr, idx_arr = A.asarray(src._is_on_at_time_step_arr), A.asarray(src._time_step_to_on_idx)
                c.prove(f"{pre}/post:shapes", tuple(on_arr.shape) == (T,) and tuple(idx_arr.shape) == (T,))
                for t in range(T):
                    c.prove(f"{pre}/post:on_arr[{t}]==on_list[{t}]", _iff(on_arr.at_index((t,)), on[t]))
                _prove_index_map(c, pre, on, lambda t: idx_arr.at_index((t,)), T)
            if which != "switch":
                c.prove(f"{pre}/pre:on_list_requested", len(log) >= 1)
                for s_, n_, d_ in log:
                    c.prove(f"{pre}/pre:on_list_requested_for_the_run_length_and_step_duration", A._vand(isinstance(s_, S.OnOffSwitch) and s_.interval == 2 and n_ == T, A.v_eq(d_, dt)))
        finally:
            S.OnOffSwitch.calculate_on_list = saved

    return Task(body, extra_patch=SWITCH_PATCH, max_paths=8192)


# ---------------------------------------------------------------------------------------
# (d) gating in the update functions
# ---------------------------------------------------------------------------------------

MIXED = (("pec", "pmc"), ("periodic", "periodic"), (None, None))


def _gate_source(srcspec, fn_name, eps, mu, sigE=None, sigH=None):
    def body(c, inp):
        import fdtdx.fdtd.update as U

        shape = scene.sym_shape()
        for n, v in zip("xyz", shape):
            inp.scalar(f"N{n}", v)
        cfg = scene.make_config(gradient_config=K.null_gradient_config())
        inp.scalar("courant_number", cfg.courant_number)
        bnds = K.make_boundaries(MIXED, shape, cfg)
        T = K.sym_time_total()
        if srcspec[0] == "plane":
            _, cls, ax, d = srcspec
            src, _ = K.make_plane_source(cls, shape, cfg, ax, d, T, gated=True)
        else:
            _, stype, pol, rot = srcspec
            src, _ = K.make_dipole(shape, cfg, T, source_type=stype, polarization=pol, gated=True, rotated=rot)
        with_src = scene.make_objects(shape, cfg, bnds, [src])
        without = scene.make_objects(shape, cfg, bnds, [])
        arr = scene.make_arrays(shape, eps_tier=eps, mu_tier=mu, sigE_tier=sigE, sigH_tier=sigH, recording_state=object())
        inp.array("E", arr.fields.E)
        inp.array("H", arr.fields.H)
        inp.note("spec", {"bnd": str(MIXED), "eps": str(eps), "mu": repr(mu), "sigE": str(sigE), "sigH": str(sigH), "sources": str([_common_src(srcspec)])})
        inp.note("fn", fn_name)
        t_arr, t = K.time_scalar("t")
        c.assume((t + 1 <= T).z)
        inp.scalar("t", t)
        on_t = src._is_on_at_time_step_arr.at_index((t.re,))
        inp.scalar("on[t]", on_t)
        c.cover("pre")
        f = getattr(U, fn_name)
        extra = (True,) if not fn_name.endswith("reverse") else ()
        a = f(t_arr, arr, with_src, cfg, *extra)
        b = f(t_arr, arr, without, cfg, *extra)
        inactive = A._vnot(on_t)
        for fld in ("E", "H"):
            prove_arrays_equal(f"{fn_name}/post:inactive_source_adds_nothing_to_{fld}", getattr(a.fields, fld), getattr(b.fields, fld), where=lambda idx: inactive)

    return Task(body, max_paths=512)


def _common_src(s):
    if s[0] == "plane":
        return ("plane", s[1], s[2], s[3], True)
    return ("dipole", s[1], s[2], True, s[3])


def _gate_detector(kind, exact, inverse=False):
    def body(c, inp):
        import fdtdx
        import fdtdx.fdtd.update as U
        from fdtdx.core.switch import OnOffSwitch

        shape = scene.sym_shape()
        for n, v in zip("xyz", shape):
            inp.scalar(f"N{n}", v)
        cfg = scene.make_config()
        T = K.sym_time_total()
        n_on = sym_int("n_on", lo=0)
        inp.scalar("n_on", n_on)
        on = A.fresh_array("det_on", (T,), "bool")

        def idx_fact(v, idx):
            o = on.at_index(tuple(A._raw_index(i) for i in idx))
            return A._vand(_implies(o, A._vand(v >= 0, v < n_on)), _implies(A._vnot(o), A.v_eq(v, -1)))

        idx_arr = A.fresh_array("det_idx", (T,), "int", fact=idx_fact)  # contract (c)
        box = []
        for ax in range(3):
            lo = sym_int(f"d{ax}lo", lo=0)
            hi = sym_int(f"d{ax}hi")
            c.assume((lo < hi).z)
            c.assume((hi <= shape[ax]).z)
            inp.scalar(f"d{ax}lo", lo)
            inp.scalar(f"d{ax}hi", hi)
            box.append((lo, hi))
        dshape = tuple(hi - lo for lo, hi in box)
        kw = dict(name="det", exact_interpolation=exact, switch=OnOffSwitch(interval=2), inverse=inverse)
        if kind == "field":
            det = fdtdx.FieldDetector(**kw)
            state0 = {"fields": A.fresh_array("state_fields", (n_on, 6, *dshape))}
        else:
            det = fdtdx.EnergyDetector(**kw)
            state0 = {"energy": A.fresh_array("state_energy", (n_on, *dshape))}
        det = scene._place(det, box, cfg)
        det = det.aset("_is_on_at_time_step_arr", on, create_new_ok=True)
        det = det.aset("_time_step_to_arr_idx", idx_arr, create_new_ok=True)
        det = det.aset("_num_time_steps_on", n_on, create_new_ok=True)
        det = det.aset("_cached_cell_volume_weights", A.fresh_array("w", dshape, fact=lambda v, idx: v > 0), create_new_ok=True)
        objs = scene.make_objects(shape, cfg, (), [det])
        arr = scene.make_arrays(shape, eps_tier=3, mu_tier=3, detector_states={"det": dict(state0)})
        E, H = arr.fields.E, arr.fields.H
        H_prev = A.fresh_array("H_prev", (3, *shape))
        inp.note("detector", {"kind": kind, "exact": exact, "inverse": inverse})
        t_arr, t = K.time_scalar("t")
        c.assume((t + 1 <= T).z)
        inp.scalar("t", t)
        on_t = on.at_index((t.re,))
        idx_t = idx_arr.at_index((t.re,))
        inp.scalar("on[t]", on_t)
        inp.scalar("idx[t]", idx_t)
        c.cover("pre")
        res = U.update_detector_states(t_arr, arr, objs, cfg, H_prev, inverse)
        new = res.detector_states["det"]
        c.prove("update_detector_states/post:state_keys", set(new) == set(state0))
        for nm, x, y in (("E", res.fields.E, E), ("H", res.fields.H, H), ("inv_permittivities", res.inv_permittivities, arr.inv_permittivities)):
            if x is y:
                c.prove(f"update_detector_states/frame:{nm}_untouched", True)
            else:
                prove_arrays_equal(f"update_detector_states/frame:{nm}_untouched", x, y)
        for k in state0:
            prove_arrays_equal(f"update_detector_states/post:inactive_step_leaves_{k}_unchanged", new[k], state0[k], where=lambda idx: A._vnot(on_t))
            prove_arrays_equal(f"update_detector_states/post:active_step_leaves_other_rows_of_{k}_unchanged", new[k], state0[k], where=lambda idx: A._vand(on_t, A._vnot(A.v_eq(idx[0], idx_t))))
        if kind == "field" and not exact:
            gs = tuple(slice(lo, hi) for lo, hi in box)
            record = A.concatenate([E[(slice(None), *gs)], H[(slice(None), *gs)]], 0)
            prove_pointwise(
                "update_detector_states/post:active_step_writes_its_record_to_row_idx[t]",
                new["fields"],
                lambda v, idx: A.v_eq(v, record.at_index(tuple(A._raw_index(i) for i in idx[1:]))),
                where=lambda idx: A._vand(on_t, A.v_eq(idx[0], idx_t)),
            )

    return Task(body, max_paths=2048)


# ---------------------------------------------------------------------------------------


def _pack(parts):
    """several independent sub-sessions in one worker process: the first decision of the session selects
    the part (a tree, not a product, of decision paths); obligation names are prefixed with the part label"""
    st = {}

    def body(c, inp):
        k = _choose("part", range(len(parts)))
        label, task = parts[k]
        st["cur"] = (label, task)
        inp.note("part", label)
        with _prefixed(c, label + "|"):
            task.body(c, inp)

    def on_exc(c, e):
        label, task = st["cur"]
        if task.on_exception is None:
            raise e
        with _prefixed(c, label + "|"):
            task.on_exception(c, e)

    return Task(body, on_exception=on_exc, extra_patch=SWITCH_PATCH, max_paths=sum((t.max_paths or 4096) for _, t in parts))


def parts(tier):
    """label -> Task of every sub-session"""
    out = {}
    thorough = tier == "thorough"
    for bits in itertools.product((False, True), repeat=3):
        out["rule/" + "".join(str(int(b)) for b in bits)] = _rule_task(dict(zip(PARAMS[:3], bits)))
    out["on_list/callee_contract"] = _on_list_stubbed(9 if thorough else 7)
    for cls in SCHEDULE_CLASSES:
        out[f"on_list/end_to_end/{cls}"] = _on_list_end_to_end(cls, 6 if thorough else 4, (1, 2, 3) if thorough else (1, 2))
    out["on_list/fixed_lists"] = _fixed_lists(5 if thorough else 4)
    for which in ("switch", "detector", "source"):
        out[f"index_map/{which}"] = _index_map(which, 9 if thorough else 7)
    srcs = [("plane", "UniformPlaneSource", 0, "+"), ("plane", "GaussianPlaneSource", 2, "-"), ("dipole", "electric", 2, False), ("dipole", "magnetic", 0, True)]
    if thorough:
        srcs += [("plane", "UniformPlaneSource", 1, "-"), ("plane", "UniformPlaneSource", 2, "+"), ("dipole", "electric", 1, True), ("dipole", "magnetic", 1, False)]
    for s in srcs:
        lab = "_".join(str(x) for x in s)
        for fn in ("update_E", "update_H", "update_E_reverse", "update_H_reverse"):
            out[f"gate/source/{lab}/{fn}/e3m3"] = _gate_source(s, fn, 3, 3)
    for fn in ("update_E", "update_H"):
        out[f"gate/source/{'_'.join(str(x) for x in srcs[0])}/{fn}/e9m9"] = _gate_source(srcs[0], fn, 9, 9)
        out[f"gate/source/{'_'.join(str(x) for x in srcs[2])}/{fn}/e1mscalar_lossy"] = _gate_source(srcs[2], fn, 1, "scalar", 1, None)
    for kind, exact in (("field", False), ("field", True), ("energy", False)):
        out[f"gate/detector/{kind}/{'exact' if exact else 'plain'}"] = _gate_detector(kind, exact)
    out["gate/detector/field/plain_backward_pass"] = _gate_detector("field", False, inverse=True)
    return out


GROUPS = [
    ("rule/00x", r"^rule/00"),
    ("rule/01x", r"^rule/01"),
    ("rule/10x", r"^rule/10"),
    ("rule/11x", r"^rule/11"),
    ("lists/on_list_contract", r"^on_list/(callee_contract|fixed_lists)$"),
    ("lists/on_list_schedules_1", r"^on_list/end_to_end/(default|end_periods|periods)$"),
    ("lists/on_list_schedules_2", r"^on_list/end_to_end/(start_end|end_duration)$"),
    ("lists/index_map_switch", r"^index_map/switch$"),
    ("lists/index_map_objects", r"^index_map/(detector|source)$"),
    ("gate/sources", r"^gate/source/"),
    ("gate/detectors", r"^gate/detector/"),
]


def tasks(tier, seed):
    import re

    ps = parts(tier)
    out = {}
    used = set()
    for key, pat in GROUPS:
        sel = [(lab, t) for lab, t in ps.items() if re.search(pat, lab)]
        used.update(lab for lab, _ in sel)
        if sel:
            out[key] = _pack(sel)
    assert used == set(ps), sorted(set(ps) - used)
    return out


# ---------------------------------------------------------------------------------------
# replay on the real code under real JAX / CPython floats
# ---------------------------------------------------------------------------------------


def _float_params(witness, rng=None):
    sc = (witness or {}).get("scalars", {})
    given = (witness or {}).get("notes", {}).get("given") or {}
    p = {}
    for k in PARAMS:
        if given.get(k):
            v = sc.get(k)
            p[k] = float(v) if isinstance(v, (int, float)) else (float(rng.uniform(-2, 6)) if rng is not None else 1.0)
        else:
            p[k] = None
    return p


def _py_active(p, off, t, dt):
    if off:
        return False
    w = window_spec(p)
    if w[0] == "conflict":
        return None
    _, S, E = w
    return (S <= t * dt) and (E is None or t * dt <= E)


def _replay_rule(witness):
    import numpy as np

    from fdtdx.core.switch import OnOffSwitch, is_on_at_time_step, is_on_at_time_step_from_switch

    def call(f):
        try:
            return f()
        except Exception as e:  # noqa: BLE001
            return f"raises {type(e).__name__}({e})"

    rng = np.random.default_rng(0)
    sc = (witness or {}).get("scalars", {})
    notes = (witness or {}).get("notes", {})
    first = None
    for attempt in range(200):
        w0 = attempt == 0
        p = _float_params(witness, None if w0 else rng)
        t = int(sc["t"]) if w0 and isinstance(sc.get("t"), int) else int(rng.integers(0, 12))
        dt = float(sc["dt"]) if w0 and isinstance(sc.get("dt"), (int, float)) else float(rng.uniform(0.1, 1.5))
        exp = _py_active(p, False, t, dt)
        want = "conflicting specification (must raise)" if exp is None else exp
        res = {
            "is_on_at_time_step": call(lambda: is_on_at_time_step(is_always_off=False, time_step=t, time_step_duration=dt, **p)),
            "OnOffSwitch.is_on_at_time_step": call(lambda: OnOffSwitch(**p).is_on_at_time_step(time_step=t, time_step_duration=dt)),
            "is_on_at_time_step_from_switch": call(lambda: is_on_at_time_step_from_switch(t, dt, OnOffSwitch(**p))),
        }
        for nm, got in res.items():
            if (exp is None and not isinstance(got, str)) or (exp is not None and (isinstance(got, str) or bool(got) != exp)):
                return True, f"parameters {p}, t={t}, dt={dt}: real {nm} -> {got}, window rule -> {want}"
        off_res = call(lambda: is_on_at_time_step(is_always_off=True, time_step=t, time_step_duration=dt, **p))
        if off_res is not False:
            return True, f"parameters {p}, is_always_off=True, t={t}, dt={dt}: real is_on_at_time_step -> {off_res}, an always-off schedule is never active"
        interval = int(sc["interval"]) if w0 and isinstance(sc.get("interval"), int) and sc["interval"] >= 1 else int(rng.integers(1, 4))
        off = bool(sc.get("always_off")) if w0 else bool(rng.integers(0, 2))
        with_list = bool(notes.get("fixed_list_given")) if w0 else bool(attempt % 5 == 0)
        sw = OnOffSwitch(**p, interval=interval, is_always_off=off, fixed_on_time_steps=[0] if with_list else None)
        if call(lambda: sw.is_default_always_on) is True:
            if off or interval != 1 or with_list or exp is None or not all(_py_active(p, False, u, abs(dt)) for u in range(12)):
                return True, f"OnOffSwitch({p}, interval={interval}, is_always_off={off}, fixed list given={with_list}).is_default_always_on is True although the schedule is not 'every step active'"
        first = first or (p, t, dt, res)
    return False, f"200 concrete evaluations around the witness agree with the rule (first: {first})"


def _replay_lists(witness):
    """real calculate_on_list / index maps / placement on random schedules"""
    import numpy as np

    import fdtdx
    from fdtdx.config import SimulationConfig
    from fdtdx.core.grid import UniformGrid
    from fdtdx.core.switch import OnOffSwitch
    from fdtdx.core.wavelength import WaveCharacter

    rng = np.random.default_rng(1)
    notes = (witness or {}).get("notes", {})
    if "fixed" in notes:
        T, L = notes["T"], notes["fixed"]
        sw = OnOffSwitch(fixed_on_time_steps=L)
        on = sw.calculate_on_list(num_total_time_steps=T, time_step_duration=0.5)
        idx = sw.calculate_time_step_to_on_arr_idx(num_total_time_steps=T, time_step_duration=0.5)
        exp = [t in L for t in range(T)]
        return (on != exp or idx != _index_spec_concrete(exp)), f"fixed list {L}, T={T}: on={on} idx={idx}, expected on={exp} idx={_index_spec_concrete(exp)}"
    cfg = SimulationConfig(time=40e-15, grid=UniformGrid(spacing=50e-9), backend="cpu")
    T, dt = cfg.time_steps_total, cfg.time_step_duration
    for attempt in range(60):
        names = list(SCHEDULE_CLASSES.values())[attempt % len(SCHEDULE_CLASSES)]
        p = {k: None for k in PARAMS}
        for k in names:
            p[k] = float(rng.uniform(0.0, 1.0) * T * dt) if "period" not in k else float(rng.uniform(0.5, 4.0))
        if p["period"] is not None:
            p["period"] = float(rng.uniform(0.05, 0.3) * T * dt)
        interval = int(rng.integers(1, 4))
        off = attempt % 17 == 16
        sw = OnOffSwitch(**p, interval=interval, is_always_off=off)
        exp = [bool(_py_active(p, off, t, dt)) and t % interval == 0 for t in range(T)]
        try:
            on = sw.calculate_on_list(num_total_time_steps=T, time_step_duration=dt)
            idx = sw.calculate_time_step_to_on_arr_idx(num_total_time_steps=T, time_step_duration=dt)
        except Exception as e:  # noqa: BLE001
            return True, f"switch {p} interval={interval} always_off={off}, T={T}, dt={dt:.3e}: a well-specified schedule, but the real calculate_on_list raises {type(e).__name__}({e})"
        det = fdtdx.FieldDetector(name=f"d{attempt}", switch=sw).place_on_grid(((0, 2), (0, 2), (0, 2)), cfg, None)
        src = fdtdx.PointDipoleSource(name=f"s{attempt}", wave_character=WaveCharacter(wavelength=1e-6), polarization=0, switch=sw).place_on_grid(((0, 1), (0, 1), (0, 1)), cfg, None)
        ispec = _index_spec_concrete(exp)
        got = {
            "on_list": [bool(x) for x in on],
            "switch index map": list(idx),
            "detector on array": [bool(x) for x in np.asarray(det._is_on_at_time_step_arr)],
            "detector index map": [int(x) for x in np.asarray(det._time_step_to_arr_idx)],
            "source on array": [bool(x) for x in np.asarray(src._is_on_at_time_step_arr)],
            "source index map": [int(x) for x in np.asarray(src._time_step_to_on_idx)],
        }
        want = {"on_list": exp, "switch index map": ispec, "detector on array": exp, "detector index map": ispec, "source on array": exp, "source index map": ispec}
        rows = {k: v.shape[0] for k, v in det.init_state().items()}
        for k in got:
            if got[k] != want[k]:
                return True, f"switch {p} interval={interval} always_off={off}, T={T}, dt={dt:.3e}: {k} = {got[k]}, expected {want[k]}"
        if det.num_time_steps_recorded != sum(exp) or any(r != sum(exp) for r in rows.values()):
            return True, f"switch {p} interval={interval}: detector rows {rows}/{det.num_time_steps_recorded}, expected {sum(exp)}"
    return False, f"60 random schedules (T={T}) agree with the rule on the real code"


def _unit_profile():
    from fdtdx.objects.sources.profile import TemporalProfile

    class _UnitProfile(TemporalProfile):
        def get_amplitude(self, time, period, phase_shift=0.0):
            import jax.numpy as jnp

            return jnp.ones_like(jnp.asarray(time, dtype=jnp.float64))

    return _UnitProfile()


def _replay_gate_source(witness):
    import ast

    import jax
    import jax.numpy as jnp
    import numpy as np

    import fdtdx.fdtd.update as U
    from fdtdx.fdtd.container import ObjectContainer

    notes = (witness or {}).get("notes", {})
    spec = K.parse_spec(notes)
    if not spec:
        return False, "no configuration recorded"
    spec["mu"] = spec.get("mu") if spec.get("mu") != "scalar" else "scalar"
    fn = notes.get("fn", "update_E")
    details = []
    for attempt in range(3):
        shape, cfg, objs, arrays, rng = K.concrete_scene(spec, {"scalars": {"Nx": 4 + attempt, "Ny": 5, "Nz": 4}}, seed=attempt)
        srcs = K.concrete_sources(spec, shape, cfg, 8, rng, arrays)  # schedule: steps 1, 4, 7 inactive
        # unit temporal profile: the default continuous-wave profile is zero at the (negative) adjusted
        # time of an inactive step, which would hide an injection
        srcs = [s_.aset("temporal_profile", _unit_profile()) for s_ in srcs]
        with_src = ObjectContainer(object_list=[*objs, *srcs], volume_idx=0)
        without = ObjectContainer(object_list=list(objs), volume_idx=0)
        f = getattr(U, fn)
        extra = (True,) if not fn.endswith("reverse") else ()
        for t in (1, 4):
            with jax.disable_jit():
                a = f(jnp.asarray(t, dtype=jnp.int32), arrays, with_src, cfg, *extra)
                b = f(jnp.asarray(t, dtype=jnp.int32), arrays, without, cfg, *extra)
            d = max(K.max_abs_diff(a.fields.E, b.fields.E), K.max_abs_diff(a.fields.H, b.fields.H))
            details.append(f"shape={shape} inactive step t={t}: max |with source - without source| = {d:.3e}")
            if d > 0:
                return True, f"{fn}: an inactive source changed the fields on the real code:\n" + "\n".join(details)
    return False, "\n".join(details)


def _replay_gate_detector(witness):
    import jax
    import jax.numpy as jnp
    import numpy as np

    import fdtdx
    import fdtdx.fdtd.update as U
    from fdtdx.core.switch import OnOffSwitch
    from fdtdx.fdtd.container import ObjectContainer

    notes = (witness or {}).get("notes", {}).get("detector", {"kind": "field", "exact": False})
    spec = {"bnd": ((None, None),) * 3, "eps": 3, "mu": 3}
    shape, cfg, objs, arrays, rng = K.concrete_scene(spec, {"scalars": {"Nx": 5, "Ny": 4, "Nz": 6}}, seed=3)
    T = 8
    on = np.ones(T, dtype=bool)
    on[1::3] = False
    idx = np.where(on, np.cumsum(on) - 1, -1).astype(np.int32)
    box = ((1, 4), (0, 3), (2, 5))
    cls = fdtdx.FieldDetector if notes.get("kind") == "field" else fdtdx.EnergyDetector
    inverse = bool(notes.get("inverse"))
    det = cls(name="det", exact_interpolation=bool(notes.get("exact")), switch=OnOffSwitch(interval=2), dtype=jnp.float64, inverse=inverse)
    det = scene._place(det, box, cfg)
    det = det.aset("_is_on_at_time_step_arr", jnp.asarray(on), create_new_ok=True)
    det = det.aset("_time_step_to_arr_idx", jnp.asarray(idx), create_new_ok=True)
    det = det.aset("_num_time_steps_on", int(on.sum()), create_new_ok=True)
    det = det.aset("_cached_cell_volume_weights", jnp.ones((3, 3, 3)), create_new_ok=True)
    oc = ObjectContainer(object_list=[*objs, det], volume_idx=0)
    key = "fields" if notes.get("kind") == "field" else "energy"
    rows = int(on.sum())
    st_shape = (rows, 6, 3, 3, 3) if key == "fields" else (rows, 3, 3, 3)
    details = []
    for t in range(T):
        st0 = jnp.asarray(rng.normal(size=st_shape))
        arrs = arrays.aset("detector_states", {"det": {key: st0}})
        with jax.disable_jit():
            res = U.update_detector_states(jnp.asarray(t, dtype=jnp.int32), arrs, oc, cfg, arrays.fields.H, inverse)
        new = np.asarray(res.detector_states["det"][key])
        changed = sorted({int(r) for r in np.argwhere(new != np.asarray(st0))[:, 0]})
        want = [int(idx[t])] if on[t] else []
        details.append(f"t={t} active={bool(on[t])}: rows changed {changed}, expected {want}")
        if changed != want:
            return True, "update_detector_states on the real code:\n" + "\n".join(details)
        if on[t] and key == "fields" and not notes.get("exact"):
            gs = tuple(slice(a, b) for a, b in box)
            rec = np.concatenate([np.asarray(arrays.fields.E)[(slice(None), *gs)], np.asarray(arrays.fields.H)[(slice(None), *gs)]], 0)
            if not np.allclose(new[idx[t]], rec):
                return True, f"t={t}: row {idx[t]} does not hold the fields of this step"
    return False, "\n".join(details)


_REPLAY_CACHE = {}


def replay(key, obligation, witness):
    part = obligation.split("|", 1)[0] if "|" in obligation else ((witness or {}).get("notes", {}).get("part") or key)
    if part.startswith("rule/"):
        return _replay_rule(witness)
    notes = (witness or {}).get("notes", {})
    # the remaining replays depend on the configuration only (random concrete data): one run per configuration
    ck = (part.split("/T")[0], repr(notes.get("fixed")), repr(notes.get("spec")), repr(notes.get("fn")), repr(notes.get("detector")))
    if ck not in _REPLAY_CACHE:
        if part.startswith(("on_list/", "index_map/")):
            _REPLAY_CACHE[ck] = _replay_lists(witness)
        elif part.startswith("gate/source/"):
            _REPLAY_CACHE[ck] = _replay_gate_source(witness)
        elif part.startswith("gate/detector/"):
            _REPLAY_CACHE[ck] = _replay_gate_detector(witness)
        else:
            _REPLAY_CACHE[ck] = (False, "no replay for this part")
    return _REPLAY_CACHE[ck]


FUNCTIONS = [
    "fdtdx.core.switch.is_on_at_time_step",
    "fdtdx.core.switch.is_on_at_time_step_from_switch",
    "fdtdx.core.switch.OnOffSwitch.is_on_at_time_step",
    "fdtdx.core.switch.OnOffSwitch.is_default_always_on",
    "fdtdx.core.switch.OnOffSwitch.calculate_on_list",
    "fdtdx.core.switch.OnOffSwitch.calculate_time_step_to_on_arr_idx",
    "fdtdx.objects.detectors.detector.Detector.place_on_grid / _calculate_on_list / _num_latent_time_steps / init_state",
    "fdtdx.objects.sources.source.Source.place_on_grid / _update_on_arrays / is_on_at_time_step",
    "fdtdx.fdtd.update.update_E / update_H / update_E_reverse / update_H_reverse (source gating)",
    "fdtdx.fdtd.update._source_uses_default_always_on_switch",
    "fdtdx.fdtd.update.update_detector_states (detector gating, forward and backward detectors)",
    "fdtdx.objects.detectors.field.FieldDetector.update (write index)",
    "fdtdx.objects.detectors.energy.EnergyDetector.update (write index)",
]
INLINED = ["SimulationObject.place_on_grid", "TreeClass.aset (pytreeclass)", "fdtdx.core.physics.metrics.compute_energy", "fdtdx.core.physics.curl.interpolate_fields (exact detector variant)", "source.update_E/update_H of TFSF plane sources and point dipoles (only their being skipped matters)"]
STUBS = [
    "math.inf inside fdtdx.core.switch: an object greater than every real",
    "is_on_at_time_step inside calculate_on_list (on_list/callee_contract): call-site arguments checked, arbitrary boolean returned; the unstubbed composition is run for five schedule classes",
    "OnOffSwitch.calculate_on_list inside the index-map tasks: arbitrary on-pattern of the enumerated length",
    "SimulationConfig.time_steps_total / time_step_duration: given values (T enumerated, dt arbitrary)",
    "source incident profiles / temporal profile as in C02 (arbitrary arrays / uninterpreted function)",
    "detector schedule arrays in the gating tasks: arbitrary arrays satisfying contract (c)",
]
ASSUMPTIONS = [
    "list-building loops have a Python-level trip count: the total number of steps T is ENUMERATED (quick: T <= 7 for callee-contract / index-map tasks with arbitrary on-patterns, T <= 4 for the unstubbed schedule classes; thorough: 9 and 6); the per-step rule itself is proved for every integer t",
    "fixed step lists: steps are distinct-or-repeated integers in [0, T); exhaustively enumerated for T <= 4 (thorough 5) as a bounded stand-in",
    "interval >= 1; time step duration > 0 and t >= 0 where the default start 0 is compared with t*dt",
    "the comparison t*dt <= end is over the reals (floating-point ties at window edges not modelled)",
    "PhasorDetector's additional DFT sub-sampling of its on-list and the detectors' record contents are outside this property (C17/C15); detector write index is proved for FieldDetector and EnergyDetector",
]
MIN_OBLIGATIONS = {"quick": 20000, "thorough": 100000}
LEVEL_TEXT = (
    "Deductive proof, for all real schedule parameter values, all 2^7 None-patterns, every integer step t and step duration, that the real is_on_at_time_step "
    "returns exactly the documented window rule (and raises exactly on conflicting specifications); for every total step count up to the stated bound and ARBITRARY "
    "per-step rule outcomes / on-patterns, that the real on-list, index maps, detector placement and source placement match their contracts; and for all grid shapes, "
    "fields, materials and steps that the real update_E/H(/reverse) return the source-free result at inactive steps and update_detector_states changes exactly row idx[t] "
    "at active steps and nothing otherwise"
)
LEVEL_NOTE = "list lengths (total step count) enumerated up to a bound; fixed step lists enumerated (bounded stand-in); real arithmetic; detector/source set-up arrays abstracted by the contracts proved in the index-map tasks"
