"""C02  One backward step exactly undoes one forward step.

Obligation: for the REAL `forward` followed by the REAL `backward` (fdtdx.fdtd.forward/backward),
on a fully symbolic state (symbolic shape Nx,Ny,Nz >= 1, symbolic fields, materials, Courant
number, time step, source profiles and schedules), E and H after the round trip equal the original
E and H at every index, and the step counter returns to t.

Preconditions (from the property text): the state satisfies the wall conditions (tangential E
zero on PEC slabs, tangential H zero on PMC slabs); loss factor 1 - s != 0 for lossy media.
"""

from __future__ import annotations

import itertools

from props import common as K
from vc import array as A
from vc import scene
from vc.core import ctx
from vc.harness import Task
from vc.obl import prove_arrays_equal, sym_int

ID = "C02"
LEVEL = "proof"
TECHNIQUE = "symbolic execution of the real forward/backward step functions; pointwise round-trip obligations discharged by z3 / exact ring normal form"
MODULES = K.SOLVER_MODULES
FILES = K.SOLVER_FILES
FUNCTIONS = [
    "fdtdx.fdtd.forward.forward",
    "fdtdx.fdtd.backward.backward",
    "fdtdx.fdtd.update.update_E",
    "fdtdx.fdtd.update.update_H",
    "fdtdx.fdtd.update.update_E_reverse",
    "fdtdx.fdtd.update.update_H_reverse",
    "fdtdx.fdtd.update.pad_fields_for_boundaries",
    "fdtdx.core.misc.pad_fields",
    "fdtdx.core.physics.curl.curl_E",
    "fdtdx.core.physics.curl.curl_H",
    "fdtdx.fdtd.misc.compute_anisotropic_update_matrices(_reverse)",
    "fdtdx.fdtd.misc.avg_anisotropic_E_component",
    "fdtdx.fdtd.misc.avg_anisotropic_H_component",
    "fdtdx.core.misc.expand_to_3x3",
    "fdtdx.objects.boundaries.pec.PerfectElectricConductor.apply_post_E_update",
    "fdtdx.objects.boundaries.pmc.PerfectMagneticConductor.apply_post_H_update",
    "fdtdx.objects.boundaries.bloch.BlochBoundary.apply_pad_correction/apply_field_reset",
    "fdtdx.objects.sources.tfsf.TFSFPlaneSource.update_E/update_H",
    "fdtdx.objects.sources.tfsf._tfsf_inject_E_face/_tfsf_inject_H_face",
    "fdtdx.objects.sources.dipole.PointDipoleSource.update_E/update_H",
    "fdtdx.objects.sources.source.Source.is_on_at_time_step/adjust_time_step_by_on_off",
    "fdtdx.core.misc.linear_interpolated_indexing",
]
INLINED = ["fdtdx.core.physics.curl._metric_scale", "fdtdx.fdtd.update.get_wrap_padding_axes", "fdtdx.fdtd.update.apply_boundary_post_E/H_update", "TreeClass.aset (pytreeclass)"]
STUBS = [
    "Recorder.decompress (no PML objects: returned values are never read)",
    "TemporalProfile.get_amplitude as an uninterpreted function of (time, phase)",
    "source incident profiles _E/_H/_time_offset_* and switch arrays as produced by apply()/place_on_grid() (arbitrary arrays of the documented shape)",
    "RectilinearGrid.cell_widths / min_spacing (SymGrid: arbitrary widths >= min spacing > 0)",
]
ASSUMPTIONS = [
    "precondition: tangential E (H) is zero on PEC (PMC) slabs in the starting state (property text: 'any field state that satisfies the wall conditions')",
    "precondition: 1 - c*sigma*eta0*inv_eps/2 != 0 and 1 - c*sigma_H/eta0*inv_mu/2 != 0 (forward map not injective otherwise)",
    "inverse permittivity / permeability entries > 0 and conductivities >= 0 for 1- and 3-component tiers",
    "full-tensor tier: lossless only (property text), tensor entries unconstrained",
]
MIN_OBLIGATIONS = {"quick": 200, "thorough": 1000}


class _NullRecorder:
    def decompress(self, state, time_step, key):
        return {}, state


def _gradient_config():
    from fdtdx.config import GradientConfig

    g = GradientConfig.__new__(GradientConfig)
    g.__dict__.update(method="reversible", recorder=_NullRecorder(), num_checkpoints=None, num_checkpoints_reversible=0)
    return g


def _setup(c, inp, spec, which):
    """fresh symbolic scene for one configuration.  which in {'E','H','compose'} selects the wall
    preconditions that matter for the lemma under proof."""
    from fdtdx.constants import eta0

    assign = spec["bnd"]
    shape = scene.sym_shape()
    for n, v in zip("xyz", shape):
        inp.scalar(f"N{n}", v)
    cfg = scene.make_config(nonuniform_shape=shape if spec.get("nonuniform") else None, gradient_config=_gradient_config())
    cn = cfg.courant_number
    inp.scalar("courant_number", cn)
    bnds = K.make_boundaries(assign, shape, cfg)
    T = K.sym_time_total()
    srcs = []
    for s in spec.get("sources", []):
        if s[0] == "plane":
            _, cls, ax, d, gated = s
            src, pos = K.make_plane_source(cls, shape, cfg, ax, d, T, gated=gated, complex_profile=bool(spec.get("complex")))
            srcs.append(src)
        elif s[0] == "dipole":
            _, st, pol, gated, rot = s
            src, pos = K.make_dipole(shape, cfg, T, source_type=st, polarization=pol, gated=gated, rotated=rot)
            srcs.append(src)
    objs = scene.make_objects(shape, cfg, bnds, srcs)
    Ef, Hf = K.wall_facts(assign, shape)
    sE, sH = K.loss_factor_facts(cn, eta0, spec.get("sigE"), spec.get("sigH"))
    arr = scene.make_arrays(
        shape,
        eps_tier=spec["eps"],
        mu_tier=spec["mu"],
        sigE_tier=spec.get("sigE"),
        sigH_tier=spec.get("sigH"),
        complex_fields=spec.get("complex", False),
        E_fact=Ef if which in ("E", "compose") else None,
        H_fact=Hf if which in ("H", "compose") else None,
        sigE_fact=sE,
        sigH_fact=sH,
        recording_state=object(),
    )
    inp.array("E", arr.fields.E)
    inp.array("H", arr.fields.H)
    inp.array("inv_eps", arr.inv_permittivities, default=1.0)
    if isinstance(arr.inv_permeabilities, A.SymArray):
        inp.array("inv_mu", arr.inv_permeabilities, default=1.0)
    if arr.electric_conductivity is not None:
        inp.array("sigma_E", arr.electric_conductivity, default=0.0)
    if arr.magnetic_conductivity is not None:
        inp.array("sigma_H", arr.magnetic_conductivity, default=0.0)
    inp.note("spec", {k: str(v) for k, v in spec.items()})
    t_arr, t = K.time_scalar("t")
    c.assume((t + 1 <= T).z)
    inp.scalar("t", t)
    c.cover("pre")
    return shape, cfg, objs, arr, t_arr, t, assign


def _same(name, a, b):
    """frame obligation: a and b denote the same value (aset copies leaves, so identity is not enough)"""
    c = ctx()
    if a is b:
        return c.prove(name, True)
    if isinstance(a, A.SymArray) and isinstance(b, A.SymArray):
        return prove_arrays_equal(name, a, b)
    if isinstance(a, A.SymArray) or isinstance(b, A.SymArray):
        return c.prove(name, False)
    return c.prove(name, a == b)


def _same_materials(name, x, y):
    ok = True
    for f in ("inv_permittivities", "inv_permeabilities", "electric_conductivity", "magnetic_conductivity"):
        ok &= _same(f"{name}:{f}", getattr(x, f), getattr(y, f))
    return ok


def _wall_post(name, F, assign, shape, kind):
    """post of update_E (update_H): tangential components vanish on PEC (PMC) slabs"""
    from vc.obl import prove_pointwise

    def where(idx):
        comp = idx[0]
        res = False
        for ax, (lo, hi) in enumerate(assign):
            if comp == ax:
                continue
            if lo == kind:
                res = A._vor(res, idx[1 + ax] == 0)
            if hi == kind:
                res = A._vor(res, idx[1 + ax] == shape[ax] - 1)
        return res

    if not any(kind in p for p in assign):
        return
    prove_pointwise(name, F, lambda v, idx: A.v_eq(v, 0), where=where)


def _pair(spec, which):
    """Lemma E: update_E_reverse(update_E(s)).E == s.E, update_E touches only E (frame) and
    establishes the PEC wall condition.  Lemma H: dually for H."""

    def body(c, inp):
        import fdtdx.fdtd.update as U

        shape, cfg, objs, arr, t_arr, t, assign = _setup(c, inp, spec, which)
        if which == "E":
            s1 = U.update_E(t_arr, arr, objs, cfg, True)
            _same("update_E/frame:H", s1.fields.H, arr.fields.H)
            _same_materials("update_E/frame", s1, arr)
            _wall_post("update_E/post:pec_wall", s1.fields.E, assign, shape, "pec")
            s0 = U.update_E_reverse(t_arr, s1, objs, cfg)
            _same("update_E_reverse/frame:H", s0.fields.H, arr.fields.H)
            _same_materials("update_E_reverse/frame", s0, arr)
            prove_arrays_equal("E_restored", s0.fields.E, arr.fields.E)
        else:
            s1 = U.update_H(t_arr, arr, objs, cfg, True)
            _same("update_H/frame:E", s1.fields.E, arr.fields.E)
            _same_materials("update_H/frame", s1, arr)
            _wall_post("update_H/post:pmc_wall", s1.fields.H, assign, shape, "pmc")
            s0 = U.update_H_reverse(t_arr, s1, objs, cfg)
            _same("update_H_reverse/frame:E", s0.fields.E, arr.fields.E)
            _same_materials("update_H_reverse/frame", s0, arr)
            prove_arrays_equal("H_restored", s0.fields.H, arr.fields.H)

    return body


def _compose(spec):
    """forward = update_H o update_E and backward = update_E_reverse o update_H_reverse on the same
    (t, objects, config, materials): the four update functions are replaced by stubs that CHECK the
    preconditions of Lemma E / Lemma H at the call site and return what the lemmas guarantee.
    Everything else in forward()/backward() (step counter, add_interfaces, field reset) is real."""

    def body(c, inp):
        import fdtdx.fdtd.backward as B
        import fdtdx.fdtd.forward as F

        shape, cfg, objs, arr, t_arr, t, assign = _setup(c, inp, spec, "compose")
        kind = "complex" if spec.get("complex") else "real"
        Ef, Hf = K.wall_facts(assign, shape)
        E0, H0 = arr.fields.E, arr.fields.H
        E1 = A.fresh_array("E1", (3, *shape), kind, fact=Ef)  # post of update_E: PEC wall condition
        H1 = A.fresh_array("H1", (3, *shape), kind, fact=Hf)
        log = []

        def same_env(tag, time_step, arrays, objects, config):
            c.prove(f"{tag}/pre:time_step", A.v_eq(A.asarray(time_step).item(), t))
            c.prove(f"{tag}/pre:same_objects_config", objects is objs and config is cfg)
            _same_materials(f"{tag}/pre:same_materials", arrays, arr)

        def st_update_E(time_step, arrays, objects, config, simulate_boundaries):
            log.append("update_E")
            same_env("update_E", time_step, arrays, objects, config)
            _same("update_E/pre:E", arrays.fields.E, E0)
            _same("update_E/pre:H", arrays.fields.H, H0)
            return arrays.aset("fields->E", E1)

        def st_update_H(time_step, arrays, objects, config, simulate_boundaries):
            log.append("update_H")
            same_env("update_H", time_step, arrays, objects, config)
            _same("update_H/pre:E", arrays.fields.E, E1)
            _same("update_H/pre:H", arrays.fields.H, H0)
            return arrays.aset("fields->H", H1)

        def st_update_H_reverse(time_step, arrays, config, objects):
            log.append("update_H_reverse")
            same_env("update_H_reverse", time_step, arrays, objects, config)
            ok = prove_arrays_equal("update_H_reverse/pre:E_is_forward_E", arrays.fields.E, E1)
            ok &= prove_arrays_equal("update_H_reverse/pre:H_is_forward_H", arrays.fields.H, H1)
            return arrays.aset("fields->H", H0)  # Lemma H

        def st_update_E_reverse(time_step, arrays, config, objects):
            log.append("update_E_reverse")
            same_env("update_E_reverse", time_step, arrays, objects, config)
            prove_arrays_equal("update_E_reverse/pre:E_is_forward_E", arrays.fields.E, E1)
            prove_arrays_equal("update_E_reverse/pre:H_is_original_H", arrays.fields.H, H0)
            return arrays.aset("fields->E", E0)  # Lemma E

        saved = (F.update_E, F.update_H, B.update_H_reverse, B.update_E_reverse)
        F.update_E, F.update_H, B.update_H_reverse, B.update_E_reverse = st_update_E, st_update_H, st_update_H_reverse, st_update_E_reverse
        try:
            s1 = F.forward((t_arr, arr), cfg, objs, None, record_detectors=False, record_boundaries=False, simulate_boundaries=True)
            c.prove("forward/step_counter", A.v_eq(A.asarray(s1[0]).item(), t + 1))
            s0 = B.backward(s1, cfg, objs, key=object(), record_detectors=False, reset_fields=True)
        finally:
            F.update_E, F.update_H, B.update_H_reverse, B.update_E_reverse = saved
        c.prove("call_order", log == ["update_E", "update_H", "update_H_reverse", "update_E_reverse"])
        prove_arrays_equal("E_restored", s0[1].fields.E, E0)
        prove_arrays_equal("H_restored", s0[1].fields.H, H0)
        c.prove("time_step_restored", A.v_eq(A.asarray(s0[0]).item(), t))

    return body


def _src_sets(tier):
    sets = [
        [],
        [("plane", "UniformPlaneSource", 0, "+", False)],
        [("plane", "UniformPlaneSource", 1, "-", True)],
        [("plane", "GaussianPlaneSource", 2, "+", True)],
        [("dipole", "electric", 2, False, False)],
        [("dipole", "magnetic", 0, True, False)],
        [("dipole", "electric", 1, True, True)],
        [("plane", "UniformPlaneSource", 2, "-", False), ("dipole", "magnetic", 1, False, True)],
    ]
    if tier == "thorough":
        for ax in range(3):
            for d in "+-":
                for g in (False, True):
                    s = [("plane", "UniformPlaneSource", ax, d, g)]
                    if s not in sets:
                        sets.append(s)
        for st in ("electric", "magnetic"):
            for pol in range(3):
                for g in (False, True):
                    for rot in (False, True):
                        s = [("dipole", st, pol, g, rot)]
                        if s not in sets:
                            sets.append(s)
    return sets


def _add(out, key, spec, **kw):
    out[f"{key}/lemmaE"] = Task(_pair(spec, "E"), **kw)
    out[f"{key}/lemmaH"] = Task(_pair(spec, "H"), **kw)


def tasks(tier, seed):
    out = {}
    assigns = K.boundary_assignments(tier, seed, K.AXIS_PAIRS_CLOSED, n_sample=8 if tier == "quick" else 0)
    # (a) boundary coverage on the diagonal lossy tier, no sources
    for a in assigns:
        spec = dict(bnd=a, eps=3, mu=3, sigE=3, sigH=3)
        _add(out, f"bnd/{K.bnd_label(a)}/e3m3sE3sH3", spec)
    # (b) material tiers on a mixed boundary assignment
    mixed = (("pec", "pmc"), ("periodic", "periodic"), (None, None))
    tiers = [(1, "scalar", None, None), (1, 1, 1, 1), (3, 1, 1, 3), (3, 3, None, 1), (1, 3, 3, None), (3, "scalar", 3, None), (1, 1, None, None), (9, 9, None, None), (9, "scalar", None, None), (9, 3, None, None), (3, 9, None, None), (1, 9, None, None)]
    for e, m, se, sh in tiers:
        spec = dict(bnd=mixed, eps=e, mu=m, sigE=se, sigH=sh)
        _add(out, f"tier/e{e}m{m}sE{se}sH{sh}", spec)
    # (c) non-uniform grid
    for e, m, se, sh in [(3, 3, 3, 3), (1, "scalar", None, None), (9, 9, None, None)]:
        spec = dict(bnd=mixed, eps=e, mu=m, sigE=se, sigH=sh, nonuniform=True)
        _add(out, f"nonuniform/e{e}m{m}sE{se}sH{sh}", spec)
    # (d) Bloch boundaries (complex fields)
    blochs = [(("bloch", "bloch"), (None, None), ("pec", "pmc")), (("periodic", "periodic"), ("bloch", "bloch"), ("bloch", "bloch"))]
    for a in blochs:
        spec = dict(bnd=a, eps=3, mu=1, sigE=1, sigH=None, complex=True)
        _add(out, f"bloch/{K.bnd_label(a)}", spec)
    # (e) sources
    for i, ss in enumerate(_src_sets(tier)):
        if not ss:
            continue
        for e, m, se, sh in [(3, 3, 1, None), (9, 9, None, None)] if tier == "thorough" or i < 4 else [(3, "scalar", None, 1)]:
            spec = dict(bnd=mixed, eps=e, mu=m, sigE=se, sigH=sh, sources=ss)
            lab = "+".join("_".join(str(x) for x in s) for s in ss)
            _add(out, f"src/{lab}/e{e}m{m}", spec, max_paths=256)
    # (f) composition of the lemmas through the real forward()/backward()
    for a in [mixed, blochs[0], ((None, None),) * 3, (("pec", "pec"), ("pmc", "pmc"), ("periodic", "periodic"))]:
        spec = dict(bnd=a, eps=3, mu=3, sigE=3, sigH=3, complex=any("bloch" in p for p in a))
        out[f"compose/{K.bnd_label(a)}"] = Task(_compose(spec))
    spec = dict(bnd=mixed, eps=3, mu=3, sigE=None, sigH=None, sources=[("plane", "UniformPlaneSource", 0, "+", True), ("dipole", "electric", 2, False, False)])
    out["compose/with_sources"] = Task(_compose(spec), max_paths=256)
    return out


def replay(key, obligation, witness):
    """Run the REAL forward() then backward() under real JAX (float64) on the witness' shape and
    arrays (randomly completed, wall preconditions enforced) and compare with the original state."""
    import jax
    import jax.numpy as jnp
    import numpy as np

    import fdtdx.fdtd.backward as B
    import fdtdx.fdtd.forward as F
    from fdtdx.fdtd.container import ObjectContainer

    spec = K.parse_spec((witness or {}).get("notes"))
    if not spec:
        return False, "no configuration recorded in the witness"
    details = []
    for attempt in range(4):
        shape, cfg, objs, arrays, rng = K.concrete_scene(spec, witness if attempt == 0 else {"scalars": (witness or {}).get("scalars", {})}, seed=attempt)
        if attempt >= 2:
            shape, cfg, objs, arrays, rng = K.concrete_scene(spec, {"scalars": {"Nx": 3 + attempt, "Ny": 4, "Nz": 3}}, seed=attempt)
        T = 8
        srcs = K.concrete_sources(spec, shape, cfg, T, rng, arrays)
        oc = ObjectContainer(object_list=[*objs, *srcs], volume_idx=0)
        for t in (0, 3):
            with jax.disable_jit():
                s1 = F.forward((jnp.asarray(t, dtype=jnp.int32), arrays), cfg, oc, jax.random.PRNGKey(0), record_detectors=False, record_boundaries=False, simulate_boundaries=True)
                s0 = B.backward(s1, cfg, oc, key=jax.random.PRNGKey(0), record_detectors=False, reset_fields=True)
            scale = max(1.0, float(np.max(np.abs(np.asarray(arrays.fields.E)))), float(np.max(np.abs(np.asarray(arrays.fields.H)))))
            dE = K.max_abs_diff(s0[1].fields.E, arrays.fields.E) / scale
            dH = K.max_abs_diff(s0[1].fields.H, arrays.fields.H) / scale
            details.append(f"attempt {attempt} shape={shape} t={t}: |dE|={dE:.3e} |dH|={dH:.3e} step={int(s0[0])}")
            if dE > 1e-9 or dH > 1e-9 or int(s0[0]) != t:
                return True, "round trip differs on the real code:\n" + "\n".join(details)
    return False, "\n".join(details)


LEVEL_TEXT = (
    "Deductive proof, for all grid shapes, field/material values, Courant numbers, time steps, source profiles and schedules, "
    "that the real update_E/update_E_reverse and update_H/update_H_reverse are mutually inverse (Lemma E/H with frame and wall "
    "post-conditions) and that the real forward()/backward() compose them on the same arguments; finite configuration classes "
    "(boundary kind per face, material tier, grid kind, source kind) are enumerated"
)
LEVEL_NOTE = "exact real arithmetic instead of IEEE-754; preconditions: wall conditions on the start state, loss factor != 0; temporal profile and source set-up arrays abstracted as arbitrary functions/arrays; quick tier samples the boundary product (thorough: full 8^3 product)"
