"""C20  Projection filters are bounded, monotone and well-behaved at the extremes.

Contracts (postconditions are the property text)

  TanhProjection.__call__(params, beta) -> tanh_projection(x, beta, eta)          every voxel i (and j)
      requires eta in [0,1];  beta in one of the classes  {0, finite positive (symbolic), +inf}
      ensures  out.shape == x.shape
      ensures  0 <= x[i] <= 1            =>  0 <= out[i] <= 1                     (maps [0,1] into [0,1])
      ensures  x[i] <= x[j]              =>  out[i] <= out[j]                     (non-decreasing, all reals)
      ensures  0 < eta < 1, x[i] == 0    =>  out[i] == 0 ;   x[i] == 1 => out[i] == 1
      ensures  beta == 0                 =>  out[i] == min(max(x[i], 0), 1)       (clipping, all reals)
      ensures  beta == inf, x[i] > eta   =>  out[i] == 1 ;   x[i] < eta => out[i] == 0
      guard    every divisor evaluated anywhere in the function (on EVERY branch of every jnp.where,
               selected or not) is non-zero for all eta in [0,1] and all beta of the class
  SubpixelSmoothedProjection.__call__(params, beta) -> smoothed_projection(rho, beta, eta, resolution)
      requires the array is (n1, n2) with one extra singleton axis, n1, n2 >= 2 (jnp.gradient needs 2),
               equal positive in-plane voxel sizes
      ensures  out.shape == rho.shape
      ensures  no interface in cell (i,j)  =>  out[i,j] == tanh_projection(rho)[i,j]
               "no interface": the finite-difference gradient g of rho vanishes at (i,j), or the
               first-order distance |eta - rho| / |g| to the level set rho == eta is at least the
               smoothing radius 0.55 * dx, written division-free as (eta-rho)^2 >= 0.55^2 (gx^2 + gy^2)
      guard    every divisor is non-zero and every sqrt argument is positive, on every where-branch

tanh and sqrt are uninterpreted; the only facts used are the AXIOMS below (tanh: odd, strictly
increasing, range (-1,1), tanh(0) = 0;  sqrt: non-negative, positive on positive arguments,
sqrt(a)^2 = a for a >= 0), instantiated on the applications that occur.

"Finite gradients" is NOT provable with this engine.  It is approximated exactly as DESIGN.md section 4
says: the guarded-division / guarded-sqrt criterion above (no operand of any where can be x/0 or
sqrt'(0)), plus a BOUNDED real-JAX stand-in (jax.grad on an enumerated beta x eta x array x dtype x
voxel-size grid, labelled bounded).
"""

from __future__ import annotations

import itertools
from fractions import Fraction

import z3

from vc import array as A
from vc.core import SymNum, ctx, sym_max, sym_min, to_z3_real, v_eq
from vc.harness import Task
from vc.obl import index_cases, prove_same_shape, sym_int, sym_real

ID = "C20"
LEVEL = "proof"
TECHNIQUE = "symbolic execution of the real TanhProjection / SubpixelSmoothedProjection (tanh_projection, smoothed_projection) on symbolic shapes, values, beta, eta and voxel size; tanh/sqrt uninterpreted with pairwise-instantiated monotonicity/oddness axioms; z3/cvc5; divisor and sqrt-argument guards collected from every evaluated branch"
MODULES = ["fdtdx.objects.device.parameters.projection"]
FILES = ["src/fdtdx/objects/device/parameters/projection.py"]
FUNCTIONS = [
    "fdtdx.objects.device.parameters.projection.tanh_projection",
    "fdtdx.objects.device.parameters.projection.smoothed_projection",
    "fdtdx.objects.device.parameters.projection.TanhProjection.__call__",
    "fdtdx.objects.device.parameters.projection.SubpixelSmoothedProjection.__call__",
]
INLINED = []
STUBS = ["tanh, sqrt: uninterpreted functions constrained by the axioms listed in ASSUMPTIONS"]
ASSUMPTIONS = [
    "tanh axioms: odd, strictly increasing, -1 < tanh < 1, tanh(0) = 0 (instantiated pairwise on the occurring applications)",
    "sqrt axioms: sqrt(a) >= 0, a > 0 => sqrt(a) > 0, a >= 0 => sqrt(a)^2 = a",
    "beta classes enumerated: the Python floats 0.0 and inf (they select separate code branches) and an arbitrary finite positive real; eta an arbitrary real in [0,1] (strictly inside (0,1) for the fixed-point clauses, as the property says)",
    "'finite gradients' is approximated by the guarded-division/guarded-sqrt criterion (every divisor non-zero and every sqrt argument positive on every where-branch, for all inputs of the domain) and a bounded real-JAX jax.grad stand-in; differentiability itself is not proved",
    "'cell without an interface' is read as: finite-difference gradient zero, or first-order level-set distance |eta-rho|/|grad rho| >= 0.55 dx (the smoothing radius stated in the function's documentation)",
    "smoothed projection: both in-plane extents >= 2 (jnp.gradient raises otherwise); monotonicity of the smoothed projection is not claimed by the property and not checked",
    "jnp.gradient is modelled by vc.array.gradient (second-order central differences inside, one-sided first-order differences at the ends, unit spacing), cross-checked against real jnp.gradient on random arrays; inside the smoothed-projection tasks its results are referred to by name (fresh arrays carrying their defining equation) so that the solver sees short terms",
    "the agreement clause is proved through a chain of small lemmas: real-arithmetic steps as universally quantified lemmas in a fresh solver, instantiated on terms the code evaluated (its divisors and its sqrt application); the chain is additionally exercised by a bounded real-JAX comparison (labelled bounded)",
]
MIN_OBLIGATIONS = {"quick": 200, "thorough": 200}
LEVEL_TEXT = "Deductive proof over all array shapes/values, all thresholds in [0,1], all positive voxel sizes and every beta in {0} U (0,inf) U {inf} of the range, monotonicity, fixed-point, limit-case and agreement clauses of the real projection code; tanh/sqrt axiomatised"
LEVEL_NOTE = "real arithmetic; finite gradients only via the guarded-division criterion plus a bounded real-JAX gradient stand-in (labelled bounded)"
BOUNDED_RULE = "bounded stand-in: real TanhProjection / SubpixelSmoothedProjection under real JAX on an enumerated grid of beta (incl. 0 and inf), eta (incl. 0 and 1), arrays (random, uniform, ramps through eta, binary, near-uniform, 2x2), dtypes (float64, float32) and voxel sizes: value and jax.grad finite; float64 smoothed output equal to the plain projection in interface-free cells"


# ---------------------------------------------------------------------------------------
# axioms
# ---------------------------------------------------------------------------------------


def _tanh_axioms(args, term, apps):
    a = args[0]
    yield z3.And(term > -1, term < 1)
    yield z3.Implies(a > 0, term > 0)
    yield z3.Implies(a < 0, term < 0)
    yield z3.Implies(a == 0, term == 0)
    # strict monotonicity between this application and every earlier one, and -- tanh being odd --
    # between each of them and the mirror image (-b, -tanh(b)) of the other
    for bargs, s in list(apps.values()):
        if s.get_id() == term.get_id():
            continue
        b = bargs[0]
        for p, tp, q, tq in ((a, term, b, s), (a, term, -b, -s)):
            yield z3.Implies(p < q, tp < tq)
            yield z3.Implies(q < p, tq < tp)
            yield z3.Implies(p == q, tp == tq)


def _sqrt_axioms(args, term, apps):
    a = args[0]
    yield term >= 0
    yield z3.Implies(a > 0, term > 0)
    yield z3.Implies(a >= 0, term * term == a)


def _tanh_sign_axioms(args, term, apps):
    """the subset used by the smoothed-projection tasks (range and sign only)"""
    a = args[0]
    yield z3.And(term > -1, term < 1)
    yield z3.Implies(a > 0, term > 0)
    yield z3.Implies(a < 0, term < 0)
    yield z3.Implies(a == 0, term == 0)


AXIOMS = {"tanh": [_tanh_axioms], "sqrt": [_sqrt_axioms]}
AXIOMS_SMOOTHED = {"tanh": [_tanh_sign_axioms], "sqrt": [_sqrt_axioms]}


class _NamingJnp:
    """the shim jnp with ONE change: the arrays returned by jnp.gradient are *named* -- fresh arrays
    G_k together with the defining fact  G_k[idx] == gradient(f)_k[idx]  instantiated at every index
    at which G_k is read.  Nothing is abstracted away (the definition is always available); the
    solver merely sees a short name instead of a nested if-then-else stencil inside every product."""

    def __init__(self, base):
        self._base = base
        self.named = []

    def __getattr__(self, name):
        return getattr(self._base, name)

    def gradient(self, f, *a, **k):
        res = self._base.gradient(f, *a, **k)
        many = isinstance(res, list)
        out = []
        for n, g in enumerate(res if many else [res]):
            g = A.asarray(g)
            named = A.fresh_array(f"grad{n}", g.shape, fact=lambda v, idx, g=g: v_eq(v, g.at_index(tuple(A._raw_index(i) for i in idx))))
            self.named.append(named)
            out.append(named)
        return out if many else out[0]

# beta_pos: arbitrary finite positive real; beta_nonneg: arbitrary real >= 0 whose being zero is decided
# inside the arrays (the situation of a traced / jnp-scalar beta: both where-branches are live)
BETA_CLASSES = {"beta_pos": None, "beta_nonneg": None, "beta_0": 0.0, "beta_inf": float("inf")}


def _beta(cls, inp):
    if cls == "beta_pos":
        b = sym_real("beta", lo_strict=0)
        inp.scalar("beta", b)
        return b
    if cls == "beta_nonneg":
        b = sym_real("beta", lo=0)
        inp.scalar("beta", b)
        return b
    inp.note("beta", str(BETA_CLASSES[cls]))
    return BETA_CLASSES[cls]


def _generic(shape, tag):
    for _label, idx, hyps in index_cases(shape, tag=tag):
        return idx, list(hyps)
    raise RuntimeError("empty index space")


def _z(b):
    """bool / SymBool -> z3 Bool"""
    from vc.core import zbool

    return zbool(b)


def _prove_guards(c, prefix, n_div_min=1):
    """every divisor recorded while the function's result was evaluated is non-zero; every sqrt
    argument is positive.  The engine records a divisor for every symbolic division it executes,
    in selected and unselected where-operands alike."""
    seen = {}
    for d in ctx().divisors:
        seen.setdefault(d.get_id(), d)
    for k, d in enumerate(seen.values()):
        c.prove(f"{prefix}guard:divisor_nonzero[{k}]", d != 0)
    c.prove(f"{prefix}guard:divisions_seen", len(seen) >= n_div_min)
    for k, (args, _t) in enumerate(ctx().uf_apps.get("sqrt", {}).values()):
        c.prove(f"{prefix}guard:sqrt_argument_positive[{k}]", args[0] > 0)


def _has_uf(term, only=None):
    """does the z3 term contain an application of an uninterpreted function (of `only`, if given)?"""
    seen, stack = set(), [term]
    while stack:
        t = stack.pop()
        if t.get_id() in seen:
            continue
        seen.add(t.get_id())
        if z3.is_app(t):
            if t.decl().kind() == z3.Z3_OP_UNINTERPRETED and t.num_args() > 0 and (only is None or t.decl().eq(only)):
                return True
            stack.extend(t.children())
    return False


def _valid_fresh(hyps, goal, timeout_ms=5000):
    """validity of hyps => goal in a fresh solver (used only to SELECT candidate terms; whatever is
    selected is then proved in context as an obligation of its own)"""
    from vc.core import limited_check

    sv = z3.Solver()
    sv.add(*hyps)
    sv.add(z3.Not(goal))
    return limited_check(sv, timeout_ms) == z3.unsat  # CPU-time budget


def _quick_prove(c, name, goal, extra_hyps=(), timeout_ms=10000):
    """One in-context solver query with a fixed time limit (same assumptions, path condition and
    solver as Ctx.prove, but none of its escalation stages): the lemma chain of the smoothed
    projection consists of steps that are immediate when they hold, so an undecided step is
    recorded as `unknown` right away instead of being retried for minutes.  unsat -> discharged,
    sat -> refuted (model kept for the witness), anything else -> unknown (check undecided)."""
    import time

    from vc.core import Obligation, zbool

    g = goal.z if hasattr(goal, "z") else goal
    if isinstance(g, bool):
        return c.prove(name, g, extra_hyps=extra_hyps)
    t0 = time.time()
    hz = [zbool(h) for h in extra_hyps]
    r, model, _smt2 = c._z3_check(hz, z3.Not(g), timeout_ms)
    status = "discharged" if r == z3.unsat else "refuted" if r == z3.sat else "unknown"
    path = "".join("T" if d else "F" for d in c.decisions)
    c.session.record(Obligation(name, status, "z3(single query)", (time.time() - t0) * 1e3, path, model=model, detail="" if status != "unknown" else "unknown/timeout", tag="abstracted"))
    return status == "discharged"


def _nra_lemma(c, name, nvars, build, inst):
    """Prove  forall reals v1..vn: /\\ hyps(v) => concl(v)  in a FRESH solver (pure nonlinear real
    arithmetic, no context), record the outcome as an obligation and, when valid, assume the instance
    obtained by substituting the given real-valued terms.  A universally valid lemma instantiated
    with arbitrary real terms is valid, so the cut is sound; an undecided lemma is recorded as unknown."""
    import time

    from vc.core import Obligation

    t0 = time.time()
    vs = [z3.Real(f"lem{k}") for k in range(nvars)]
    hy, concl = build(*vs)
    from vc.core import limited_check

    sv = z3.Solver()
    sv.add(*hy)
    sv.add(z3.Not(concl))
    res = limited_check(sv, 20000)  # CPU-time budget
    path = "".join("T" if d else "F" for d in c.decisions)
    status = "discharged" if res == z3.unsat else "unknown"
    c.session.record(Obligation(name, status, "z3(fresh solver, universally quantified lemma)", (time.time() - t0) * 1e3, path, detail="" if res == z3.unsat else f"lemma not proved: {res}", tag="abstracted"))
    if res == z3.unsat:
        sub = [(v, to_z3_real(x.re if isinstance(x, SymNum) else x)) for v, x in zip(vs, inst)]
        ctx().assume(z3.substitute(z3.Implies(z3.And(*hy), concl), *sub))
        return True
    return False


# ---------------------------------------------------------------------------------------
# tanh projection
# ---------------------------------------------------------------------------------------


def _tanh_body(cls, via):
    def body(c, inp):
        import fdtdx.objects.device.parameters.projection as P

        eta = sym_real("eta", lo=0, hi=1)
        inp.scalar("eta", eta)
        beta = _beta(cls, inp)
        inp.note("class", cls)
        shape = tuple(sym_int(n, lo=1) for n in ("Nx", "Ny", "Nz"))
        for n, v in zip(("Nx", "Ny", "Nz"), shape):
            inp.scalar(n, v)
        x = inp.array("x", A.fresh_array("x", shape))
        c.cover("pre")
        if via == "class":
            out = P.TanhProjection(projection_midpoint=eta)({"p": x}, beta=beta)["p"]
        else:
            out = P.tanh_projection(x, beta, eta)
        out = A.asarray(out)
        if not prove_same_shape("tanh/post:shape_preserved", out, x):
            return
        c.prove("tanh/post:shape_preserved", True)
        i, hi = _generic(shape, "i")
        j, hj = _generic(shape, "j")
        xi, xj = x.at_index(i), x.at_index(j)
        oi, oj = out.at_index(i), out.at_index(j)
        inside = [_z(eta > 0), _z(eta < 1)]
        c.prove("tanh/post:maps_[0,1]_into_[0,1]", A._vand(oi >= 0, oi <= 1), extra_hyps=hi + [_z(xi >= 0), _z(xi <= 1)])
        c.prove("tanh/post:non_decreasing", oi <= oj, extra_hyps=hi + hj + [_z(xi <= xj)])
        c.prove("tanh/post:fixes_0", v_eq(oi, 0), extra_hyps=hi + inside + [_z(v_eq(xi, 0))])
        c.prove("tanh/post:fixes_1", v_eq(oi, 1), extra_hyps=hi + inside + [_z(v_eq(xi, 1))])
        if cls == "beta_0":
            c.prove("tanh/post:beta_0_is_clipping", v_eq(oi, sym_min(sym_max(xi, 0), 1)), extra_hyps=hi)
        if cls == "beta_nonneg":
            c.prove("tanh/post:beta_0_is_clipping", v_eq(oi, sym_min(sym_max(xi, 0), 1)), extra_hyps=hi + [_z(v_eq(beta, 0))])
        if cls == "beta_inf":
            c.prove("tanh/post:beta_inf_is_1_above_threshold", v_eq(oi, 1), extra_hyps=hi + [_z(xi > eta)])
            c.prove("tanh/post:beta_inf_is_0_below_threshold", v_eq(oi, 0), extra_hyps=hi + [_z(xi < eta)])
        _prove_guards(c, "tanh/")

    return body


# ---------------------------------------------------------------------------------------
# subpixel-smoothed projection
# ---------------------------------------------------------------------------------------


def _fd(rho, idx, ax, n):
    """spec: finite-difference gradient component along in-plane axis `ax` at the generic index
    (central in the interior, one-sided at the two ends)"""
    from vc.core import ite

    def rd(k):
        t = list(idx)
        t[ax] = A._raw_index(k)
        return rho.at_index(tuple(t))

    iw = A._wrap_idx(idx[ax])
    return ite(v_eq(iw, 0), rd(iw + 1) - rd(iw), ite(v_eq(iw, n - 1), rd(iw) - rd(iw - 1), (rd(iw + 1) - rd(iw - 1)) * Fraction(1, 2)))


def _smoothed_body(cls, vertical):
    def body(c, inp):
        import fdtdx.objects.device.parameters.projection as P

        eta = sym_real("eta", lo=0, hi=1)
        inp.scalar("eta", eta)
        beta = _beta(cls, inp)
        inp.note("class", cls)
        inp.note("vertical_axis", vertical)
        # in-plane voxel size s micrometres (the code divides by 1e-6), any positive real
        s_um = sym_real("voxel_size_um", lo_strict=0)
        inp.scalar("voxel_size_um", s_um)
        vs = s_um * Fraction(1e-6)
        vz = sym_real("voxel_size_vertical", lo_strict=0)
        n1, n2 = sym_int("n1", lo=2), sym_int("n2", lo=2)
        inp.scalar("n1", n1)
        inp.scalar("n2", n2)
        shape, sizes, plane = [], [], []
        it = iter((n1, n2))
        for ax in range(3):
            if ax == vertical:
                shape.append(1)
                sizes.append(vz)
            else:
                shape.append(next(it))
                sizes.append(vs)
                plane.append(ax)
        shape = tuple(shape)
        rho = inp.array("rho", A.fresh_array("rho", shape))
        tr = P.SubpixelSmoothedProjection(projection_midpoint=eta).aset("_single_voxel_size", tuple(sizes), create_new_ok=True)
        c.cover("pre")
        shim_jnp = P.jnp
        naming = _NamingJnp(shim_jnp)
        P.jnp = naming
        try:
            out = A.asarray(tr({"p": rho}, beta=beta)["p"])
        finally:
            P.jnp = shim_jnp
        plain = A.asarray(P.tanh_projection(rho, beta, eta))
        if not prove_same_shape("smoothed/post:shape_preserved", out, rho):
            return
        c.prove("smoothed/post:shape_preserved", True)
        idx, hyps = _generic(shape, "i")
        r = rho.at_index(idx)
        out.at_index(idx)  # evaluates the code's result (and reads the named gradients) at idx
        c.prove("smoothed/call:jnp.gradient_called_once_on_a_2d_array", len(naming.named) == 2)
        if len(naming.named) != 2:
            return
        idx2 = tuple(i for k, i in enumerate(idx) if k != vertical)
        g1 = naming.named[0].at_index(idx2)
        g2 = naming.named[1].at_index(idx2)
        # the names ARE the finite differences of the property statement (spec-side stencil)
        c.prove("smoothed/lemma:named_gradient_is_the_finite_difference", A._vand(v_eq(g1, _fd(rho, idx, plane[0], n1)), v_eq(g2, _fd(rho, idx, plane[1], n2))), extra_hyps=hyps)
        gg = g1 * g1 + g2 * g2
        rad = Fraction(0.55)  # R_smoothing = 0.55 * dx (the literal of the documentation)
        no_interface = A._vor(v_eq(gg, 0), (eta - r) * (eta - r) >= rad * rad * gg)
        o, p = out.at_index(idx), plain.at_index(idx)
        E = eta - r
        goal = v_eq(o, p)

        def cut(name, g, hy=()):
            """prove g under hy (+ index range); if discharged, make it available as a lemma"""
            hz = list(hyps) + [_z(h) for h in hy]
            if _quick_prove(c, name, g, extra_hyps=hz):
                ctx().assume(z3.Implies(z3.And(*hz) if hz else z3.BoolVal(True), _z(g)))
                return True
            return False

        # case 1: the finite-difference gradient vanishes
        cut("smoothed/lemma:gg==0=>g1==0,g2==0", A._vand(v_eq(g1, 0), v_eq(g2, 0)), [v_eq(gg, 0)])
        cut("smoothed/post:equals_plain[gradient_zero]", goal, [v_eq(gg, 0)])
        cut("smoothed/lemma:gg>=0", gg >= 0)
        # case 2: gradient non-zero, level set at least 0.55 dx away.  The chain below only NAMES
        # terms the code evaluated (its divisors, its sqrt application) and proves facts about them;
        # pure real-arithmetic steps are proved as universally quantified lemmas in a fresh solver
        # and instantiated.  If a term cannot be identified the final obligation is attempted
        # directly (and may come out undecided, never refuted by this route).
        far = [gg > 0, E * E >= rad * rad * gg]
        divs = []
        for d in ctx().divisors:
            if all(d.get_id() != e.get_id() for e in divs):
                divs.append(d)
        sqrt_apps = list(ctx().uf_apps.get("sqrt", {}).values())
        # candidates are pre-filtered structurally so that every solver query asked here is a small one
        plain_divs = [d for d in divs if not _has_uf(d)]
        s_z = to_z3_real(s_um.re)
        dx_t = next((SymNum(d) for d in plain_divs if _valid_fresh([s_z > 0], d == s_z)), None)
        R_t = next((SymNum(d) for d in plain_divs if _valid_fresh([s_z > 0], d == to_z3_real((rad * s_um).re))), None)
        if dx_t is not None and R_t is not None and len(sqrt_apps) == 1:
            sa, sq = SymNum(sqrt_apps[0][0][0]), SymNum(sqrt_apps[0][1])
            cz = z3.RealVal(str(rad))
            # every in-context step below is made linear/propositional for the solver: the non-linear
            # facts are proved once (small queries) and then available as named equalities
            cut("smoothed/lemma:dx==voxel_size_in_um", v_eq(dx_t, s_um))
            cut("smoothed/lemma:R_smoothing==0.55*dx", v_eq(R_t, rad * s_um))
            # h: the squared gradient norm as the code forms it, (g1/dx)^2 + (g2/dy)^2, from the code's own dx term
            q1, q2 = g1 / dx_t, g2 / dx_t
            h = q1 * q1 + q2 * q2
            _nra_lemma(
                c,
                "smoothed/lemma(generic):(x/d)^2+(y/d)^2_scaled_by_d^2",
                4,
                lambda x, y, d, s: ([s > 0, d == s], z3.And(((x / d) * (x / d) + (y / d) * (y / d)) * s * s == x * x + y * y, z3.Implies(x * x + y * y > 0, (x / d) * (x / d) + (y / d) * (y / d) > 0))),
                [g1, g2, dx_t, s_um],
            )
            cut("smoothed/lemma:sqrt_argument_is_squared_gradient_norm", v_eq(sa, h), [gg > 0])
            cut("smoothed/lemma:sqrt^2==argument,sqrt>0", A._vand(v_eq(sq * sq, sa), sq > 0), [gg > 0])
            with_sqrt = [d for d in divs if _has_uf(d, only=sq.re.decl())]
            ne_t = SymNum(with_sqrt[0]) if len(with_sqrt) == 1 else None
            _nra_lemma(c, "smoothed/lemma(generic):(q*s)^2==g", 5, lambda q, a, hh, s, g: ([q * q == a, a == hh, hh * s * s == g], (q * s) * (q * s) == g), [sq, sa, h, s_um, gg])
            _nra_lemma(c, "smoothed/lemma(generic):|E|>=c*s*q", 4, lambda q, s, g, e: ([q > 0, s > 0, (q * s) * (q * s) == g, e * e >= cz * cz * g], z3.Or(e >= cz * s * q, -e >= cz * s * q)), [sq, s_um, gg, E])
            if ne_t is not None:
                cut("smoothed/lemma:gradient_norm_divisor==sqrt", v_eq(ne_t, sq), [gg > 0])
                U = E / ne_t
                _nra_lemma(
                    c,
                    "smoothed/lemma(generic):|E/n|>=r",
                    6,
                    lambda q, s, e, n, u, r_: ([q > 0, s > 0, n == q, u == e / n, r_ == cz * s, z3.Or(e >= cz * s * q, -e >= cz * s * q)], z3.Or(u >= r_, -u >= r_)),
                    [sq, s_um, E, ne_t, U, R_t],
                )
                cut("smoothed/lemma:distance_to_level_set>=R_smoothing", abs(U) >= R_t, far)
        cut("smoothed/post:equals_plain[level_set_outside_smoothing_radius]", goal, far)
        _quick_prove(c, "smoothed/post:equals_plain_projection_where_no_interface", goal, extra_hyps=hyps + [_z(no_interface)])
        _prove_guards(c, "smoothed/", n_div_min=3)

    return body


# ---------------------------------------------------------------------------------------
# bounded stand-in: finite values and gradients under real JAX
# ---------------------------------------------------------------------------------------


def _bounded_arrays(rng, eta, dtype):
    import numpy as np

    n1, n2 = 6, 5
    ramp = np.linspace(0.0, 1.0, n1)[:, None] * np.ones((1, n2))
    out = {
        "random": rng.uniform(0, 1, size=(n1, n2)),
        "uniform_at_eta": np.full((n1, n2), eta),
        "uniform_0": np.zeros((n1, n2)),
        "ramp_through_eta": ramp,
        "binary_step": (ramp > 0.5).astype(float),
        "tiny_gradient": eta + 1e-9 * rng.normal(size=(n1, n2)),
        "2x2": rng.uniform(0, 1, size=(2, 2)),
    }
    return {k: v.astype(dtype) for k, v in out.items()}


def _agreement_deviation(val2d, rho2d, beta, eta):
    """max |smoothed - plain| over the cells that have no interface by a clear margin (the margin
    keeps floating-point ties at the radius out of the comparison)"""
    import numpy as np

    plain, _ = _real_case("tanh", beta, eta, rho2d, None)
    gx, gy = np.gradient(rho2d)
    gg = gx * gx + gy * gy
    no_if = (gg == 0) | ((eta - rho2d) ** 2 >= 0.55**2 * gg * (1 + 1e-6))
    if not no_if.any():
        return 0.0, 0
    return float(np.max(np.abs(val2d - plain)[no_if])), int(no_if.sum())


def _bounded_grid(tier):
    betas = [0.0, 1e-3, 1.0, 8.0, 64.0, 1e4, float("inf")]
    etas = [0.0, 0.3, 0.5, 1.0]
    dtypes = ["float64", "float32"]
    voxels = [2e-8, 1e-6] if tier == "quick" else [2e-8, 1e-6, 5e-6, 3.7e-7]
    return betas, etas, dtypes, voxels


def _bounded_body(tier, which):
    def body(c, inp):
        import jax
        import jax.numpy as jnp
        import numpy as np

        from fdtdx.objects.device.parameters.projection import SubpixelSmoothedProjection, TanhProjection

        betas, etas, dtypes, voxels = _bounded_grid(tier)
        for beta, eta, dt in itertools.product(betas, etas, dtypes):
            rng = np.random.default_rng(17)
            for name, arr in _bounded_arrays(rng, eta, dt).items():
                w = jnp.asarray(rng.normal(size=arr.shape).astype(dt))
                x3 = jnp.asarray(arr)[:, None, :]
                if which == "tanh":
                    tr = TanhProjection(projection_midpoint=eta)
                    fns = {"-": lambda a, tr=tr: tr({"p": a}, beta=beta)["p"]}
                else:
                    fns = {}
                    for v in voxels:
                        tr = SubpixelSmoothedProjection(projection_midpoint=eta).aset("_single_voxel_size", (v, 7e-8, v), create_new_ok=True)
                        fns[v] = lambda a, tr=tr: tr({"p": a}, beta=beta)["p"]
                for vname, f in fns.items():
                    case = {"fn": which, "beta": str(beta), "eta": eta, "dtype": dt, "array": name, "voxel": str(vname)}
                    try:
                        val = f(x3)
                        g = jax.grad(lambda a: jnp.sum(f(a)[:, 0, :] * w))(x3)
                        ok = bool(np.all(np.isfinite(np.asarray(val)))) and bool(np.all(np.isfinite(np.asarray(g)))) and val.shape == x3.shape
                        detail = ""
                    except Exception as e:  # noqa: BLE001
                        ok, detail = False, f"{type(e).__name__}: {str(e)[:160]}"
                    c.bounded(f"bounded/{which}:value_and_gradient_finite", ok, case=case, witness={"notes": {"case": case, "detail": detail}})
                    if which == "smoothed" and dt == "float64" and not detail:
                        dev, n_cells = _agreement_deviation(np.asarray(val)[:, 0, :], np.asarray(arr, dtype=np.float64), beta, eta)
                        c.bounded("bounded/smoothed:equals_plain_projection_where_no_interface", dev <= 1e-9, case=case, witness={"notes": {"case": case, "detail": f"max deviation {dev} over {n_cells} interface-free cells"}})

    return body


# ---------------------------------------------------------------------------------------
# task table
# ---------------------------------------------------------------------------------------


def tasks(tier, seed):
    out = {}
    for cls in BETA_CLASSES:
        out[f"tanh/{cls}/via_class"] = Task(_tanh_body(cls, "class"))
        if cls == "beta_nonneg":
            continue
        for vertical in (0, 1, 2):
            out[f"smoothed/{cls}/vertical{vertical}"] = Task(_smoothed_body(cls, vertical), axioms=AXIOMS_SMOOTHED)
    out["tanh/beta_pos/via_function"] = Task(_tanh_body("beta_pos", "function"))
    out["bounded/tanh"] = Task(_bounded_body(tier, "tanh"), modules=[])
    out["bounded/smoothed"] = Task(_bounded_body(tier, "smoothed"), modules=[])
    return out


# ---------------------------------------------------------------------------------------
# replay
# ---------------------------------------------------------------------------------------


def _real_case(which, beta, eta, arr, voxel):
    import jax
    import jax.numpy as jnp
    import numpy as np

    from fdtdx.objects.device.parameters.projection import SubpixelSmoothedProjection, TanhProjection

    if which == "tanh":
        tr = TanhProjection(projection_midpoint=eta)
    else:
        tr = SubpixelSmoothedProjection(projection_midpoint=eta).aset("_single_voxel_size", (voxel, 7e-8, voxel), create_new_ok=True)
    f = lambda a: tr({"p": a}, beta=beta)["p"]  # noqa: E731
    x3 = jnp.asarray(arr)[:, None, :]
    val = f(x3)
    g = jax.grad(lambda a: jnp.sum(f(a)))(x3)
    return np.asarray(val)[:, 0, :], np.asarray(g)[:, 0, :]


def replay(key, obligation, witness):
    import numpy as np

    from vc.harness import witness_arrays_to_numpy

    w = witness or {}
    notes = w.get("notes") or {}
    if key.startswith("bounded/"):
        case = notes.get("case")
        if not case:
            return False, "no case recorded"
        rng = np.random.default_rng(17)
        arrs = _bounded_arrays(rng, case["eta"], case["dtype"])
        arr = arrs[case["array"]]
        voxel = float(case["voxel"]) if case["voxel"] != "-" else None
        try:
            val, g = _real_case(case["fn"], float(case["beta"]), case["eta"], arr, voxel)
        except Exception as e:  # noqa: BLE001
            return True, f"{case}: raised {type(e).__name__}: {e}"
        if "equals_plain" in obligation:
            dev, n_cells = _agreement_deviation(val, np.asarray(arr, dtype=np.float64), float(case["beta"]), case["eta"])
            return dev > 1e-9, f"{case}: real smoothed vs plain projection, max deviation {dev} over {n_cells} interface-free cells"
        bad = (~np.isfinite(val)).sum(), (~np.isfinite(g)).sum()
        return (bad[0] + bad[1]) > 0, f"{case}: non-finite values {bad[0]}, non-finite gradient entries {bad[1]}"
    sc = w.get("scalars", {})
    cls = notes.get("class", "beta_pos")
    try:
        eta = float(sc["eta"])
        beta = float(sc["beta"]) if cls in ("beta_pos", "beta_nonneg") else BETA_CLASSES[cls]
    except Exception as e:  # noqa: BLE001
        return False, f"witness incomplete: {e}"
    wa = witness_arrays_to_numpy(w)
    if key.startswith("tanh/"):
        x = wa.get("x")
        if x is None or x.size == 0 or x.size > 4096:
            x = np.linspace(-0.5, 1.5, 9).reshape(1, 1, 9)
        xs = np.unique(np.concatenate([x.ravel(), [0.0, 1.0, eta]]))
        val, g = _real_case("tanh", beta, eta, xs[None, :], None)
        val, g = val[0], g[0]
        probs = []
        inside = (xs >= 0) & (xs <= 1)
        if np.any(~np.isfinite(val)) or np.any(~np.isfinite(g)):
            probs.append("non-finite value/gradient")
        if np.any((val[inside] < -1e-12) | (val[inside] > 1 + 1e-12)):
            probs.append("leaves [0,1]")
        if np.any(np.diff(val) < -1e-12):
            probs.append("decreasing")
        if 0 < eta < 1 and (abs(val[xs == 0.0][0]) > 1e-12 or abs(val[xs == 1.0][0] - 1) > 1e-12):
            probs.append("does not fix 0/1")
        if beta == 0 and np.max(np.abs(val - np.clip(xs, 0, 1))) > 1e-12:
            probs.append("beta=0 is not clipping")
        if cls == "beta_inf" and np.any(np.abs(val[xs != eta] - (xs[xs != eta] > eta)) > 1e-12):
            probs.append("beta=inf is not the step")
        return bool(probs), f"real TanhProjection beta={beta} eta={eta} on x={xs.tolist()}: out={val.tolist()}; problems: {probs or 'none'}"
    if key.startswith("smoothed/"):
        rho = wa.get("rho")
        vertical = int(notes.get("vertical_axis", 1))
        if rho is None or rho.size == 0 or rho.size > 4096:
            return False, "no usable array in the witness"
        rho2 = np.squeeze(rho, axis=vertical)
        voxel = float(sc.get("voxel_size_um", 1.0)) * 1e-6
        val, g = _real_case("smoothed", beta, eta, rho2, voxel)
        plain, _ = _real_case("tanh", beta, eta, rho2, None)
        gx, gy = np.gradient(rho2)
        gg = gx * gx + gy * gy
        no_if = (gg == 0) | ((eta - rho2) ** 2 >= 0.55**2 * gg * (1 + 1e-9))
        dev = float(np.max(np.abs(val - plain)[no_if])) if no_if.any() else 0.0
        nonfinite = int((~np.isfinite(val)).sum() + (~np.isfinite(g)).sum())
        return (dev > 1e-9 or nonfinite > 0), f"real SubpixelSmoothedProjection beta={beta} eta={eta} voxel={voxel} on rho{rho2.shape}: max deviation from the plain projection over {int(no_if.sum())} interface-free cells = {dev}; non-finite value/gradient entries = {nonfinite}"
    return False, "no replay for this task"
