"""C04  Time-reversal gradients equal exact autodiff gradients.

LEVEL "other": the STRUCTURE of the reversible gradient computation is proved deductively on the real
code; the semantics of the AD primitives (jax.vjp, jax.custom_vjp) and the chain rule are ASSUMED.

The REAL reversible_fdtd is executed with recording stubs for jax.custom_vjp (fwd/bwd captured through
defvjp and then called by the check), jax.vjp, eqxi.while_loop (while rule, spec/C05_timeloop.py), forward
and backward.  Its closures fdtd_fwd, fdtd_bwd, body_fn, reverse_body, cond_fun, segmented_forward run for
real on symbolic data (symbolic total step count T and grid shape; the slice count k is enumerated).

Obligations (names as emitted)
 (a) fwd/...        fdtd_fwd's primal output is the 9 components of forward^T(reset container) -- the same
                    loops as the primal of run_fdtd (C05) -- and residual == (primal_out, checkpoints) with
                    checkpoints[i] = fields of the state after segment i, i.e. at step s_{i+1}, i < k-1.
 (b) reverse_loop/  init carry ((T, state_T), cot);  guard <=> time_step >= 1  (the body runs exactly for the
                    incoming counters T..1, so the per-step pullbacks are taken at the states T-1..0 and at no
                    other);  number_of_pullbacks == T  by the while rule.
 (c) body_fn/       backward(incoming state, run's config/objects/key, record_detectors=False,
                    reset_fields=False); jax.vjp of partial(forward_single_args_wrapper, run's config/objects/
                    key, record_detectors=True, record_boundaries=False, simulate_boundaries=True, the run's
                    conductivities) at exactly the 9 components of the state backward returned; new cot = that
                    pullback applied to the incoming cot; returns (backward's state, new cot).  The flags equal
                    the primal step's flags except record_boundaries (primal: config.invertible_optimization,
                    True here; forward's fields/detectors do not depend on it: C05 forward/contract).
 (d) wrapper/       forward_single_args_wrapper(9 args, flags) == the 9 components, in the same order, of
                    forward((t, ArrayContainer(args + conductivities)), flags).
 (e) reverse_body/  incoming time_step == s_i (interior boundary)  ==>  the fields handed to body_fn are
                    checkpoints[i-1]; otherwise the incoming fields; the cotangent is untouched.
     lossy/         with a checkpoint at every step (k == T): for every incoming counter 1..T the fields handed
                    to backward are EXACT primal fields (final state or a checkpoint).  Each pullback is then
                    taken at backward(exact state_{t+1}): one reverse step, never a multi-step reconstruction.
                    The property's lossy clause follows with C02's one-step inverse for lossy tiers (1-s != 0).
 (f) bwd/           fdtd_bwd returns (None, None, None, None, cot[5], cot[6], None, None).
 (g) ASSUMED: chain rule L12 (pullback of a composition = reversed composition of the pullbacks at the primal
     intermediate states); backward(state_{t+1}) == state_t outside the layers (C02 / C03, cited).

Expected on the tree with `cond_fun: time_step >= start_time_step` (start 0): (b) is REFUTED -- the loop runs
an extra iteration for the incoming state at time 0 (backward to t = -1, pullback of the forward step at
t = -1).  replay() reproduces the gradient mismatch on the real code under real JAX.
"""

from __future__ import annotations

import types

import z3

from props import C05 as P5
from spec import C05_timeloop as TL
from vc import array as A
from vc import scene
from vc.array import SymArray
from vc.core import PathAbort, Undecided, ctx, v_eq, zbool
from vc.harness import Task
from vc.obl import prove_pointwise, sym_int

_ENGINE_EXC = (TL.Unsupported, PathAbort, Undecided)

ID = "C04"
LEVEL = "other"
TECHNIQUE = "structural obligations proved on the real reversible_fdtd closures (recording stubs for jax.vjp/custom_vjp, while rule for the forward segments and the reverse loop, symbolic T); AD semantics and the chain rule assumed; gradient mismatch reproduced on real JAX by replay"
MODULES = P5.MODULES + ["fdtdx.fdtd.backward"]
FILES = ["src/fdtdx/fdtd/fdtd.py", "src/fdtdx/fdtd/forward.py", "src/fdtdx/fdtd/backward.py", "src/fdtdx/fdtd/wrapper.py", "src/fdtdx/fdtd/update.py"]
FUNCTIONS = [
    "fdtdx.fdtd.update.update_E/update_H/update_E_reverse/update_H_reverse with sources (tasks reconstruction(C02)/*: C02's source lemmas re-proved under this property)",
    "fdtdx.fdtd.fdtd.reversible_fdtd (fdtd_fwd, fdtd_bwd, body_fn, reverse_body, cond_fun, segmented_forward, reversible_fdtd_primal)",
    "fdtdx.fdtd.forward.forward_single_args_wrapper",
    "fdtdx.fdtd.backward.backward (step counter, flag semantics)",
    "fdtdx.fdtd.wrapper.run_fdtd (dispatch to reversible_fdtd)",
]
INLINED = P5.INLINED + ["fdtdx.fdtd.fdtd._reversible_slice_boundaries (contract proved under C05)"]
STUBS = P5.STUBS + [
    "jax.vjp(f, *primals): returns (f(*primals), pullback); the pullback is an uninterpreted linear map of the cotangent (recorded, never evaluated)",
    "jax.custom_vjp/defvjp: the gradient of the decorated function is bwd(residual, cot) with (out, residual) = fwd(args)",
    "backward inside body_fn: contract stub (counter - 1, arbitrary reconstructed fields); its counter/flag behaviour is proved on the real backward in task step_contracts",
    "equinox.internal.while_loop for the reverse loop: result = body^n(init), n = first j with not cond(body^j(init))",
]
ASSUMPTIONS = [
    "AD primitives: jax.vjp returns the exact pullback of its function at the given primals; jax.custom_vjp uses fwd/bwd as registered",
    "chain rule L12: the pullback of forward^T is the reversed composition of the per-step pullbacks taken at the primal intermediate states T-1..0; hence equality with checkpointed autodiff needs exactly the pullbacks at those states and no other (obligation (b)) and the reconstructed states to equal the primal ones",
    "reconstruction: backward(state_{t+1}) == state_t at every cell outside the absorbing layers for lossless media, lossless recording and default grading (C02, C03: cited, not re-proved); for lossy media one reverse step is exact when 1 - s != 0 (C02)",
    "slice count k enumerated (quick 1,2,3,5; thorough 1..8); checkpoint-at-every-step clause on T = k in {2,3,4} (thorough: 2..6); everything else symbolic",
    "the pullback of the step at a state whose cotangent contribution is zero adds nothing: NOT assumed -- the extra iteration at t = -1 is judged by obligation (b) and by replay",
]
MIN_OBLIGATIONS = {"quick": 250, "thorough": 500}
LEVEL_TEXT = (
    "Structural proof (all total step counts T, shapes, states; slice count enumerated) that the real reversible_fdtd computes its gradient as the reversed composition of "
    "the pullbacks of the real forward step, taken at the states produced by backward from the exact final state / checkpoints, with the run's own config, objects, key, flags "
    "and conductivities, for exactly the step counters the chain rule requires, and returns the material cotangents; equality with autodiff is conditional on the assumed AD "
    "semantics, the chain rule and the reconstruction contracts of C02/C03"
)
LEVEL_NOTE = "not an unconditional proof: jax.vjp/custom_vjp and the chain rule are assumed, reconstruction exactness is C02/C03's contract; numerical amplification of the one-step inverse in lossy media is outside exact-arithmetic reasoning"
EXPLANATION = "with cond_fun `time_step >= 0` the reverse loop performs T+1 pullbacks (one at the state t=-1): obligations reverse_loop/guard<=>time_step>=1 and reverse_loop/number_of_pullbacks==T are refuted; replay shows the gradient difference on real JAX"


# ---------------------------------------------------------------------------------------
# harness: forward-loop rule of C05 + reverse-loop rule + AD stubs
# ---------------------------------------------------------------------------------------


class Cot:
    """one component of a cotangent tuple (uninterpreted)"""

    def __init__(self, tag, i):
        self.tag, self.i = tag, i


def cot_tuple(tag):
    return tuple(Cot(tag, i) for i in range(9))


class _Tag:
    def __init__(self, kind, **kw):
        self.kind = kind
        self.origin = None
        self.__dict__.update(kw)


class GradHarness(TL.LoopHarness):
    def __init__(self):
        super().__init__()
        self.custom_vjps = []
        self.vjps = []
        self.backward_calls = []
        self.slice_calls = []
        self.rev = None

    def __enter__(self):
        super().__enter__()
        F = self._F
        H = self
        base_jax = self._saved_jax = [old for nm, had, old in self._saved if nm == "jax"][0]

        class CustomVJP(TL.CustomVJP):
            def __init__(self, fun):
                super().__init__(fun)
                self.primal_calls = []
                H.custom_vjps.append(self)

            def __call__(self, *a, **k):
                out = self.fun(*a, **k)
                self.primal_calls.append((a, k, out))
                return out

        class JaxGrad(types.ModuleType):
            def __getattr__(self, name):
                return getattr(base_jax, name)

        jg = JaxGrad("symjax+ad_stubs")
        jg.__dict__["custom_vjp"] = CustomVJP
        jg.__dict__["vjp"] = self.vjp
        real_slices = F.__dict__["_reversible_slice_boundaries"]

        def recording_slices(time_steps_total, num_slices):
            # the REAL function; its result is recorded so that the check speaks about the very boundaries the
            # run uses (round() of a tie is not determined, a second evaluation need not agree with the first)
            res = real_slices(time_steps_total, num_slices)
            H.slice_calls.append((time_steps_total, num_slices, res))
            return res

        extra = {"jax": jg, "backward": self.backward, "_reversible_slice_boundaries": recording_slices}
        for nm, val in extra.items():
            if nm != "jax":
                self._saved.append((nm, nm in F.__dict__, F.__dict__.get(nm)))
            F.__dict__[nm] = val
        self.real_wrapper = F.__dict__["forward_single_args_wrapper"]
        return self

    # -- AD stubs --------------------------------------------------------------------------
    def vjp(self, fun, *primals, **kw):
        rec = {"fun": fun, "primals": primals, "kw": kw, "pullbacks": []}
        self.vjps.append(rec)
        out = tuple(TL.Token(("vjp_primal_out", len(self.vjps), i)) for i in range(9))

        def pullback(cot):
            new = cot_tuple(("pullback", rec))
            rec["pullbacks"].append((cot, new))
            return new

        return out, pullback

    def backward(self, state, config=None, objects=None, key=None, record_detectors=True, reset_fields=True, **kw):
        t, arrays = state
        tag = _Tag("backward", n=len(self.backward_calls))
        res = (t - 1, TL.havoc_container(arrays, tag, f"backward{len(self.backward_calls)}"))
        self.backward_calls.append({"state": state, "config": config, "objects": objects, "key": key, "record_detectors": record_detectors, "reset_fields": reset_fields, "extra": kw, "result": res})
        return res

    # -- loops -----------------------------------------------------------------------------
    def while_loop(self, cond_fun=None, body_fun=None, init_val=None, **kw):
        if isinstance(init_val, tuple) and len(init_val) == 2 and isinstance(init_val[0], tuple):
            return self.reverse_loop(cond_fun, body_fun, init_val, **kw)
        return super().while_loop(cond_fun, body_fun, init_val, **kw)

    def reverse_loop(self, cond_fun, body_fun, init_val, max_steps=None, buffers=None, kind=None, checkpoints=None, base=16):
        c = ctx()
        rec = {"cond_fun": cond_fun, "body_fun": body_fun, "init_val": init_val, "max_steps": max_steps, "kind": kind}
        ok = c.prove("reverse_loop/pre:one_unbounded_lax_loop", self.rev is None and kind == "lax" and max_steps is None and buffers is None)
        self.rev = rec
        (t_init, arrs), cot0 = init_val
        t0 = TL.scalar(t_init)
        rec["t0"], rec["arrays0"], rec["cot0"] = t0, arrs, cot0

        def carry(t, label):
            return ((A.asarray(t), TL.havoc_container(arrs, _Tag("reverse_carry", label=label), f"rev.{label}")), cot_tuple(("carry", label)))

        # guard on a generic carry (any integer step counter)
        tg = sym_int("rev.time_step")
        rec["guard_t"] = tg
        rec["guard"] = TL.as_cond(cond_fun(carry(tg, "guard")))
        # body on a generic carry
        tp = sym_int("rev.tp")
        probe = carry(tp, "probe")
        nb, nv = len(self.backward_calls), len(self.vjps)
        out = body_fun(probe)
        rec["probe"] = {"tp": tp, "carry": probe, "out": out, "backward_calls": self.backward_calls[nb:], "vjps": self.vjps[nv:]}
        # while rule; the counter after j iterations is t0 - j (obligation body:step_counter-1)
        n = sym_int("rev.n", lo=0)
        rec["n"] = n
        g_last = TL.as_cond(cond_fun(carry(t0 - (n - 1), "last")))
        c.assume(z3.Implies(zbool(n > 0), zbool(g_last)))
        jg = sym_int("rev.j", lo=0)
        g_j = TL.as_cond(cond_fun(carry(t0 - jg, "any")))
        c.assume(z3.Implies(zbool(jg < n), zbool(g_j)))
        end = carry(t0 - n, "end")
        c.assume(z3.Not(zbool(TL.as_cond(cond_fun(end)))))
        rec["end"] = end
        return end


# ---------------------------------------------------------------------------------------
# helpers
# ---------------------------------------------------------------------------------------

FIELD_LEAVES = ("E", "H", "psi_E", "psi_H")


def _components(t, arrs):
    """the 9 components in the order used by reversible_fdtd_primal / forward_single_args_wrapper"""
    return (t, arrs.fields.E, arrs.fields.H, arrs.fields.psi_E, arrs.fields.psi_H, arrs.inv_permittivities, arrs.inv_permeabilities, arrs.detector_states, arrs.recording_state)


def _same_components(xs, ys):
    if not (isinstance(xs, tuple) and isinstance(ys, tuple) and len(xs) == len(ys) == 9):
        return False
    t_ok = TL.same(TL.scalar(xs[0]), TL.scalar(ys[0])) or TL.same_num(TL.scalar(xs[0]), TL.scalar(ys[0]))
    return t_ok and all(TL.same(x, y) for x, y in zip(xs[1:], ys[1:]))


def _fields_iter(fields):
    """ghost Iter shared by all array leaves of a FieldState (None otherwise)"""
    g = None
    n = 0
    for nm in TL.DYNAMIC_FIELDS:
        for path, leaf in TL._tree_leaves_with_path(getattr(fields, nm, None), f"fields.{nm}"):
            if leaf is None:
                continue
            tag = getattr(leaf, "_ghost", None)
            if tag is None or tag[1] != path or (g is not None and tag[0] is not g):
                return None
            g = tag[0]
            n += 1
    return g if n and isinstance(g, TL.Iter) else None


def _prove_fields_select(name, passed, spec_fields, hyp):
    """under hypothesis `hyp`: every array leaf of `passed` equals the corresponding leaf of `spec_fields` pointwise"""
    ok = True
    for nm in FIELD_LEAVES:
        lp = list(TL._tree_leaves_with_path(getattr(passed, nm), nm))
        ls = list(TL._tree_leaves_with_path(getattr(spec_fields, nm), nm))
        if [p for p, _ in lp] != [p for p, _ in ls]:
            ok &= ctx().prove(f"{name}:{nm}:structure", False)
            continue
        for (p, x), (_, y) in zip(lp, ls):
            if TL.same(x, y):
                ok &= ctx().prove(f"{name}:{p}", True)
                continue
            if not (isinstance(x, SymArray) and isinstance(y, SymArray)):
                ok &= ctx().prove(f"{name}:{p}", False)
                continue
            ok &= prove_pointwise(f"{name}:{p}", x, lambda v, idx, y=y: v_eq(v, y.at_index(tuple(A._raw_index(i) for i in idx))), where=lambda idx: hyp)
    return ok


# ---------------------------------------------------------------------------------------
# main task: the real reversible_fdtd, its fwd and bwd rules
# ---------------------------------------------------------------------------------------


def _reversible(k, T_concrete=None):
    def body(c, inp):
        import fdtdx.fdtd.fdtd as F
        from fdtdx.config import GradientConfig

        T = sym_int("T", lo=0) if T_concrete is None else T_concrete
        inp.scalar("T", T)
        inp.note("k", k)
        shape, A0 = P5.make_scene(inp, T=T)
        key = P5._key()
        cfg = P5.make_cfg(GradientConfig(method="reversible", recorder=P5._Recorder(), num_checkpoints_reversible=k - 1))
        objs = scene.make_objects(shape, cfg)
        c.cover("pre")
        with P5.sym_total_steps(T), GradHarness() as L:
            try:
                res, calls = P5._run(L, A0, objs, cfg, key)
            except _ENGINE_EXC:
                raise
            except Exception:  # noqa: BLE001
                c.prove("primal/raises_only_when_documented(num_slices>T)", k - 1 > 0 and (k > T))
                return
            if k > 1:
                c.assume(zbool(T >= k))  # established by the guard (C05: reversible/no_raise=>1<=k<=T)
            ok = c.prove("primal/slice_boundaries_computed_once_for_(T,k)", len(L.slice_calls) == 1 and TL.same_num(L.slice_calls[0][0], T) and L.slice_calls[0][1] == k and len(L.slice_calls[0][2]) == k + 1)
            if not ok:
                return
            s = L.slice_calls[0][2]  # the run's own boundaries; their partition contract is C05's
            g_primal = P5._post_run(c, "primal", res, calls, A0, T, cfg, objs, key)
            ok = c.prove("custom_vjp/one_function_with_fwd_and_bwd_rules", len(L.custom_vjps) == 1 and L.custom_vjps[0].fwd is not None and L.custom_vjps[0].bwd is not None and len(L.custom_vjps[0].primal_calls) == 1)
            if not ok or g_primal is None:
                return
            cv = L.custom_vjps[0]
            args, kwargs, primal_out_direct = cv.primal_calls[0]
            reset_arrays = g_primal.origin

            # ---- (a) fdtd_fwd ----------------------------------------------------------
            n0 = len(L.calls)
            fwd_out = cv.fwd(*args, **kwargs)
            fcalls = L.calls[n0:]
            ok = c.prove("fwd/returns_(primal_out,residual)", isinstance(fwd_out, tuple) and len(fwd_out) == 2 and isinstance(fwd_out[0], tuple) and len(fwd_out[0]) == 9)
            if not ok:
                return
            primal_out, residual = fwd_out
            c.prove("fwd/same_loop_structure_as_primal(k_segments)", len(fcalls) == k and len(calls) == k)
            if len(fcalls) != k:
                return
            last = fcalls[-1]
            it_T = last["iter_out"]
            c.prove("fwd/primal_out==components_of_final_loop_state", _same_components(primal_out, _components(*last["state_end"])))
            c.prove("fwd/final_step_count==T", v_eq(TL.scalar(primal_out[0]), T))
            c.prove("fwd/T_forward_steps_from_counter_0", v_eq(it_T.n, T))
            c.prove("fwd/steps_start_at_counter_0", v_eq(it_T.t0, 0))
            c.prove("fwd/same_step_function_as_primal", TL.same_sig(it_T.sig, g_primal.sig))
            names = ("E", "H", "psi_E", "psi_H", "inv_permittivities", "inv_permeabilities", "detector_states", "recording_state")
            given = tuple(args) if args else tuple(kwargs.get(nm) for nm in names)
            c.prove("fwd/starts_from_its_arguments", len(given) == 8 and all(TL.same(x, y) for x, y in zip(_components(0, it_T.origin)[1:], given)))
            TL.prove_same_container("fwd/start_state==primal_start_state", it_T.origin, reset_arrays, skip=("fields.dispersive_P_curr", "fields.dispersive_P_prev", "dispersive_c1", "dispersive_c2", "dispersive_c3", "dispersive_c4"))
            ok = c.prove("fwd/residual==(primal_out,checkpoints)", isinstance(residual, tuple) and len(residual) == 2 and residual[0] is primal_out and isinstance(residual[1], list) and len(residual[1]) == k - 1)
            if not ok:
                return
            ckpts = residual[1]
            for i, ck in enumerate(ckpts):
                gi = _fields_iter(ck)
                seg_fields = fcalls[i]["state_end"][1].fields
                ok_i = c.prove(f"fwd/checkpoint[{i}]==fields_after_segment_{i}", gi is fcalls[i]["iter_out"] and all(TL.same(getattr(ck, nm), getattr(seg_fields, nm)) for nm in FIELD_LEAVES))
                if ok_i:
                    c.prove(f"fwd/checkpoint[{i}]_is_state_at_step_s[{i + 1}]", v_eq(gi.t0 + gi.n, s[i + 1]))

            # ---- fdtd_bwd ---------------------------------------------------------------
            cot_in = cot_tuple(("incoming",))
            bwd_out = cv.bwd(residual, cot_in)
        rev = L.rev
        ok = c.prove("bwd/one_reverse_loop", rev is not None)
        if not ok:
            return
        # (f)
        end_cot = rev["end"][1]
        c.prove("bwd/returns_(None,None,None,None,cot[5],cot[6],None,None)", isinstance(bwd_out, tuple) and len(bwd_out) == 8 and all(bwd_out[i] is None for i in (0, 1, 2, 3, 6, 7)) and bwd_out[4] is end_cot[5] and bwd_out[5] is end_cot[6])
        # (b) init carry, guard, count
        c.prove("reverse_loop/init:step_counter==T", v_eq(rev["t0"], T))
        g0 = TL.ghost_of(rev["arrays0"])
        c.prove("reverse_loop/init:state_is_final_primal_state", g0 is it_T and _same_components(_components(rev["t0"], rev["arrays0"]), primal_out))
        c.prove("reverse_loop/init:conductivities_are_the_run's", TL.same(rev["arrays0"].electric_conductivity, reset_arrays.electric_conductivity) and TL.same(rev["arrays0"].magnetic_conductivity, reset_arrays.magnetic_conductivity))
        c.prove("reverse_loop/init:cotangent_is_the_incoming_cotangent", rev["cot0"] is cot_in)
        cf = rev["cond_fun"]
        tg = rev["guard_t"]
        inp.scalar("time_step", tg)
        inp.scalar("number_of_pullbacks", rev["n"])
        c.prove("reverse_loop/guard<=>time_step>=1", zbool(rev["guard"]) == zbool(tg >= 1))
        c.prove("reverse_loop/number_of_pullbacks==T", v_eq(rev["n"], T))
        c.prove("reverse_loop/last_pullback_at_state_0", v_eq(rev["t0"] - rev["n"], 0))
        del cf

        # (c) body_fn on the generic carry
        pr = rev["probe"]
        (tp_arr, Xp), cotp = pr["carry"]
        tp = pr["tp"]
        ok = c.prove("body_fn/one_backward_and_one_vjp_per_iteration", len(pr["backward_calls"]) == 1 and len(pr["vjps"]) == 1 and len(pr["vjps"][0]["pullbacks"]) == 1)
        if not ok:
            return
        bc, vj = pr["backward_calls"][0], pr["vjps"][0]
        c.prove("body_fn/backward:run's_config_objects_key", bc["config"] is cfg and bc["objects"] is objs and bc["key"] is key and not bc["extra"])
        c.prove("body_fn/backward:record_detectors=False,reset_fields=False", bc["record_detectors"] is False and bc["reset_fields"] is False)
        c.prove("body_fn/backward:on_the_incoming_step_counter", TL.same_num(TL.scalar(bc["state"][0]), tp))
        bstate = bc["result"]
        c.prove("reverse_loop/body:step_counter-1", v_eq(TL.scalar(pr["out"][0][0]), tp - 1))
        fun = vj["fun"]
        kw = getattr(fun, "keywords", None) or {}
        c.prove("body_fn/vjp:of_partial(forward_single_args_wrapper)", getattr(fun, "func", None) is L.real_wrapper and not getattr(fun, "args", ()) and not vj["kw"])
        c.prove("body_fn/vjp:run's_config_objects_key", kw.get("config") is cfg and kw.get("objects") is objs and kw.get("key") is key)
        c.prove("body_fn/vjp:record_detectors=True,record_boundaries=False,simulate_boundaries=True", kw.get("record_detectors") is True and kw.get("record_boundaries") is False and kw.get("simulate_boundaries") is True)
        c.prove("body_fn/vjp:flags==primal_step_flags_except_record_boundaries", kw.get("record_detectors") == g_primal.sig["record_detectors"] and kw.get("simulate_boundaries") == g_primal.sig["simulate_boundaries"] and g_primal.sig["record_boundaries"] is True)
        c.prove("body_fn/vjp:conductivities_closed_over_are_the_run's", set(kw) == {"config", "objects", "key", "record_detectors", "record_boundaries", "simulate_boundaries", "electric_conductivity", "magnetic_conductivity"} and TL.same(kw.get("electric_conductivity"), reset_arrays.electric_conductivity) and TL.same(kw.get("magnetic_conductivity"), reset_arrays.magnetic_conductivity))
        c.prove("body_fn/vjp:at_the_9_components_of_backward's_state", _same_components(tuple(vj["primals"]), _components(*bstate)))
        cot_used, cot_new = vj["pullbacks"][0]
        c.prove("body_fn/new_cot==pullback(incoming_cot)", cot_used is cotp)
        out = pr["out"]
        c.prove("body_fn/returns_(backward's_state,new_cot)", isinstance(out, tuple) and len(out) == 2 and out[1] is cot_new and isinstance(out[0], tuple) and TL.same(TL.scalar(out[0][0]), TL.scalar(bstate[0])) and out[0][1] is bstate[1])

        # (e) reverse_body: which fields reach backward
        passed = bc["state"][1]
        c.prove("reverse_body/only_fields_are_replaced", all(TL.same(getattr(passed, nm), getattr(Xp, nm)) for nm in TL.MATERIAL_LEAVES) and TL.same(passed.detector_states, Xp.detector_states) and TL.same(passed.recording_state, Xp.recording_state))
        interior = [s[i] for i in range(1, k)]
        for i in range(1, k):
            _prove_fields_select(f"reverse_body/time_step==s[{i}]=>fields==checkpoints[{i - 1}]", passed.fields, ckpts[i - 1], zbool(v_eq(tp, s[i])))
        none_hit = z3.And(*[z3.Not(zbool(v_eq(tp, si))) for si in interior]) if interior else z3.BoolVal(True)
        _prove_fields_select("reverse_body/otherwise_incoming_fields", passed.fields, Xp.fields, none_hit)

        # lossy clause: a checkpoint at every step
        if T_concrete is not None and k == T_concrete:
            for t in range(1, T_concrete):
                _prove_fields_select(f"lossy/incoming_counter_{t}:fields_are_the_exact_checkpoint_of_step_{t}", passed.fields, ckpts[t - 1], zbool(v_eq(tp, t)))
                gi = _fields_iter(ckpts[t - 1])
                c.prove(f"lossy/checkpoint_of_step_{t}_is_the_primal_state_at_{t}", gi is not None and v_eq(gi.t0 + gi.n, t))
            c.prove("lossy/incoming_counter_T:fields_are_the_exact_final_state", g0 is it_T)
            c.prove("lossy/every_reverse_step_starts_from_an_exact_state(k==T)", len(ckpts) == T_concrete - 1)

    return body


# ---------------------------------------------------------------------------------------
# (d) wrapper and the backward step's counter/flags
# ---------------------------------------------------------------------------------------


def _step_contracts(c, inp):
    import fdtdx.fdtd.backward as B
    import fdtdx.fdtd.forward as FW
    from fdtdx.config import GradientConfig
    from props import common as K

    T = sym_int("T", lo=1)
    shape, A0 = P5.make_scene(inp, T=T)
    cfg = P5.make_cfg(GradientConfig(method="reversible", recorder=P5._Recorder()))
    objs = scene.make_objects(shape, cfg)
    key = P5._key()
    t_arr, t = K.time_scalar("t")
    c.cover("pre")
    # ---- forward_single_args_wrapper
    log = []
    out_state = (A.asarray(sym_int("t_out")), TL.havoc_container(A0, _Tag("wrapper_forward"), "wfwd"))

    def st_forward(state, config, objects, key, record_detectors, record_boundaries, simulate_boundaries):
        log.append({"state": state, "config": config, "objects": objects, "key": key, "flags": (record_detectors, record_boundaries, simulate_boundaries)})
        return out_state

    sigE, sigH = A0.electric_conductivity, A.fresh_array("sigma_H", (3, *shape))
    for flags in ((True, False, True), (False, True, False)):
        log.clear()
        saved = FW.forward
        FW.forward = st_forward
        try:
            comps = _components(t_arr, A0)
            res = FW.forward_single_args_wrapper(*comps, config=cfg, objects=objs, key=key, record_detectors=flags[0], record_boundaries=flags[1], simulate_boundaries=flags[2], electric_conductivity=sigE, magnetic_conductivity=sigH)
        finally:
            FW.forward = saved
        tag = f"wrapper{flags}"
        ok = c.prove(f"{tag}/one_forward_call", len(log) == 1)
        if not ok:
            continue
        call = log[0]
        st = call["state"]
        c.prove(f"{tag}/forward_gets_(t,ArrayContainer(args))", isinstance(st, tuple) and len(st) == 2 and _same_components(_components(*st), comps))
        c.prove(f"{tag}/forward_gets_the_conductivities", TL.same(st[1].electric_conductivity, sigE) and TL.same(st[1].magnetic_conductivity, sigH))
        c.prove(f"{tag}/forward_gets_config_objects_key_flags", call["config"] is cfg and call["objects"] is objs and call["key"] is key and call["flags"] == flags)
        c.prove(f"{tag}/returns_the_9_components_of_forward's_state_in_order", _same_components(res, _components(*out_state)))

    # ---- backward: counter and flag semantics (reverse updates are C02's contract)
    blog = []

    def mk(name):
        def f(time_step=None, arrays=None, **kw):
            blog.append((name, time_step, arrays, kw))
            return arrays

        return f

    names = ("add_interfaces", "update_H_reverse", "update_E_reverse", "update_detector_states")
    saved = {n: getattr(B, n) for n in names}
    for n in names:
        setattr(B, n, mk(n))
    try:
        s0 = B.backward((t_arr, A0), cfg, objs, key, record_detectors=False, reset_fields=False)
        order0 = [e[0] for e in blog]
        times0 = [TL.scalar(e[1]) for e in blog]
        blog.clear()
        B.backward((t_arr, A0), cfg, objs, key, record_detectors=True, reset_fields=False)
        order1 = [e[0] for e in blog]
    finally:
        for n in names:
            setattr(B, n, saved[n])
    c.prove("backward/post:step_counter-1", v_eq(TL.scalar(s0[0]), t - 1))
    c.prove("backward(record_detectors=False)/interfaces,H_reverse,E_reverse_and_no_detector_update", order0 == ["add_interfaces", "update_H_reverse", "update_E_reverse"])
    c.prove("backward/all_updates_at_counter_t-1", all(TL.same_num(x, t - 1) for x in times0))
    c.prove("backward(record_detectors=True)/detector_update_last", order1 == ["add_interfaces", "update_H_reverse", "update_E_reverse", "update_detector_states"])


# ---------------------------------------------------------------------------------------


def tasks(tier, seed):
    out = {"step_contracts": Task(_step_contracts)}
    ks = (1, 2, 3, 5) if tier == "quick" else range(1, 9)
    for k in ks:
        out[f"reversible/k{k}"] = Task(_reversible(k))
    for Tk in (2, 3, 4) if tier == "quick" else range(2, 7):
        out[f"lossy/checkpoint_every_step/T{Tk}"] = Task(_reversible(Tk, T_concrete=Tk))
    # reconstruction premise: the state the per-step VJP is taken at is backward(state_{t+1}); that it equals the
    # primal state_t is C02's contract.  Its source-carrying lemmas (update_E/H_reverse undo update_E/H incl.
    # gated and H-injecting sources) are re-proved here on the same real code, so that a change that breaks
    # the reconstruction - and with it the gradient - fails under this property as well.
    import props.C02 as P2

    for k, t in P2.tasks(tier, seed).items():
        if k.startswith("src/") or k == "compose/with_sources":
            out[f"reconstruction(C02)/{k}"] = Task(t.body, modules=P2.MODULES, max_paths=t.max_paths)
    return out


# ---------------------------------------------------------------------------------------
# replay: reversible vs checkpointed gradients on the real code under real JAX
# ---------------------------------------------------------------------------------------

_REPLAY_CACHE = {}


def _grad_scene(g, T=14, n=6):
    import jax
    import jax.numpy as jnp

    import fdtdx
    from fdtdx.core.wavelength import WaveCharacter
    from fdtdx.objects.sources.profile import GaussianPulseProfile

    profile = GaussianPulseProfile(spectral_width=WaveCharacter(wavelength=4e-7), center_wave=WaveCharacter(wavelength=2e-7))
    cfg = fdtdx.SimulationConfig(time=1e-15, grid=fdtdx.UniformGrid(spacing=2e-8), backend="cpu", dtype=jnp.float64, gradient_config=g)
    cfg = cfg.aset("time", (T + 0.2) * cfg.time_step_duration)
    vol = fdtdx.SimulationVolume(partial_real_shape=(n * 2e-8,) * 3)
    objs, cons = [vol], []
    bdict, c_list = fdtdx.boundary_objects_from_config(fdtdx.BoundaryConfig.from_uniform_bound(boundary_type="periodic"), vol)
    objs += list(bdict.values())
    cons += c_list
    # amplitude non-zero at t < 0 (a ramped single-frequency profile hides the extra reverse step)
    src = fdtdx.UniformPlaneSource(name="src", wave_character=WaveCharacter(wavelength=2e-7), temporal_profile=profile, direction="+", partial_grid_shape=(None, None, 1), fixed_E_polarization_vector=(1, 0, 0))
    cons += [src.place_at_center(vol, axes=(2,)), src.same_size(vol, axes=(0, 1))]
    det = fdtdx.EnergyDetector(name="energy", reduce_volume=False)
    cons += det.same_position_and_size(vol)
    objs += [src, det]
    key = jax.random.PRNGKey(0)
    oc, arrays, params, cfg, _ = fdtdx.place_objects(object_list=objs, config=cfg, constraints=cons, key=key)
    arrays, oc, _ = fdtdx.apply_params(arrays, oc, params, key)
    return cfg, oc, arrays, key


def _grad(g):
    import jax
    import jax.numpy as jnp
    import numpy as np

    import fdtdx

    cfg, oc, arrays, key = _grad_scene(g)
    eps0 = jnp.asarray(np.random.default_rng(1).uniform(0.3, 1.0, size=arrays.inv_permittivities.shape))
    shape_e = arrays.detector_states["energy"]["energy"].shape
    W = jnp.asarray(np.random.default_rng(2).normal(size=shape_e))

    def loss(inv_eps):
        a = arrays.aset("inv_permittivities", inv_eps)
        _, out = fdtdx.run_fdtd(a, oc, cfg, key, show_progress=False)
        return jnp.sum(W * out.detector_states["energy"]["energy"])

    v, gr = jax.value_and_grad(loss)(eps0)
    return float(v), np.asarray(gr), cfg


def replay(key, obligation, witness):
    if key.startswith("reconstruction(C02)/"):
        import props.C02 as P2

        return P2.replay(key.split("/", 1)[1], obligation, witness)
    return _replay_gradients(key, obligation, witness)


def _replay_gradients(key, obligation, witness):
    """real run_fdtd under jax.value_and_grad: reversible (no interior checkpoints, lossless recording)
    vs exact checkpointed autodiff; scalar loss = random weights on the EnergyDetector output; Gaussian-pulse
    plane source in a lossless periodic box; gradient w.r.t. the inverse permittivity at every cell"""
    import numpy as np

    import fdtdx
    from fdtdx.config import GradientConfig

    if "res" not in _REPLAY_CACHE:
        v1, g1, cfg = _grad(GradientConfig(method="checkpointed", num_checkpoints=3))
        v2, g2, _ = _grad(GradientConfig(method="reversible", recorder=fdtdx.Recorder(modules=[])))
        scale = float(np.abs(g1).max())
        d = np.abs(g1 - g2)
        rel = float(d.max()) / max(scale, 1e-300)
        idx = np.argwhere(d > 1e-9 * scale)
        _REPLAY_CACHE["res"] = (rel, v1, v2, cfg.time_steps_total, len(idx), idx[:6].tolist(), scale)
    rel, v1, v2, T, ncell, cells, scale = _REPLAY_CACHE["res"]
    detail = f"T={T}, 6^3 periodic lossless box, Gaussian-pulse plane source, loss = sum(W*energy detector): loss checkpointed {v1:.12e} / reversible {v2:.12e}; max |grad| {scale:.3e}; max relative gradient difference {rel:.3e}; {ncell} entries differ by more than 1e-9 relative, e.g. {cells}"
    return rel > 1e-9, detail
