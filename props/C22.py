"""C22  Gaussian smoothing preserves constants and stays within the input range.

GaussianSmoothing2D._apply_smoothing(x) = reshape( convolve(PAD(x), KERNEL, mode="same")[p:p+nx, p:p+ny] ),
p = kernel radius (the (size, sigma) arguments of the kernel-builder call are read off the real code
per std_discrete; currently size = 6*sigma+1, p = 3*sigma).

`jax.scipy.signal.convolve` is an EXTERNAL: its contract is assumed to be the textbook zero-filled
'same'-mode convolution (`_conv_same` below), cross-checked against the real jax function on seeded
random concrete inputs inside the check (bounded, task `convolve_shim_vs_real_jax`).

The proof is modular (sigma enumerated: kernel taps are concrete; everything else symbolic):

  K  (real _create_gaussian_kernel, `exp` an uninterpreted function with exp(t) > 0, equal arguments
     give equal values):  kernel shape size x size, every weight > 0, weights sum to 1, kernel invariant
     under reflection of either axis.
  C  (contract of "convolve with a K kernel", derived from the assumed convolve contract + K for an
     ARBITRARY input array F of symbolic shape (nx+2p, ny+2p) and a generic output index inside the
     central window [p,p+nx) x [p,p+ny)):
       linear in F;  equals c for F == c;  within [lo, hi] when F is;  commutes with mirroring F.
  P/S (real _apply_smoothing / __call__; the kernel builder and convolve are replaced by contract stubs
     that CHECK their call-site preconditions and return arrays carrying what K / C guarantee - the same
     modular scheme as C02's composition): for every padding configuration (each of the four padding
     arrays given or None), every singleton-axis position, symbolic nx, ny, x, padding arrays:
       P: convolve is called once, with the K kernel, mode "same", on an (nx+2p, ny+2p) array `arr` that
          equals the documented padded array (edge replication / given 1-D padding arrays extended by
          their end values into the corners); the result is convolve's output restricted to the central
          window, in x's shape; and arr satisfies the precondition of each C clause (within [lo,hi];
          affine / linear combination of the arr's of x and y; constant; mirrored arr).
       S: the property clauses on the OUTPUT of the real code: within the range of input and padding
          values; affine in x (linear when no padding array is given); constants unchanged (padding
          arrays equal to the constant or absent); mirror-equivariant with mirrored padding.
  E  fully inlined cross-check (real kernel with exp UF, real padding, convolve contract expanded, no
     stubs): output shape and constants for symbolic shapes; affine / constants / mirror equivariance on
     enumerated small concrete shapes with symbolic values.
"""

from __future__ import annotations

import itertools

import z3

from vc import array as A
from vc.array import SymArray
from vc.core import SymNum, Unsupported, apply_uf, ctx, ite, v_eq, zbool
from vc.harness import Task
from vc.obl import prove_arrays_equal, prove_pointwise, prove_same_shape, sym_int, sym_real

ID = "C22"
LEVEL = "proof"
TECHNIQUE = "symbolic execution of the real kernel builder and padding code; convolve as an assumed contract (cross-checked against real JAX); modular lemmas K/P/C discharged by z3, exact ring normal form and cvc5 (convex-combination bound with proved per-term hints)"
_MOD = "fdtdx.objects.device.parameters.continuous"
MODULES = [_MOD]
FILES = ["src/fdtdx/objects/device/parameters/continuous.py"]
FUNCTIONS = [
    "fdtdx.objects.device.parameters.continuous.GaussianSmoothing2D._apply_smoothing",
    "fdtdx.objects.device.parameters.continuous.GaussianSmoothing2D._create_gaussian_kernel",
    "fdtdx.objects.device.parameters.continuous.GaussianSmoothing2D.__call__",
]
INLINED = []
STUBS = [
    "jax.scipy.signal.convolve(in1, in2, mode='same'): assumed contract = textbook zero-filled same-mode convolution out[i,j] = sum_ab in2[a,b]*in1[i+(K0-1)/2-a, j+(K1-1)/2-b] for odd kernel extents, in1 not smaller than in2 (cross-checked against the real function on random concrete inputs, bounded)",
    "jnp.exp: uninterpreted function with exp(t) > 0 (equal arguments give equal values)",
    "in lemma P: _create_gaussian_kernel replaced by its contract K (weights >= 0, sum 1, reflection symmetric) after checking that it is called with the arguments lemma K was proved for",
]
ASSUMPTIONS = [
    "sigma (std_discrete) enumerated: {1, 2} (quick), {1, 2, 3} (thorough); the kernel taps are then concrete",
    "padding configurations (each of the four arrays given / None): all 16 for sigma=1 and 8 of them (none, all, per axis, crosswise, single) for sigma=2 in the quick tier; all 16 for every sigma in the thorough tier",
    "exactly one axis of the (a,b,c) parameter array has extent 1 (call-site check in ParameterTransformation.get_input_shape for _all_arrays_2d transforms), the two others are >= 2; its position is enumerated",
    "padding arrays, when given, have the documented shapes (ny,) for axis 0 and (nx,) for axis 1",
    "modular composition: lemma K and lemma C (proved for an arbitrary kernel with K's properties and an arbitrary input array) are used as callee contracts inside the run of the real _apply_smoothing; their preconditions are proved at the call site (obligations P/*), their guarantees are attached to the stub results only inside the central window",
    "'mirrored accordingly': for a mirror of axis 0 the low/high padding arrays of axis 0 are exchanged and those of axis 1 are reversed (and vice versa)",
    "documented padding semantics (P/arr==spec): padding_low/high_axis0 fill the rows before/after axis 0; padding_low/high_axis1 fill the columns before/after axis 1 and are extended by their first/last value into the corners; None = replicate the edge (for axis 1: of the row-padded array)",
]
MIN_OBLIGATIONS = {"quick": 4000, "thorough": 9000}
LEVEL_TEXT = (
    "Deductive proof, for sigma in {1,2} and all design extents, values, padding configurations (16) and singleton-axis positions (3), that the output of the real "
    "GaussianSmoothing2D is affine in the design (linear with edge-replicated padding), leaves constants unchanged, stays within the range of input and padding values "
    "and commutes with mirroring; modular: kernel lemma (positive, normalised, symmetric weights), convolution lemma on the assumed convolve contract, and the "
    "padding/call-site lemma of the real _apply_smoothing with both lemmas used as checked callee contracts"
)
LEVEL_NOTE = (
    "real arithmetic; sigma enumerated ({1,2}; 3 in the thorough tier); jax.scipy.signal.convolve is an assumed contract (bounded cross-check against real JAX); "
    "exp uninterpreted with exp>0; the clauses on the real output (S/*) use lemmas K and C as callee contracts with call-site preconditions proved (P/*); "
    "fully inlined affine/mirror obligations (E) only on enumerated small concrete shapes; the convex-combination bound of lemma C is discharged by cvc5 from per-term hints that are themselves proved"
)

AXIOMS = {"exp": [lambda args, term, apps: [term > 0]]}


# ---------------------------------------------------------------------------------------
# external contract: 'same'-mode convolution (zero fill)
# ---------------------------------------------------------------------------------------


def _conv_terms(in1, in2, I, J, elide=True):
    """list of (weight, value) with  conv_same(in1, in2)[I, J] = sum weight*value.
    I, J: python ints or SymNum.  Zero fill outside in1; the guard is dropped when the context
    implies that the source index is inside."""
    K0, K1 = in2.shape
    N0, N1 = in1.shape
    c0, c1 = (K0 - 1) // 2, (K1 - 1) // 2
    out = []
    c = ctx()
    for a in range(K0):
        si = I + c0 - a
        ci = A._vand(si >= 0, si < N0)
        for b in range(K1):
            sj = J + c1 - b
            cond = A._vand(ci, A._vand(sj >= 0, sj < N1))
            w = in2.at_index((a, b))
            if cond is False:
                continue
            v = in1.at_index((A._raw_index(si), A._raw_index(sj)))
            if cond is not True and not (elide and c.implied(zbool(cond))):
                v = ite(cond, v, 0)
            out.append((w, v))
    return out


def _conv_same(in1, in2, mode="full", **kw):
    """assumed contract of jax.scipy.signal.convolve / convolve2d for mode='same'"""
    in1, in2 = A.asarray(in1), A.asarray(in2)
    if mode != "same":
        raise Unsupported(f"convolve mode {mode!r} has no contract here")
    if in1.ndim != 2 or in2.ndim != 2:
        raise Unsupported("convolve contract: 2-D inputs only")
    if not all(isinstance(k, int) for k in in2.shape) or any(k % 2 == 0 for k in in2.shape):
        raise Unsupported("convolve contract: concrete odd kernel extents only")
    for n, k in zip(in1.shape, in2.shape):
        if not (isinstance(n, int) and n >= k) and not ctx().implied(zbool(n >= k)):
            raise Unsupported("convolve contract: first input must not be smaller than the kernel")

    def fn(idx):
        I, J = (A._wrap_idx(i) for i in idx)
        acc = 0
        for w, v in _conv_terms(in1, in2, I, J):
            acc = acc + w * v
        return acc

    return SymArray(in1.shape, fn, "real")


_CONV = [_conv_same]


class _Delegate:
    def __init__(self, base, **over):
        self.__dict__["_base"] = base
        self.__dict__.update(over)

    def __getattr__(self, name):
        return getattr(self.__dict__["_base"], name)


def _patches(exp_uf=True):
    from vc import shims

    so = shims.shim_objects()
    signal = _Delegate(object(), convolve=lambda *a, **k: _CONV[0](*a, **k), convolve2d=lambda *a, **k: _CONV[0](*a, **k))
    jaxd = _Delegate(so["jax"], scipy=_Delegate(object(), signal=signal))
    over = {"jax": jaxd}
    if exp_uf:
        over["jnp"] = _Delegate(so["jnp"], exp=lambda a: A.asarray(a)._map(lambda v: apply_uf("exp", v), "real"))
    return {_MOD: over}


# ---------------------------------------------------------------------------------------
# helpers
# ---------------------------------------------------------------------------------------

PAD_NAMES = ("padding_low_axis0", "padding_high_axis0", "padding_low_axis1", "padding_high_axis1")


def _combo_label(combo):
    return "".join("A" if g else "n" for g in combo)


def _shape3(s, nx, ny):
    sh = [nx, ny]
    sh.insert(s, 1)
    return tuple(sh)


def _embed(s, i, j):
    idx = [i, j]
    idx.insert(s, 0)
    return tuple(idx)


def _two_d(x3, s, nx, ny):
    """2-D view (spec side) of the 3-D parameter array with singleton axis s"""
    return SymArray((nx, ny), lambda idx: x3.at_index(_embed(s, idx[0], idx[1])), x3.kind)


def _clamp(v, lo, hi):
    return ite(v < lo, lo, ite(v > hi, hi, v))


def _pad_spec(x2, pads, p, nx, ny):
    """documented padded array, written index-wise"""
    lo0, hi0, lo1, hi1 = pads

    def at2(a, i, j):
        return a.at_index((A._raw_index(i), A._raw_index(j)))

    def at1(a, i):
        return a.at_index((A._raw_index(i),))

    def rows(i, j):  # value in column j (0<=j<ny) of the array padded along axis 0, row coordinate i in [-p, nx+p)
        before = at1(lo0, j) if lo0 is not None else at2(x2, 0, j)
        after = at1(hi0, j) if hi0 is not None else at2(x2, nx - 1, j)
        return ite(i < 0, before, ite(i >= nx, after, at2(x2, i, j)))

    def fn(idx):
        I, J = (A._wrap_idx(k) for k in idx)
        i, j = I - p, J - p
        ic = _clamp(i, 0, nx - 1)
        left = at1(lo1, ic) if lo1 is not None else rows(i, 0)
        right = at1(hi1, ic) if hi1 is not None else rows(i, ny - 1)
        return ite(j < 0, left, ite(j >= ny, right, rows(i, j)))

    return SymArray((nx + 2 * p, ny + 2 * p), fn, "real")


def _transform(sigma, pads):
    import fdtdx.objects.device.parameters.continuous as C

    kw = {n: a for n, a in zip(PAD_NAMES, pads) if a is not None}
    return C.GaussianSmoothing2D(std_discrete=sigma, **kw)


def _sym_dims(inp, lo=2):
    nx, ny = sym_int("nx", lo=lo), sym_int("ny", lo=lo)
    inp.scalar("nx", nx)
    inp.scalar("ny", ny)
    return nx, ny


def _fresh_pads(combo, nx, ny, tag="", fact=None, inp=None):
    out = []
    for k, given in enumerate(combo):
        if not given:
            out.append(None)
            continue
        arr = A.fresh_array(f"{PAD_NAMES[k]}{tag}", (ny if k < 2 else nx,), fact=fact)
        if inp is not None:
            inp.array(f"{PAD_NAMES[k]}{tag}", arr)
        out.append(arr)
    return out


def _generic_index(c, dims, tag="g"):
    """generic in-range index, assumed in the context (so that index side conditions are decidable)"""
    out = []
    for k, d in enumerate(dims):
        i = sym_int(f"{tag}{k}", lo=0)
        c.assume(zbool(i < d))
        out.append(i)
    return out


class _Stop(Exception):
    pass


def _discover(sigma, probe=None):
    """(size, sigma) arguments with which the real _apply_smoothing calls the kernel builder for this
    std_discrete (the truncation radius of the kernel is an implementation choice, not part of the property)"""
    import fdtdx.objects.device.parameters.continuous as C

    seen = []

    def stub(self, size, sig):
        seen.append((size, sig))
        raise _Stop()

    saved = C.GaussianSmoothing2D._create_gaussian_kernel
    C.GaussianSmoothing2D._create_gaussian_kernel = stub
    try:
        try:
            _transform(sigma, (None,) * 4)({"p": A.zeros((4, 3, 1)) if probe is None else probe})
        except _Stop:
            pass
    finally:
        C.GaussianSmoothing2D._create_gaussian_kernel = saved
    if len(seen) != 1 or not isinstance(seen[0][0], int) or seen[0][0] % 2 == 0 or seen[0][0] < 1:
        raise Unsupported(f"kernel builder not called once with a concrete odd size: {seen}")
    return seen[0]


def _kernel_cut(c, size, name="k"):
    """what lemma K guarantees about the kernel: non-negative weights, sum 1, invariant under reflection of
    either axis (built in: the weight depends on (|a-p|, |b-p|) only)"""
    p = size // 2
    w = A.fresh_array(name, (p + 1, p + 1), fact=lambda v, idx: v >= 0)
    kf = SymArray((size, size), lambda idx: w.at_index((abs(idx[0] - p), abs(idx[1] - p))), "real")
    tot = 0
    for a in range(size):
        for b in range(size):
            tot = tot + kf.at_index((a, b))
    c.assume(zbool(v_eq(tot, 1)))
    return kf


# ---------------------------------------------------------------------------------------
# K: kernel lemma
# ---------------------------------------------------------------------------------------


def _lemma_K(sigma):
    def body(c, inp):
        inp.note("sigma", sigma)
        T = _transform(sigma, (None,) * 4)
        size, sig_arg = _discover(sigma)
        inp.note("kernel_call", [size, str(sig_arg)])
        p = size // 2
        K = A.asarray(T._create_gaussian_kernel(size, sig_arg))
        ok = c.prove("K/shape", K.ndim == 2 and tuple(K.shape) == (size, size))
        if not ok:
            return
        tot = 0
        for a in range(size):
            for b in range(size):
                tot = tot + K.at_index((a, b))
        c.prove("K/sum_is_one", v_eq(tot, 1))
        for a in range(size):
            for b in range(size):
                v = K.at_index((a, b))
                c.prove(f"K/positive[{a},{b}]", v > 0)
                if a < p or b < p:
                    c.prove(f"K/reflect0[{a},{b}]", v_eq(v, K.at_index((2 * p - a, b))))
                    c.prove(f"K/reflect1[{a},{b}]", v_eq(v, K.at_index((a, 2 * p - b))))

    return body


# ---------------------------------------------------------------------------------------
# P: padding / call-site lemma on the real _apply_smoothing
# ---------------------------------------------------------------------------------------


class _Recorder:
    """contract stubs for the two callees of _apply_smoothing.

    convolve stub: checks the call-site preconditions (mode, kernel = the lemma-K kernel, input extents
    (nx+2p, ny+2p)), hands the input to `post`, which checks the precondition of the lemma-C clause under
    study and returns an array carrying exactly what that clause guarantees inside the central window."""

    def __init__(self, c, call, dims, prefix="", post=None):
        self.c, self.call, self.prefix, self.post = c, call, prefix, post
        self.size = call[0]
        self.dims = dims  # (N0, N1) = (nx+2p, ny+2p)
        self.kernel = None
        self.calls = []

    def make_kernel(self, size, sigma_arg):
        # lemma K is proved for exactly this call
        self.c.prove(f"{self.prefix}P/kernel_call_is_the_one_of_lemma_K", (size, sigma_arg) == self.call)
        self.kernel = _kernel_cut(self.c, self.size)
        return self.kernel

    def convolve(self, in1, in2, mode="full", **kw):
        c = self.c
        in1 = A.asarray(in1)
        c.prove(f"{self.prefix}P/convolve_mode_same", mode == "same")
        if in2 is self.kernel or self.kernel is None:
            c.prove(f"{self.prefix}P/convolve_kernel_is_K", self.kernel is not None)
        else:
            prove_arrays_equal(f"{self.prefix}P/convolve_kernel_is_K", A.asarray(in2), self.kernel)
        ok = in1.ndim == 2
        c.prove(f"{self.prefix}P/convolve_input_2d", ok)
        if ok:
            for k in range(2):
                ok = c.prove(f"{self.prefix}P/arr_shape[{k}]", v_eq(in1.shape[k], self.dims[k])) and ok
        if ok:
            in1 = SymArray(self.dims, in1.at_index, in1.kind)
            R = self.post(in1) if self.post is not None else None
            if R is None:
                R = A.fresh_array("R", self.dims)
        else:
            R = A.fresh_array("R", in1.shape)
        self.calls.append((in1 if ok else None, R))
        return R


def _run_recorded(c, sigma, call, dims, pads, x3, prefix="", post=None):
    """real transform with the two callees replaced by their contracts -> (out, arr, R)"""
    import fdtdx.objects.device.parameters.continuous as C

    rec = _Recorder(c, call, dims, prefix, post)
    T = _transform(sigma, pads)
    saved = C.GaussianSmoothing2D._create_gaussian_kernel
    saved_conv = _CONV[0]
    C.GaussianSmoothing2D._create_gaussian_kernel = lambda self, size, sig: rec.make_kernel(size, sig)
    _CONV[0] = rec.convolve
    try:
        out = T({"p": x3})
    finally:
        C.GaussianSmoothing2D._create_gaussian_kernel = saved
        _CONV[0] = saved_conv
    ok = isinstance(out, dict) and set(out) == {"p"}
    c.prove(f"{prefix}P/returns_dict_with_same_keys", ok)
    ok2 = c.prove(f"{prefix}P/convolve_called_once", len(rec.calls) == 1)
    if not (ok and ok2) or rec.calls[0][0] is None:
        return None, None, None
    out = A.asarray(out["p"])
    if not prove_same_shape(f"{prefix}S/out_shape", out, x3):
        return None, None, None
    return SymArray(x3.shape, out.at_index, out.kind), rec.calls[0][0], rec.calls[0][1]


def _mirror_inputs(ax, x3, s, pads):
    """mirror the 2-D design along its axis `ax` and the padding arrays accordingly"""
    ax3 = [k for k in range(3) if k != s][ax]
    xm = A.flip(x3, axis=ax3)
    lo0, hi0, lo1, hi1 = pads
    rev = lambda a: None if a is None else A.flip(a, axis=0)  # noqa: E731
    if ax == 0:
        pm = [hi0, lo0, rev(lo1), rev(hi1)]
    else:
        pm = [rev(lo0), rev(hi0), hi1, lo1]
    return xm, pm


def _lemma_P(sigma, s, combo):
    """Lemma P and, through the lemma-C contract of the convolution, the property clauses S/* on the
    output of the real _apply_smoothing."""

    def body(c, inp):
        call = _discover(sigma)
        p = call[0] // 2
        inp.note("cfg", {"sigma": sigma, "singleton_axis": s, "padding_given": list(combo)})
        nx, ny = _sym_dims(inp)
        lo, hi = sym_real("lo"), sym_real("hi")
        inp.scalar("lo", lo)
        inp.scalar("hi", hi)
        rng = lambda v, idx: A._vand(v >= lo, v <= hi)  # noqa: E731
        sh = _shape3(s, nx, ny)
        ax3 = [k for k in range(3) if k != s]
        x = A.fresh_array("x", sh, fact=rng)
        inp.array("x", x)
        pads = _fresh_pads(combo, nx, ny, fact=rng, inp=inp)
        c.cover("pre")
        dims = (nx + 2 * p, ny + 2 * p)

        def in_window(idx):
            I, J = idx
            return A._vand(A._vand(I >= p, I < p + nx), A._vand(J >= p, J < p + ny))

        def guaranteed(name, holds, expr):
            """array about which lemma C guarantees `value == expr(idx)` / `expr(value, idx)` inside the
            central window - only if the lemma's precondition `holds` was proved at this call site"""
            if not holds:
                return None
            return A.fresh_array(name, dims, fact=lambda v, idx: A._vor(A._vnot(in_window(idx)), expr(v, idx)))

        # --- base run: documented padding, frame, range ---------------------------------------
        def post_base(arr):
            x2 = _two_d(x, s, nx, ny)
            prove_arrays_equal("P/arr==documented_padding", arr, _pad_spec(x2, pads, p, nx, ny))
            pre = prove_pointwise("P/arr_within_input_and_padding_range", arr, rng)
            return guaranteed("R", pre, rng)  # lemma C/range

        out, arr, R = _run_recorded(c, sigma, call, dims, pads, x, post=post_base)
        if out is None:
            return
        Rw = SymArray(sh, lambda idx: R.at_index(tuple(A._raw_index(A._wrap_idx(i) + p) for k, i in enumerate(idx) if k != s)), "real")
        prove_arrays_equal("P/out==central_window_of_convolve_output", out, Rw)
        prove_pointwise("S/within_range_of_input_and_padding", out, rng)

        # --- affine in x for fixed padding arrays (linear if none is given) -----------------------
        y = A.fresh_array("y", sh)
        inp.array("y", y)
        t = sym_real("t")
        inp.scalar("t", t)
        out_y, arr_y, R_y = _run_recorded(c, sigma, call, dims, pads, y, prefix="y:")
        if out_y is None:
            return

        def post_comb(a, b, tag):
            def post(arr_m):
                pre = prove_arrays_equal(f"P/arr_{tag}_in_x", arr_m, arr * a + arr_y * b)
                return guaranteed("Rm", pre, lambda v, idx: v_eq(v, R.at_index(tuple(A._raw_index(k) for k in idx)) * a + R_y.at_index(tuple(A._raw_index(k) for k in idx)) * b))  # lemma C/linear

            return post

        out_m, _, _ = _run_recorded(c, sigma, call, dims, pads, x * t + y * (1 - t), prefix="mix:", post=post_comb(t, 1 - t, "affine"))
        if out_m is not None:
            prove_arrays_equal("S/affine_in_x", out_m, out * t + out_y * (1 - t))
        if not any(combo):
            al, be = sym_real("alpha"), sym_real("beta")
            inp.scalar("alpha", al)
            inp.scalar("beta", be)
            out_l, _, _ = _run_recorded(c, sigma, call, dims, pads, x * al + y * be, prefix="lin:", post=post_comb(al, be, "linear"))
            if out_l is not None:
                prove_arrays_equal("S/linear_in_x(edge_replicated)", out_l, out * al + out_y * be)

        # --- constants ----------------------------------------------------------------------
        cval = sym_real("c")
        inp.scalar("c", cval)
        xc = A.full(sh, cval, "real")
        pc = [A.full((ny if k < 2 else nx,), cval, "real") if g else None for k, g in enumerate(combo)]

        def post_const(arr_c):
            pre = prove_pointwise("P/arr_constant", arr_c, lambda v, idx: v_eq(v, cval))
            return guaranteed("Rc", pre, lambda v, idx: v_eq(v, cval))  # lemma C/const

        out_c, _, _ = _run_recorded(c, sigma, call, dims, pc, xc, prefix="const:", post=post_const)
        if out_c is not None:
            prove_pointwise("S/constant_unchanged", out_c, lambda v, idx: v_eq(v, cval))

        # --- mirroring ----------------------------------------------------------------------
        for ax in (0, 1):
            xm, pm = _mirror_inputs(ax, x, s, pads)

            def post_mirror(arr_f, ax=ax):
                pre = prove_arrays_equal(f"P/arr_mirror{ax}", arr_f, A.flip(arr, axis=ax))

                def expr(v, idx):
                    src = list(idx)
                    src[ax] = dims[ax] - 1 - idx[ax]
                    return v_eq(v, R.at_index(tuple(A._raw_index(k) for k in src)))

                return guaranteed("Rf", pre, expr)  # lemma C/mirror

            out_f, _, _ = _run_recorded(c, sigma, call, dims, pm, xm, prefix=f"mirror{ax}:", post=post_mirror)
            if out_f is not None:
                prove_arrays_equal(f"S/mirror{ax}", out_f, A.flip(out, axis=ax3[ax]))

    return body


# ---------------------------------------------------------------------------------------
# C: consequences of the convolve contract + K
# ---------------------------------------------------------------------------------------


def _lemma_C(sigma, which):
    def body(c, inp):
        size = _discover(sigma)[0]
        p = size // 2
        inp.note("cfg", {"sigma": sigma})
        nx, ny = _sym_dims(inp, lo=1)
        N0, N1 = nx + 2 * p, ny + 2 * p
        kf = _kernel_cut(c, size)
        i, j = _generic_index(c, (nx, ny))
        inp.scalar("i", i)
        inp.scalar("j", j)
        I, J = i + p, j + p
        c.cover("pre")

        def val(F, I_=I, J_=J):
            acc = 0
            for w, v in _conv_terms(F, kf, I_, J_):
                acc = acc + w * v
            return acc

        if which == "linear":
            F, G = A.fresh_array("F", (N0, N1)), A.fresh_array("G", (N0, N1))
            al, be = sym_real("alpha"), sym_real("beta")
            c.prove("C/linear", v_eq(val(F * al + G * be), al * val(F) + be * val(G)))
            c.prove("C/no_zero_fill_inside_window", len(_conv_terms(F, kf, I, J)) == (2 * p + 1) ** 2 and all(not z3.is_app_of(SymNum.wrap(v).re, z3.Z3_OP_ITE) for _, v in _conv_terms(F, kf, I, J)))
        elif which == "const":
            cv = sym_real("c")
            c.prove("C/const", v_eq(val(A.full((N0, N1), cv, "real")), cv))
        elif which in ("range_lo", "range_hi"):
            lo, hi = sym_real("lo"), sym_real("hi")
            F = A.fresh_array("F", (N0, N1), fact=lambda v, idx: A._vand(v >= lo, v <= hi))
            inp.array("F", F)
            terms = _conv_terms(F, kf, I, J)
            bnd = lo if which == "range_lo" else hi
            hints = []
            wsum = 0
            out = 0
            for n, (w, v) in enumerate(terms):
                h = (w * v >= w * bnd) if which == "range_lo" else (w * v <= w * bnd)
                c.prove(f"C/{which}/term[{n}]", h)
                hints.append(h)
                wsum = wsum + w * bnd
                out = out + w * v
            hs = v_eq(wsum, bnd)
            c.prove(f"C/{which}/weights_times_bound", hs)
            hints.append(hs)
            c.prove(f"C/{which}", (out >= bnd) if which == "range_lo" else (out <= bnd), extra_hyps=hints)
        elif which in ("mirror0", "mirror1"):
            ax = int(which[-1])
            F = A.fresh_array("F", (N0, N1))
            Ff = A.flip(F, axis=ax)
            Im, Jm = ((N0 - 1 - I), J) if ax == 0 else (I, (N1 - 1 - J))
            c.prove(f"C/{which}", v_eq(val(Ff), val(F, Im, Jm)))

    return body


# ---------------------------------------------------------------------------------------
# E: end to end (real kernel with exp UF, real padding, convolve contract inlined)
# ---------------------------------------------------------------------------------------


def _end_to_end_symbolic(sigma, s, combo):
    def body(c, inp):
        inp.note("cfg", {"sigma": sigma, "singleton_axis": s, "padding_given": list(combo)})
        nx, ny = _sym_dims(inp)
        sh = _shape3(s, nx, ny)
        cval = sym_real("c")
        inp.scalar("c", cval)
        xc = A.full(sh, cval, "real")
        pc = [A.full((ny if k < 2 else nx,), cval, "real") if g else None for k, g in enumerate(combo)]
        T = _transform(sigma, pc)
        i, j = _generic_index(c, (nx, ny))
        c.cover("pre")
        out = A.asarray(T({"p": xc})["p"])
        if prove_same_shape("E/out_shape", out, xc):
            c.prove("E/constant_unchanged", v_eq(out.at_index(tuple(A._raw_index(k) for k in _embed(s, i, j))), cval))

    return body


def _end_to_end_concrete(sigma, shapes):
    def body(c, inp):
        for s, nx, ny, combo in shapes:
            lab = f"s{s}_{nx}x{ny}_{_combo_label(combo)}"
            inp.note("cfg", {"sigma": sigma, "singleton_axis": s, "padding_given": list(combo), "nx": nx, "ny": ny})
            sh = _shape3(s, nx, ny)
            x, y = A.fresh_array("x", sh), A.fresh_array("y", sh)
            pads = _fresh_pads(combo, nx, ny)
            t = sym_real("t")
            S = lambda pp, xx: A.asarray(_transform(sigma, pp)({"p": xx})["p"])  # noqa: E731
            ox, oy, om = S(pads, x), S(pads, y), S(pads, x * t + y * (1 - t))
            if not prove_same_shape(f"E/{lab}/shape", ox, x):
                continue
            prove_arrays_equal(f"E/{lab}/affine", om, ox * t + oy * (1 - t))
            for ax in (0, 1):
                xm, pm = _mirror_inputs(ax, x, s, pads)
                ax3 = [k for k in range(3) if k != s][ax]
                prove_arrays_equal(f"E/{lab}/mirror{ax}", S(pm, xm), A.flip(ox, axis=ax3))
            cv = sym_real("c")
            pc = [A.full((ny if k < 2 else nx,), cv, "real") if g else None for k, g in enumerate(combo)]
            prove_pointwise(f"E/{lab}/constant", S(pc, A.full(sh, cv, "real")), lambda v, idx: v_eq(v, cv))

    return body


# ---------------------------------------------------------------------------------------
# bounded: the convolve contract against the real jax function
# ---------------------------------------------------------------------------------------


def _shim_vs_real(seed):
    def body(c, inp):
        import jax.scipy.signal as jss
        import numpy as np

        rng = np.random.default_rng(seed)
        cases = [((7, 7), (7, 7)), ((8, 9), (7, 7)), ((9, 8), (3, 5)), ((13, 15), (13, 13)), ((14, 13), (13, 13)), ((5, 4), (1, 3)), ((19, 20), (19, 19))]
        for (n0, n1), (k0, k1) in cases:
            a = rng.normal(size=(n0, n1))
            k = rng.normal(size=(k0, k1))
            mine = _conv_same(A.asarray(a), A.asarray(k), mode="same")
            got = np.array([[float(mine.at_index((i, j))) for j in range(n1)] for i in range(n0)])
            for nm, f in (("convolve", jss.convolve), ("convolve2d", jss.convolve2d)):
                ref = np.asarray(f(a, k, mode="same"))
                err = float(np.max(np.abs(ref - got))) if ref.shape == got.shape else float("inf")
                c.bounded(f"shim_vs_real/{nm}", err < 1e-9, case={"in1": [n0, n1], "in2": [k0, k1], "fn": nm}, witness={"max_abs_err": err})

    return body


# ---------------------------------------------------------------------------------------
# tasks
# ---------------------------------------------------------------------------------------

ALL_COMBOS = list(itertools.product((False, True), repeat=4))
# quick-tier subset for sigma = 2 (the padding code does not depend on sigma beyond the pad width): none, all,
# each axis alone, crosswise pairs, single arrays
HALF_COMBOS = [c for c in ALL_COMBOS if _combo_label(c) in ("nnnn", "AAAA", "AAnn", "nnAA", "AnnA", "nAAn", "Annn", "nnnA")]


def _no_exception(c, e):
    # inside the stated domain (exactly one singleton axis, documented padding shapes) the transform must not raise
    c.prove(f"no_exception_in_domain({type(e).__name__})", False)


def tasks(tier, seed):
    out = {}
    sigmas = (1, 2, 3) if tier == "thorough" else (1, 2)
    kpatch = _patches(exp_uf=True)
    for sg in sigmas:
        out[f"K/sigma{sg}"] = Task(_lemma_K(sg), extra_patch=kpatch, on_exception=_no_exception)
        for s in range(3):
            # sigma 3 (19x19 kernel) is the expensive member of the thorough tier: half of the padding combinations
            for combo in ALL_COMBOS if ((tier == "thorough" and sg < 3) or sg == 1) else HALF_COMBOS:
                out[f"P/sigma{sg}/s{s}/{_combo_label(combo)}"] = Task(_lemma_P(sg, s, combo), extra_patch=kpatch, max_paths=64, on_exception=_no_exception)
        for which in ("linear", "const", "range_lo", "range_hi", "mirror0", "mirror1"):
            out[f"C/sigma{sg}/{which}"] = Task(_lemma_C(sg, which), extra_patch=kpatch, on_exception=_no_exception)
    # end to end
    for sg in sigmas:
        for s in range(3):
            for combo in ALL_COMBOS if (tier == "thorough" and sg < 3) else HALF_COMBOS if sg == 1 else [ALL_COMBOS[0], ALL_COMBOS[-1], ALL_COMBOS[5]]:
                out[f"E/sym/sigma{sg}/s{s}/{_combo_label(combo)}"] = Task(_end_to_end_symbolic(sg, s, combo), extra_patch=kpatch, max_paths=64, on_exception=_no_exception)
    small = []
    dims = [(2, 3), (4, 2)] if tier == "quick" else [(2, 2), (2, 3), (3, 2), (3, 3), (4, 3), (2, 5), (7, 2), (5, 6)]
    k = 0
    for nx, ny in dims:
        for combo in ALL_COMBOS if tier == "thorough" else HALF_COMBOS if (nx, ny) == dims[0] else HALF_COMBOS[:4]:
            small.append((k % 3, nx, ny, combo))
            k += 1
    chunk = 8 if tier == "thorough" else 3
    for sg in (1,) if tier == "quick" else (1, 2):
        for g in range(0, len(small), chunk):
            out[f"E/concrete/sigma{sg}/{g // chunk:02d}"] = Task(_end_to_end_concrete(sg, small[g : g + chunk]), extra_patch=kpatch, on_exception=_no_exception)
    out["convolve_shim_vs_real_jax"] = Task(_shim_vs_real(seed), modules=[], bounded=True)
    return out


# ---------------------------------------------------------------------------------------
# replay
# ---------------------------------------------------------------------------------------


def _reference(x2, pads, sigma, p):
    """numpy reference of the documented behaviour (independent of the repository code); p = kernel radius"""
    import numpy as np

    nx, ny = x2.shape
    lo0, hi0, lo1, hi1 = pads
    P = np.zeros((nx + 2 * p, ny + 2 * p))
    for I in range(nx + 2 * p):
        for J in range(ny + 2 * p):
            i, j = I - p, J - p
            ic = min(max(i, 0), nx - 1)

            def rows(i, j):
                if i < 0:
                    return lo0[j] if lo0 is not None else x2[0, j]
                if i >= nx:
                    return hi0[j] if hi0 is not None else x2[nx - 1, j]
                return x2[i, j]

            if j < 0:
                P[I, J] = lo1[ic] if lo1 is not None else rows(i, 0)
            elif j >= ny:
                P[I, J] = hi1[ic] if hi1 is not None else rows(i, ny - 1)
            else:
                P[I, J] = rows(i, j)
    r = np.arange(-p, p + 1)
    w = np.exp(-(r[:, None] ** 2 + r[None, :] ** 2) / (2.0 * sigma**2))
    w = w / w.sum()
    out = np.zeros((nx, ny))
    for i in range(nx):
        for j in range(ny):
            out[i, j] = float(np.sum(w * P[i : i + 2 * p + 1, j : j + 2 * p + 1]))
    return out


def replay(key, obligation, witness):
    """real GaussianSmoothing2D under real JAX (float64) on the witness configuration: compares with a
    numpy reference of the documented behaviour and evaluates the four property clauses"""
    import re

    import jax.numpy as jnp
    import numpy as np

    cfg = ((witness or {}).get("notes") or {}).get("cfg") or {}
    m = re.search(r"sigma(\d)", key)
    sigma = int(cfg.get("sigma", m.group(1) if m else 1))
    try:
        size, sig_arg = _discover(sigma, probe=jnp.zeros((4, 3, 1)))
    except Exception as e:  # noqa: BLE001
        return True, f"real _apply_smoothing does not call the kernel builder as expected: {e}"
    if key.startswith("K/") or key.startswith("C/"):
        # kernel facts on the real kernel
        K = np.asarray(_transform(sigma, (None,) * 4)._create_gaussian_kernel(size, sig_arg))
        bad = []
        if K.shape != (size,) * 2:
            bad.append(f"shape {K.shape}")
        else:
            if abs(K.sum() - 1) > 1e-12:
                bad.append(f"sum {K.sum()}")
            if K.min() < 0:
                bad.append(f"min {K.min()}")
            if np.max(np.abs(K - K[::-1, :])) > 1e-15 or np.max(np.abs(K - K[:, ::-1])) > 1e-15:
                bad.append("not reflection symmetric")
        if key.startswith("K/") or bad:
            return bool(bad), f"real kernel sigma={sigma}: {bad or 'positive, normalised, symmetric'}"
    rng = np.random.default_rng(0)
    combos = [tuple(cfg["padding_given"])] if "padding_given" in cfg else ALL_COMBOS
    ss = [cfg["singleton_axis"]] if "singleton_axis" in cfg else [0, 1, 2]
    sc = (witness or {}).get("scalars", {})
    dims = []
    if isinstance(sc.get("nx"), int) and isinstance(sc.get("ny"), int) and 2 <= sc["nx"] <= 12 and 2 <= sc["ny"] <= 12:
        dims.append((sc["nx"], sc["ny"]))
    if "nx" in cfg:
        dims.append((cfg["nx"], cfg["ny"]))
    dims += [(2, 3), (5, 4), (9, 8)]
    details = []
    for combo in combos:
        for s in ss:
            for nx, ny in dims:
                x2 = rng.uniform(0, 1, size=(nx, ny))
                y2 = rng.uniform(0, 1, size=(nx, ny))
                pads = [rng.uniform(0, 1, size=(ny if k < 2 else nx,)) if g else None for k, g in enumerate(combo)]
                to3 = lambda a: np.expand_dims(a, s)  # noqa: E731
                jp = lambda pp: [None if a is None else jnp.asarray(a) for a in pp]  # noqa: E731
                S = lambda pp, a: np.asarray(_transform(sigma, jp(pp))({"p": jnp.asarray(to3(a))})["p"])  # noqa: E731
                try:
                    o = S(pads, x2)
                except Exception as e:  # noqa: BLE001
                    return True, f"sigma={sigma} s={s} shape={(nx, ny)} padding={combo}: real code raised {type(e).__name__}: {e}"
                if o.shape != to3(x2).shape:
                    return True, f"sigma={sigma} s={s} shape={(nx, ny)} padding={combo}: output shape {o.shape}"
                o2 = np.squeeze(o, s)
                errs = {"documented_behaviour": float(np.max(np.abs(o2 - _reference(x2, pads, sigma, size // 2))))}
                t = 0.3
                errs["affine"] = float(np.max(np.abs(S(pads, t * x2 + (1 - t) * y2) - (t * o + (1 - t) * S(pads, y2)))))
                cpads = [None if a is None else np.full_like(a, 0.7) for a in pads]
                errs["constant"] = float(np.max(np.abs(S(cpads, np.full((nx, ny), 0.7)) - 0.7)))
                allv = np.concatenate([x2.ravel()] + [a for a in pads if a is not None])
                errs["range"] = float(max(0.0, allv.min() - o.min(), o.max() - allv.max()))
                lo0, hi0, lo1, hi1 = pads
                r = lambda a: None if a is None else a[::-1]  # noqa: E731
                errs["mirror0"] = float(np.max(np.abs(np.squeeze(S([hi0, lo0, r(lo1), r(hi1)], x2[::-1, :]), s) - o2[::-1, :])))
                errs["mirror1"] = float(np.max(np.abs(np.squeeze(S([r(lo0), r(hi0), hi1, lo1], x2[:, ::-1]), s) - o2[:, ::-1])))
                bad = {k: v for k, v in errs.items() if v > 1e-9}
                details.append(f"sigma={sigma} s={s} shape={(nx, ny)} padding={_combo_label(combo)}: {errs}")
                if bad:
                    return True, f"sigma={sigma} singleton axis {s} design {(nx, ny)} padding given={combo}: real GaussianSmoothing2D deviates: {bad}"
    return False, "\n".join(details[:5])
