"""C37  Grid geometry helpers are exact.

Contracts (RectilinearGrid with strictly increasing edge arrays e_a[0..n_a], a in {x,y,z}):

  __post_init__ (class invariant, established by the real constructor)
      raises ValueError            iff some axis is not strictly increasing
      _cell_widths[a][i]           == e_a[i+1] - e_a[i]
      _min_spacings[a]             == min_i widths_a[i]
      _is_uniform                  <=> for all a, i: |w_a[i] - s| <= 1e-4*|s| + 8*eps*max_j|e_a[j]|, s = w_x[0]
                                       (eps = machine epsilon of the edge dtype; float64 and float32 enumerated)
      _uniform_spacing             == round(s, 14 decimals) if uniform else None
  coord_to_index(axis, c, snap)
      nearest: k in [0,n],  for all j: |e[k]-c| <= |e[j]-c|
      lower:   k in [-1,n], for all j: e[j] <= c  <=>  j <= k      (last edge not above c)
      upper:   i in [0,n+1],for all j: e[j] <  c  <=>  j <  i      (first edge not below c)
  length_to_cell_count(axis, L, snap)   == the snap spec at the coordinate e[0] + L;  ValueError iff L < 0
  bounds_for_center(axis, c, size)      -> (lo, lo+size), 0 <= lo, lo+size <= n, and for every admissible lo':
                                           |mid(lo) - c| <= |mid(lo') - c|;  ValueError iff size <= 0 or size > n
  bounds_for_anchor(axis, size, a, p)   -> same with anchor(lo) = e[lo] + (p+1)/2 * (e[lo+size] - e[lo])
  anchor_coordinate, axis_extent, slice_extent, centers, face_area, cell_volume, shape, min_spacing:
                                           the stated expressions in the edges (pointwise)
  cfl_time_step(cf)                     -> dt > 0 and (c0*dt)^2 * sum_a 1/dmin_a^2 <= cf^2   (CFL bound with factor cf)
  reduce_symmetric(sym)                 -> edges_a[n_a/2:] on symmetric axes, unchanged otherwise;
                                           ValueError iff a symmetric axis has odd/<2 cells or widths not
                                           mirror symmetric within rtol 1e-4

The method contracts are proved on the REAL methods for SYMBOLIC cell counts, edge values, coordinates,
sizes and positions; numpy's argmin/searchsorted over a symbolic-length array enter through their
documented contracts (spec/C37_np.py).  The same obligations are proved again for concrete cell counts
1..3 with the exact (contract-free) shim semantics of argmin/searchsorted.  The constructor and
reduce_symmetric are executed for enumerated small cell counts with symbolic edge values.
"""

from __future__ import annotations

import itertools

import z3

from spec import C37_np as NP
from vc import array as A
from vc.array import SymArray
from vc.core import SymBool, SymNum, _is_pyint, ctx, to_z3_int, zbool
from vc.harness import Task
from vc.obl import prove_arrays_equal, sym_int, sym_real

ID = "C37"
LEVEL = "proof"
TECHNIQUE = "symbolic execution of the real RectilinearGrid methods on symbolic strictly increasing edge arrays (symbolic cell counts; numpy argmin/searchsorted via their contracts, and again exactly for concrete counts 1..3); z3"
MODULES = ["fdtdx.core.grid"]
FILES = ["src/fdtdx/core/grid.py", "src/fdtdx/config.py", "src/fdtdx/core/misc.py", "src/fdtdx/core/axis.py"]
FUNCTIONS = [
    "fdtdx.core.grid.RectilinearGrid.__post_init__",
    "fdtdx.core.grid.RectilinearGrid.coord_to_index",
    "fdtdx.core.grid.RectilinearGrid.length_to_cell_count",
    "fdtdx.core.grid.RectilinearGrid.bounds_for_center",
    "fdtdx.core.grid.RectilinearGrid.bounds_for_anchor",
    "fdtdx.core.grid.RectilinearGrid.anchor_coordinate",
    "fdtdx.core.grid.RectilinearGrid.axis_extent / slice_extent",
    "fdtdx.core.grid.RectilinearGrid.centers",
    "fdtdx.core.grid.RectilinearGrid.face_area",
    "fdtdx.core.grid.RectilinearGrid.cell_volume",
    "fdtdx.core.grid.RectilinearGrid.cfl_time_step",
    "fdtdx.core.grid.RectilinearGrid.reduce_symmetric",
    "fdtdx.core.grid.RectilinearGrid.shape / min_spacing / min_spacings / is_uniform / uniform_spacing",
    "fdtdx.config.SimulationConfig.time_step_duration / has_nonuniform_grid / uniform_spacing (RectilinearGrid branch)",
]
INLINED = ["RectilinearGrid.edges / cell_widths / dx / dy / dz", "fdtdx.core.axis.get_transverse_axes", "fdtdx.core.misc.validate_symmetric_axis_cells", "RectilinearGrid.custom"]
STUBS = [
    "numpy.argmin over a symbolic-length array: result k in range, a[k] <= a[j] for all j, a[k] < a[j] for j < k (numpy documentation); exact semantics for concrete lengths",
    "numpy.searchsorted(a, v, side) over a symbolic-length sorted array: left: a[j] < v <=> j < i; right: a[j] <= v <=> j < i (numpy documentation); exact semantics for concrete lengths",
    "numpy.sqrt: exact real square root (sqrt(x) >= 0, sqrt(x)^2 == x)",
    "numpy.round(x, decimals=14): an unspecified deterministic function of x",
    "numpy.finfo(dtype).eps: the machine epsilon of float64 resp. float32 (both enumerated for the constructor)",
]
ASSUMPTIONS = [
    "edge arrays are strictly increasing with at least two entries (class invariant; the constructor is proved to reject anything else for the enumerated sizes)",
    "enumerated finite classes: axis in {0,1,2}; snap in {nearest,lower,upper}; exact-semantics runs at cell counts 1..3 (thorough: ..5) with every interval size 0..n+1 and anchor positions {-1,0,1,0.25}; constructor at the cell-count triples listed in coverage.explanation with float64/float32 epsilon; reduce_symmetric at the (cell counts, symmetry) pairs listed there",
    "method contracts for symbolic cell counts assume the constructor's postconditions (_cell_widths == diff(edges), _min_spacings > 0); those postconditions are proved by executing the real constructor for cell counts (nx,ny,nz) in the listed enumerated set only (values symbolic)",
    "CFL obligation for a grid flagged uniform is proved under exact uniformity (every per-axis minimum width equals the stored uniform spacing): the flag tolerates 1e-4 relative width variation and the stored spacing is rounded to 14 decimals, so for nearly-uniform grids dt can exceed cf*dt_CFL by that relative amount; this is treated as 'up to round-off' and not claimed",
    "coordinates outside the edge range: 'lower' returns -1 / 'upper' returns n+1 (no such edge); the contract states the result as a count, it does not require an in-range index",
    "ties between equally near edges/intervals: any minimiser satisfies the contract (numpy returns the first)",
]
MIN_OBLIGATIONS = {"quick": 1700, "thorough": 3500}
LEVEL_TEXT = "Deductive proof, for all cell counts, edge values, coordinates, sizes and positions, that the real RectilinearGrid snapping / interval / extent / area / volume / time-step methods meet their contracts; constructor (uniform detection, widths, minima) and symmetric reduction proved for all edge values at enumerated small cell counts"
LEVEL_NOTE = "real arithmetic; numpy argmin/searchsorted enter by contract for symbolic lengths; constructor and reduce_symmetric size-bounded (values unbounded); uniform-branch CFL under exact uniformity"
AXIOMS = NP.AXIOMS
EXPLANATION = (
    "Six worker jobs bundle the member sessions (obligation names are '<member>:<clause>'). Members: per axis 0..2 -- "
    "coord_to_index x {nearest,lower,upper}, length_to_cell_count x 3 snaps, bounds_for_center, bounds_for_anchor, "
    "anchor/extent/centers, face_area with SYMBOLIC cell counts ('sym'); the same snapping/interval members with exact numpy "
    "semantics at cell-count triples (1,2,3),(2,3,1),(3,1,2) rotated so the tested axis has 1,2,3 cells (thorough: also 4,2,5 / 5,4,2 / 2,5,4), "
    "interval sizes 0..n+1, anchor positions -1,0,1,0.25; slice_extent/shape/min_spacing and cell_volume (sym); face_area+cell_volume on "
    "concrete grids (2,3,1),(3,1,2),(1,2,3); cfl_time_step branches nonuniform/uniform/flag_without_spacing; constructor at (1,1,1),(2,1,3),"
    "(1,3,2),(3,2,1),(2,2,2) [float64 eps; float32 too for the first two] (+4 shapes and float32 everywhere in thorough), unconstrained-edge constructor at (1,1,1),(2,1,2); "
    "reduce_symmetric at 8 (cell counts, symmetry) pairs (+4 in thorough)."
)

GRID = "fdtdx.core.grid"
PATCH_NAMES = ("jnp", "jax", "math", "isinstance", "float", "int")


def _patch():
    return {GRID: {"np": NP.make_np()}, "fdtdx.config": {"math": NP.make_math()}}


def _task(body, **kw):
    """one Task (= one worker job) for a member session"""
    kw.setdefault("max_paths", 64)
    return Task(_quick_fail(body), modules=[GRID, "fdtdx.config"], extra_patch=_patch(), patch_names=PATCH_NAMES, **kw)


def group_task(members, modules=None):
    """Bundle many small member sessions into ONE harness task (one worker process: the sessions take
    milliseconds each, starting a process costs seconds).  Every member is explored by its own nested
    `Session.run` on the harness session, i.e. with its own contexts, decision tree and exception
    handler; its obligations are recorded under '<member key>:<obligation>'.

    members: list of (key, body(c, inp), on_exception(c, exc))"""
    import os
    import re

    only = os.environ.get("VERIF_MEMBER_ONLY")  # development aid: run a subset of the members
    if only:
        members = [m for m in members if re.search(only, m[0])]

    def body(c, inp):
        import vc.core as core
        from vc.harness import Inputs

        sess = c.session
        try:
            # the harness pins worker k to CPU k (good for long sessions that churn memory); these
            # sessions are short, and several checks running at once would all queue on the first CPUs
            os.sched_setaffinity(0, set(range(os.cpu_count() or 1)))
        except Exception:  # noqa: BLE001
            pass
        for key, sub, on_exc in members:
            run = _quick_fail(sub)

            def prefixed(cc, key=key):
                orig = cc.prove
                cc.prove = lambda name, goal, *a, _o=orig, **k: _o(f"{key}:{name}", goal, *a, **k)
                return cc

            def member_body(cc, run=run, key=key):
                cc.inputs = Inputs()
                cc.inputs.note("member", key)
                run(prefixed(cc), cc.inputs)

            def member_exc(cc, exc, on_exc=on_exc):
                on_exc(cc, exc)

            try:
                sess.run(member_body, on_exception=member_exc)
            finally:
                core._CTX[0] = c

    return Task(body, modules=modules or [GRID, "fdtdx.config"], extra_patch=_patch(), patch_names=PATCH_NAMES, max_paths=64 * max(1, len(members)))


def _quick_fail(body):
    """Every obligation of this property is decided in milliseconds on a conforming tree.  Shorter
    solver budgets only make a NON-conforming tree fail faster ('unknown' stays undecided, it is never
    counted as discharged)."""

    def run(c, inp):
        import vc.core as core

        core.Z3_TIMEOUT_MS = min(core.Z3_TIMEOUT_MS, 6000)
        core.CVC5_TIMEOUT_MS = min(core.CVC5_TIMEOUT_MS, 6000)
        return body(c, inp)

    return run


# ---------------------------------------------------------------------------------------
# symbolic grids
# ---------------------------------------------------------------------------------------


def strip_dead_ite(t):
    """Index terms produced by numpy's negative-index wrap look like If(k < 0, k + n, k).  Where the
    condition is decided by the current assumptions the term is replaced by the live branch (an equal
    term), so that e(k) is literally e(k) on both sides of an obligation and products with it need no
    non-linear reasoning."""
    if not z3.is_app(t) or t.num_args() == 0:
        return t
    if z3.is_app_of(t, z3.Z3_OP_ITE):
        cond = t.arg(0)
        if ctx().implied(cond):
            return strip_dead_ite(t.arg(1))
        if ctx().implied(z3.Not(cond)):
            return strip_dead_ite(t.arg(2))
    kids = t.children()
    new = [strip_dead_ite(k) for k in kids]
    if all(a.eq(b) for a, b in zip(kids, new)):
        return t
    return z3.simplify(t.decl()(*new))


def inc_edges(name, length, increasing=True):
    """fresh edge array e[0..length-1]; strictly increasing (adjacent-pair facts instantiated at every
    index the array is read at)"""
    c = ctx()
    ef = z3.Function(c.fresh_name(name), z3.IntSort(), z3.RealSort())

    def fn(idx):
        i = strip_dead_ite(to_z3_int(idx[0]))
        if increasing:
            cc = ctx()
            cc.assume(ef(i) < ef(z3.simplify(i + 1)))
            cc.assume(ef(z3.simplify(i - 1)) < ef(i))
        return SymNum(ef(i))

    arr = SymArray((length,), fn, "real")
    arr._z3funcs = (ef,)
    # side-effect-free view for witness extraction (at most the first 64 entries of a long axis)
    from vc.core import ite

    vlen = length if _is_pyint(length) else ite(length <= 64, length, 64)
    arr.witness_view = SymArray((vlen,), lambda idx: SymNum(ef(to_z3_int(idx[0]))), "real", memo=False)
    arr.witness_view._z3funcs = (ef,)
    return arr


def widths_of(e):
    n = e.shape[0] - 1
    return SymArray((n,), lambda idx: e.at_index((A._raw_index(A._wrap_idx(idx[0]) + 1),)) - e.at_index((idx[0],)), "real")


def grid_shape(mode, inp):
    """mode 'sym' -> three symbolic cell counts >= 1; tuple -> concrete"""
    if mode == "sym":
        ns = tuple(sym_int(f"n{a}", lo=1) for a in range(3))
    else:
        ns = tuple(mode)
    for a, n in enumerate(ns):
        inp.scalar(f"n{a}", n)
    return ns


def make_grid(ns, inp, is_uniform=False, uniform_spacing=None):
    """RectilinearGrid instance satisfying the constructor's postconditions, without running it"""
    from fdtdx.core.grid import RectilinearGrid

    g = object.__new__(RectilinearGrid)
    es = [inc_edges(f"e{a}", n + 1) for a, n in enumerate(ns)]
    for a, e in enumerate(es):
        inp.array(f"e{a}", e.witness_view, default=None)
    ctx()._c37_edges = es
    ws = tuple(widths_of(e) for e in es)
    ms = tuple(sym_real(f"dmin{a}", lo_strict=0) for a in range(3))
    for a, m in enumerate(ms):
        inp.scalar(f"dmin{a}", m)
    g.__dict__.update(x_edges=es[0], y_edges=es[1], z_edges=es[2], _cell_widths=ws, _min_spacings=ms, _is_uniform=is_uniform, _uniform_spacing=uniform_spacing)
    return g, es, ws, ms


def generic(lo, hi, tag="j"):
    """the index set lo <= j < hi: enumerated when concrete, one generic in-range index otherwise"""
    if _is_pyint(lo) and _is_pyint(hi):
        return [(j, []) for j in range(lo, hi)]
    # generic in-range index: its range is ASSUMED (fresh variable; the range is non-empty wherever this is
    # called, which the vacuity guard below re-checks), so that index terms built from it normalise
    j = SymNum(ctx().fresh_int(tag))
    ctx().assume(zbool(A._vand(j >= lo, j < hi)))
    ctx().cover(f"generic_index_range_nonempty[{tag}]")
    return [(j, [])]


def at(e, j):
    return e.at_index((A._raw_index(j),))


def lbl(j):
    return str(j) if _is_pyint(j) else ":"


def vabs(x):
    return abs(x)


def _is_value_error(e):
    return isinstance(e, ValueError)


# ---------------------------------------------------------------------------------------
# method contracts
# ---------------------------------------------------------------------------------------


def _coord_to_index(mode, axis, snap):
    def body(c, inp):
        ns = grid_shape(mode, inp)
        g, es, ws, ms = make_grid(ns, inp)
        e, n = es[axis], ns[axis]
        coord = inp.scalar("coord", sym_real("coord"))
        inp.note("call", {"method": "coord_to_index", "axis": axis, "snap": snap})
        c.cover("pre")
        k = g.coord_to_index(axis, coord, snap=snap)
        _snap_post(c, f"coord_to_index[{snap}]", e, n, coord, k, snap)

    return body


def _snap_post(c, name, e, n, coord, k, snap):
    if snap == "nearest":
        c.prove(f"{name}/post:index_in_range", A._vand(k >= 0, k <= n))
        ek = at(e, k)
        for j, hy in generic(0, n + 1):
            NP.instantiate_contracts(j)
            c.prove(f"{name}/post:no_edge_nearer[{lbl(j)}]", vabs(ek - coord) <= vabs(at(e, j) - coord), extra_hyps=hy)
    elif snap == "lower":
        c.prove(f"{name}/post:result_in_range", A._vand(k >= -1, k <= n))
        for j, hy in generic(0, n + 1):
            NP.instantiate_contracts(j)
            jj = j if isinstance(j, SymNum) else j
            c.prove(f"{name}/post:edge_j<=coord_iff_j<=k[{lbl(j)}]", zbool(at(e, j) <= coord) == zbool(jj <= k), extra_hyps=hy)
    elif snap == "upper":
        c.prove(f"{name}/post:result_in_range", A._vand(k >= 0, k <= n + 1))
        for j, hy in generic(0, n + 1):
            NP.instantiate_contracts(j)
            c.prove(f"{name}/post:edge_j<coord_iff_j<k[{lbl(j)}]", zbool(at(e, j) < coord) == zbool(j < k), extra_hyps=hy)
    else:
        raise AssertionError(snap)


def _coord_to_index_bad_snap(c, inp):
    ns = grid_shape((2, 3, 1), inp)
    g, es, ws, ms = make_grid(ns, inp)
    try:
        g.coord_to_index(0, sym_real("coord"), snap="closest")
    except ValueError:
        c.prove("coord_to_index/unknown_snap_raises_ValueError", True)
        return
    c.prove("coord_to_index/unknown_snap_raises_ValueError", False)


def _length_to_cell_count(mode, axis, snap):
    def body(c, inp):
        ns = grid_shape(mode, inp)
        g, es, ws, ms = make_grid(ns, inp)
        e, n = es[axis], ns[axis]
        length = inp.scalar("length", sym_real("length"))
        inp.note("call", {"method": "length_to_cell_count", "axis": axis, "snap": snap})
        c.cover("pre")
        k = g.length_to_cell_count(axis, length, snap=snap)
        c.prove("length_to_cell_count/returns_only_for_nonnegative_length", length >= 0)
        _snap_post(c, f"length_to_cell_count[{snap}]", e, n, at(e, 0) + length, k, snap)

    def on_exc(c, exc):
        length = c.inputs.scalars["length"]
        c.prove("length_to_cell_count/raises_only_ValueError_for_negative_length", A._vand(_is_value_error(exc), length < 0))

    return body, on_exc


def _interval_inputs(mode, axis, inp, sizes=None):
    ns = grid_shape(mode, inp)
    g, es, ws, ms = make_grid(ns, inp)
    e, n = es[axis], ns[axis]
    return ns, g, e, n


def _bounds_for_center(mode, axis, size=None):
    def body(c, inp):
        ns, g, e, n = _interval_inputs(mode, axis, inp)
        sz = inp.scalar("size", sym_int("size") if size is None else size)
        center = inp.scalar("center", sym_real("center"))
        inp.note("call", {"method": "bounds_for_center", "axis": axis})
        c.cover("pre")
        lo, hi = g.bounds_for_center(axis, center, sz)
        c.prove("bounds_for_center/returns_only_for_admissible_size", A._vand(sz >= 1, sz <= n))
        c.prove("bounds_for_center/post:size_preserved", hi - lo == sz)
        c.prove("bounds_for_center/post:interval_inside_grid", A._vand(lo >= 0, hi <= n))
        mid = 0.5 * (at(e, lo) + at(e, hi))
        for j, hy in generic(0, n - sz + 1, "lo'"):
            NP.instantiate_contracts(j)
            other = 0.5 * (at(e, j) + at(e, j + sz))
            c.prove(f"bounds_for_center/post:no_admissible_interval_centre_nearer[{lbl(j)}]", vabs(mid - center) <= vabs(other - center), extra_hyps=hy)

    def on_exc(c, exc):
        sz = c.inputs.scalars["size"]
        n = c.inputs.scalars[f"n{axis}"]
        c.prove("bounds_for_center/raises_only_ValueError_for_inadmissible_size", A._vand(_is_value_error(exc), A._vor(sz <= 0, sz > n)))

    return body, on_exc


def _anchor(e, lo, hi, position):
    """documented anchor convention: -1 lower side, 0 centre, +1 upper side, linear in between"""
    return at(e, lo) + (position + 1) / 2 * (at(e, hi) - at(e, lo))


def _bounds_for_anchor(mode, axis, size=None, position=None):
    def body(c, inp):
        ns, g, e, n = _interval_inputs(mode, axis, inp)
        sz = inp.scalar("size", sym_int("size") if size is None else size)
        anchor = inp.scalar("anchor", sym_real("anchor"))
        pos = inp.scalar("position", sym_real("position") if position is None else position)
        inp.note("call", {"method": "bounds_for_anchor", "axis": axis})
        c.cover("pre")
        lo, hi = g.bounds_for_anchor(axis, sz, anchor, pos)
        c.prove("bounds_for_anchor/returns_only_for_admissible_size", A._vand(sz >= 1, sz <= n))
        c.prove("bounds_for_anchor/post:size_preserved", hi - lo == sz)
        c.prove("bounds_for_anchor/post:interval_inside_grid", A._vand(lo >= 0, hi <= n))
        mine = _anchor(e, lo, hi, pos)
        for j, hy in generic(0, n - sz + 1, "lo'"):
            NP.instantiate_contracts(j)
            other = _anchor(e, j, j + sz, pos)
            c.prove(f"bounds_for_anchor/post:no_admissible_interval_anchor_nearer[{lbl(j)}]", vabs(mine - anchor) <= vabs(other - anchor), extra_hyps=hy)

    def on_exc(c, exc):
        sz = c.inputs.scalars["size"]
        n = c.inputs.scalars[f"n{axis}"]
        c.prove("bounds_for_anchor/raises_only_ValueError_for_inadmissible_size", A._vand(_is_value_error(exc), A._vor(sz <= 0, sz > n)))

    return body, on_exc


def _sym_bounds(name, n, inp, nonempty=False):
    lo = inp.scalar(f"{name}lo", sym_int(f"{name}lo", lo=0))
    hi = inp.scalar(f"{name}hi", sym_int(f"{name}hi"))
    ctx().assume(zbool((lo < hi) if nonempty else (lo <= hi)))
    ctx().assume(zbool(hi <= n))
    return lo, hi


def _anchor_and_extent(mode, axis):
    def body(c, inp):
        ns = grid_shape(mode, inp)
        g, es, ws, ms = make_grid(ns, inp)
        e, n = es[axis], ns[axis]
        lo, hi = _sym_bounds("b", n, inp)
        pos = inp.scalar("position", sym_real("position"))
        inp.note("call", {"method": "anchor_coordinate/axis_extent", "axis": axis})
        c.cover("pre")
        got = g.anchor_coordinate(axis, (lo, hi), pos)
        c.prove("anchor_coordinate/post:linear_between_lower_and_upper_edge", got == _anchor(e, lo, hi, pos))
        c.prove("anchor_coordinate/post:position=-1_is_lower_edge", g.anchor_coordinate(axis, (lo, hi), -1.0) == at(e, lo))
        c.prove("anchor_coordinate/post:position=0_is_centre", g.anchor_coordinate(axis, (lo, hi), 0.0) == (at(e, lo) + at(e, hi)) / 2)
        c.prove("anchor_coordinate/post:position=+1_is_upper_edge", g.anchor_coordinate(axis, (lo, hi), 1.0) == at(e, hi))
        c.prove("axis_extent/post:edge_difference", g.axis_extent(axis, (lo, hi)) == at(e, hi) - at(e, lo))
        c.prove("axis_extent/post:nonnegative", g.axis_extent(axis, (lo, hi)) >= 0, extra_hyps=[zbool(hi == lo + 1)])
        # extent of one cell is that cell's width; extents add up over adjacent intervals
        mid = inp.scalar("bmid", sym_int("bmid"))
        ctx().assume(zbool(A._vand(lo <= mid, mid <= hi)))
        c.prove("axis_extent/post:additive", g.axis_extent(axis, (lo, mid)) + g.axis_extent(axis, (mid, hi)) == g.axis_extent(axis, (lo, hi)))
        for j, hy in generic(0, n, "cell"):
            c.prove(f"axis_extent/post:single_cell_is_cell_width[{lbl(j)}]", g.axis_extent(axis, (j, j + 1)) == at(g.cell_widths(axis), j), extra_hyps=hy)
            c.prove(f"centers/post:midpoint_of_cell_edges[{lbl(j)}]", at(g.centers(axis), j) == (at(e, j) + at(e, j + 1)) / 2, extra_hyps=hy)
            c.prove(f"cell_widths/positive[{lbl(j)}]", at(g.cell_widths(axis), j) > 0, extra_hyps=hy)
        c.prove("centers/post:one_per_cell", g.centers(axis).shape[0] == n)
        c.prove("edges/post:axis_selects_its_own_array", g.edges(axis) is es[axis])
        c.prove("cell_widths/post:axis_selects_its_own_array", g.cell_widths(axis) is ws[axis])

    return body


def _slice_extent_shape(mode):
    def body(c, inp):
        ns = grid_shape(mode, inp)
        g, es, ws, ms = make_grid(ns, inp)
        bs = [_sym_bounds(f"s{a}", ns[a], inp) for a in range(3)]
        inp.note("call", {"method": "slice_extent"})
        c.cover("pre")
        ext = g.slice_extent(tuple(bs))
        c.prove("slice_extent/post:three_axes", len(ext) == 3)
        for a in range(3):
            c.prove(f"slice_extent/post:axis{a}_edge_difference", ext[a] == at(es[a], bs[a][1]) - at(es[a], bs[a][0]))
        shp = g.shape
        for a in range(3):
            c.prove(f"shape/post:axis{a}_is_edge_count_minus_one", shp[a] == ns[a])
        c.prove("dx_dy_dz/post:are_the_axis_widths", g.dx is ws[0] and g.dy is ws[1] and g.dz is ws[2])
        m = g.min_spacing
        for a in range(3):
            c.prove(f"min_spacing/post:not_above_axis{a}_minimum", m <= ms[a])
        c.prove("min_spacing/post:attained", A._vor(A._vor(m == ms[0], m == ms[1]), m == ms[2]))
        c.prove("min_spacings/post:per_axis", len(g.min_spacings) == 3 and all(x is y for x, y in zip(g.min_spacings, ms)))

    return body


def _face_area(mode, axis):
    def body(c, inp):
        ns = grid_shape(mode, inp)
        g, es, ws, ms = make_grid(ns, inp)
        bs = [_sym_bounds(f"s{a}", ns[a], inp, nonempty=True) for a in range(3)]
        inp.note("call", {"method": "face_area", "axis": axis})
        c.cover("pre")
        out = g.face_area(axis, tuple(bs))
        t0, t1 = [a for a in range(3) if a != axis]
        want_shape = [None, None, None]
        want_shape[axis] = 1
        want_shape[t0] = bs[t0][1] - bs[t0][0]
        want_shape[t1] = bs[t1][1] - bs[t1][0]
        c.prove("face_area/post:rank3", out.ndim == 3)
        for a in range(3):
            c.prove(f"face_area/post:shape[{a}]", out.shape[a] == want_shape[a])
        i = SymNum(ctx().fresh_int("i"))
        j = SymNum(ctx().fresh_int("j"))
        hy = [zbool(i >= 0), zbool(i < want_shape[t0]), zbool(j >= 0), zbool(j < want_shape[t1])]
        idx = [0, 0, 0]
        idx[t0], idx[t1] = A._raw_index(i), A._raw_index(j)
        p, q = bs[t0][0] + i, bs[t1][0] + j
        spec = (at(es[t0], p + 1) - at(es[t0], p)) * (at(es[t1], q + 1) - at(es[t1], q))
        c.prove("face_area/post:product_of_transverse_cell_widths_from_edges", out.at_index(tuple(idx)) == spec, extra_hyps=hy)
        c.prove("face_area/post:positive", out.at_index(tuple(idx)) > 0, extra_hyps=hy)

    return body


def _cell_volume(mode):
    def body(c, inp):
        ns = grid_shape(mode, inp)
        g, es, ws, ms = make_grid(ns, inp)
        bs = [_sym_bounds(f"s{a}", ns[a], inp, nonempty=True) for a in range(3)]
        inp.note("call", {"method": "cell_volume"})
        c.cover("pre")
        out = g.cell_volume(tuple(bs))
        c.prove("cell_volume/post:rank3", out.ndim == 3)
        for a in range(3):
            c.prove(f"cell_volume/post:shape[{a}]", out.shape[a] == bs[a][1] - bs[a][0])
        ii = [SymNum(ctx().fresh_int(f"i{a}")) for a in range(3)]
        hy = []
        for a in range(3):  # generic in-range cell (assumed, so that slicing by it does not fork)
            ctx().assume(zbool(A._vand(ii[a] >= 0, ii[a] < bs[a][1] - bs[a][0])))
        spec = 1
        for a in range(3):
            p = bs[a][0] + ii[a]
            spec = spec * (at(es[a], p + 1) - at(es[a], p))
        got = out.at_index(tuple(A._raw_index(v) for v in ii))
        c.prove("cell_volume/post:product_of_the_three_cell_widths_from_edges", got == spec, extra_hyps=hy)
        c.prove("cell_volume/post:positive", got > 0, extra_hyps=hy)
        # consistency of the three helpers on one cell: volume == face area (normal a) * extent along a
        for a in range(3):
            cell = tuple((bs[b][0] + ii[b], bs[b][0] + ii[b] + 1) for b in range(3))
            fa = g.face_area(a, cell).at_index((0, 0, 0))
            c.prove(f"cell_volume/post:equals_face_area_times_extent[axis{a}]", got == fa * g.axis_extent(a, cell[a]), extra_hyps=hy)

    return body


def _products_concrete(ns, slices):
    """face_area / cell_volume on a grid of concrete cell counts and a concrete slice: every entry is
    compared with the product of edge differences (plain polynomial arithmetic in the edge values)"""

    def body(c, inp):
        inp_ns = grid_shape(ns, inp)
        g, es, ws, ms = make_grid(inp_ns, inp)
        inp.note("call", {"method": "cell_volume"})
        c.cover("pre")

        def w(a, i):
            return at(es[a], i + 1) - at(es[a], i)

        ext = [slices[a][1] - slices[a][0] for a in range(3)]
        vol = g.cell_volume(tuple(slices))
        c.prove("cell_volume/post:shape", tuple(vol.shape) == tuple(ext))
        if tuple(vol.shape) == tuple(ext):
            for idx in itertools.product(*[range(k) for k in ext]):
                spec = 1
                for a in range(3):
                    spec = spec * w(a, slices[a][0] + idx[a])
                c.prove(f"cell_volume/post:product_of_the_three_cell_widths_from_edges{list(idx)}", vol.at_index(idx) == spec)
        for axis in range(3):
            t0, t1 = [a for a in range(3) if a != axis]
            fa = g.face_area(axis, tuple(slices))
            want = [0, 0, 0]
            want[axis], want[t0], want[t1] = 1, ext[t0], ext[t1]
            c.prove(f"face_area/post:shape[normal{axis}]", tuple(fa.shape) == tuple(want))
            if tuple(fa.shape) == tuple(want):
                for i in range(ext[t0]):
                    for j in range(ext[t1]):
                        idx = [0, 0, 0]
                        idx[t0], idx[t1] = i, j
                        c.prove(f"face_area/post:product_of_transverse_cell_widths_from_edges[normal{axis}]{idx}", fa.at_index(tuple(idx)) == w(t0, slices[t0][0] + i) * w(t1, slices[t1][0] + j))

    return body


def _cfl(branch):
    """branch: 'nonuniform' | 'uniform' | 'flag_without_spacing'"""

    def body(c, inp):
        from fdtdx import constants
        from fdtdx.config import SimulationConfig
        from fdtdx.core.grid import UniformGrid

        ns = grid_shape((2, 3, 1), inp)
        U = inp.scalar("uniform_spacing", sym_real("U", lo_strict=0)) if branch == "uniform" else None
        g, es, ws, ms = make_grid(ns, inp, is_uniform=(branch != "nonuniform"), uniform_spacing=U)
        cf = inp.scalar("courant_factor", sym_real("cf", lo_strict=0))
        inp.note("call", {"method": "cfl_time_step", "branch": branch})
        c.cover("pre")
        dt = g.cfl_time_step(cf)
        c0 = constants.c
        inv = sum(1 / (m * m) for m in ms)
        hy = [zbool(m == U) for m in ms] if branch == "uniform" else []
        c.prove("cfl_time_step/post:positive", dt > 0)
        c.prove("cfl_time_step/post:CFL_bound_with_safety_factor", (c0 * dt) * (c0 * dt) * inv <= cf * cf, extra_hyps=hy)
        c.prove("cfl_time_step/post:scales_linearly_with_safety_factor", g.cfl_time_step(2 * cf) == 2 * dt)
        if branch == "uniform":
            c.prove("cfl_time_step/post:uniform_branch_is_cf/sqrt3*spacing/c", (c0 * dt) * (c0 * dt) * 3 == cf * cf * U * U)
            c.prove("uniform_spacing/post:returns_stored_spacing", g.uniform_spacing == U)
        else:
            try:
                g.uniform_spacing
                c.prove("uniform_spacing/post:raises_for_nonuniform", False)
            except ValueError:
                c.prove("uniform_spacing/post:raises_for_nonuniform", True)
        c.prove("is_uniform/post:returns_flag", g.is_uniform is (branch != "nonuniform"))
        # the configuration reads the same numbers
        cfg = SimulationConfig(time=1e-15, grid=UniformGrid(spacing=1.0), backend="cpu")
        cfg.__dict__["grid"] = g
        cfg.__dict__["courant_factor"] = cf
        c.prove("config.time_step_duration/post:is_grid_cfl_time_step", cfg.time_step_duration == dt)
        c.prove("config.has_nonuniform_grid/post:negated_uniform_flag", cfg.has_nonuniform_grid is (branch == "nonuniform"))
        c.prove("config.resolved_grid/post:is_the_grid", cfg.resolved_grid is g and cfg.resolve_grid() is g)
        if branch == "uniform":
            c.prove("config.uniform_spacing/post:stored_spacing", cfg.uniform_spacing() == U)
            c.prove("config.courant_number/post:consistent_with_time_step", cfg.courant_number * U == c0 * dt)

    return body


# ---------------------------------------------------------------------------------------
# constructor and symmetric reduction (enumerated small cell counts, symbolic values)
# ---------------------------------------------------------------------------------------


def _max_abs(e):
    from vc.core import ite

    big = None
    for j in range(e.shape[0]):
        v = vabs(at(e, j))
        big = v if big is None else ite(v > big, v, big)
    return big


EPS = {"f64": 2.220446049250313e-16, "f32": 1.1920928955078125e-07}


def _constructor(ns, increasing=True, dtype="f64"):
    def body(c, inp):
        from fdtdx.core.grid import RectilinearGrid

        NP.set_session_eps(EPS[dtype])
        inp.note("dtype", dtype)
        for a, n in enumerate(ns):
            inp.scalar(f"n{a}", n)
        es = [inc_edges(f"e{a}", n + 1, increasing=increasing) for a, n in enumerate(ns)]
        for a, e in enumerate(es):
            inp.array(f"e{a}", e.witness_view, default=None)
        ctx()._c37_edges = es
        inp.note("call", {"method": "__post_init__"})
        c.cover("pre")
        g = RectilinearGrid(x_edges=es[0], y_edges=es[1], z_edges=es[2])
        # reached only for strictly increasing edges
        for a in range(3):
            for i in range(ns[a]):
                c.prove(f"__post_init__/accepts_only_strictly_increasing[axis{a},{i}]", at(es[a], i) < at(es[a], i + 1))
        got_edges = (g.x_edges, g.y_edges, g.z_edges)
        for a in range(3):
            prove_arrays_equal(f"__post_init__/post:edges_stored[axis{a}]", got_edges[a], es[a])
            w = g.cell_widths(a)
            c.prove(f"__post_init__/post:one_width_per_cell[axis{a}]", w.shape == (ns[a],))
            for i in range(ns[a]):
                c.prove(f"__post_init__/post:width_is_edge_difference[axis{a},{i}]", at(w, i) == at(es[a], i + 1) - at(es[a], i))
            m = g.min_spacings[a]
            att = False
            for i in range(ns[a]):
                c.prove(f"__post_init__/post:min_spacing_not_above_width[axis{a},{i}]", m <= at(w, i))
                att = A._vor(att, m == at(w, i))
            c.prove(f"__post_init__/post:min_spacing_attained[axis{a}]", att)
        s = at(es[0], 1) - at(es[0], 0)
        eps = NP.session_eps()
        spec = True
        for a in range(3):
            tol = 1e-4 * vabs(s) + 8 * eps * _max_abs(es[a])
            for i in range(ns[a]):
                wi = at(es[a], i + 1) - at(es[a], i)
                spec = A._vand(spec, vabs(wi - s) <= tol)
        flag = g.is_uniform
        c.prove("__post_init__/post:is_uniform_iff_documented_tolerance", zbool(spec) == z3.BoolVal(bool(flag)) if isinstance(flag, bool) else False)
        if flag:
            from vc.core import apply_uf

            c.prove("__post_init__/post:uniform_spacing_is_first_width_rounded_to_14_decimals", g.uniform_spacing == apply_uf("round_decimals", s, 14))
        else:
            c.prove("__post_init__/post:no_uniform_spacing_when_nonuniform", g._uniform_spacing is None)

    def on_exc(c, exc):
        # documented rejection: some adjacent pair is not strictly increasing
        bad = False
        es = c._c37_edges
        for a in range(3):
            for i in range(ns[a]):
                bad = A._vor(bad, at(es[a], i) >= at(es[a], i + 1))
        c.prove("__post_init__/raises_only_ValueError_for_non_increasing_edges", A._vand(_is_value_error(exc), bad))

    return body, on_exc


def _constructor_shape_errors(c, inp):
    """fewer than two entries / not one-dimensional are rejected (concrete structure)"""
    from fdtdx.core.grid import RectilinearGrid

    ok = inc_edges("ok", 3)
    for label, bad in (("single_entry", inc_edges("one", 1)), ("two_dimensional", A.fresh_array("m", (2, 2)))):
        for pos in range(3):
            args = [ok, ok, ok]
            args[pos] = bad
            try:
                RectilinearGrid(x_edges=args[0], y_edges=args[1], z_edges=args[2])
                c.prove(f"__post_init__/rejects_{label}[axis{pos}]", False)
            except ValueError:
                c.prove(f"__post_init__/rejects_{label}[axis{pos}]", True)


def _reduce_symmetric(ns, symmetry):
    def body(c, inp):
        from fractions import Fraction

        import fdtdx.core.grid as G

        for a, n in enumerate(ns):
            inp.scalar(f"n{a}", n)
        inp.note("call", {"method": "reduce_symmetric", "symmetry": list(symmetry)})
        g, es, ws, ms = make_grid(ns, inp)
        made = []
        orig = G.RectilinearGrid.__post_init__
        # the reduced grid is built by the constructor (own contract above); record what it is given
        G.RectilinearGrid.__post_init__ = lambda self: made.append(self)
        try:
            c.cover("pre")
            r = g.reduce_symmetric(symmetry)
        finally:
            G.RectilinearGrid.__post_init__ = orig
        c.prove("reduce_symmetric/post:new_instance_through_constructor", len(made) == 1 and made[0] is r and r is not g)
        new = (r.x_edges, r.y_edges, r.z_edges)
        for a in range(3):
            if symmetry[a] == 0:
                prove_arrays_equal(f"reduce_symmetric/post:nonsymmetric_axis_unchanged[axis{a}]", new[a], es[a])
                continue
            c.prove(f"reduce_symmetric/returns_only_for_even_count>=2[axis{a}]", ns[a] >= 2 and ns[a] % 2 == 0)
            h = ns[a] // 2
            c.prove(f"reduce_symmetric/post:keeps_upper_half_length[axis{a}]", new[a].shape == (ns[a] - h + 1,))
            for i in range(ns[a] - h + 1):
                c.prove(f"reduce_symmetric/post:keeps_upper_half_edges[axis{a},{i}]", at(new[a], i) == at(es[a], h + i))
            for i in range(ns[a]):
                w, wm = at(ws[a], i), at(ws[a], ns[a] - 1 - i)
                c.prove(f"reduce_symmetric/returns_only_for_mirror_symmetric_widths[axis{a},{i}]", vabs(w - wm) <= 1e-4 * vabs(wm))

    def on_exc(c, exc):
        es = c._c37_edges
        bad = False
        for a in range(3):
            if symmetry[a] == 0:
                continue
            if ns[a] < 2 or ns[a] % 2 != 0:
                bad = True
                break
            for i in range(ns[a]):
                w = at(es[a], i + 1) - at(es[a], i)
                wm = at(es[a], ns[a] - i) - at(es[a], ns[a] - 1 - i)
                bad = A._vor(bad, vabs(w - wm) > 1e-4 * vabs(wm))
        c.prove("reduce_symmetric/raises_only_ValueError_for_odd_or_asymmetric_axis", A._vand(_is_value_error(exc), bad))

    from fractions import Fraction

    return body, on_exc


# ---------------------------------------------------------------------------------------
# task table
# ---------------------------------------------------------------------------------------

PRODUCT_CASES = [((2, 3, 1), ((0, 2), (0, 3), (0, 1))), ((3, 1, 2), ((1, 3), (0, 1), (0, 2))), ((1, 2, 3), ((0, 1), (1, 2), (1, 3)))]
PRODUCT_CASES_THOROUGH = [((4, 2, 3), ((1, 4), (0, 2), (2, 3))), ((2, 4, 4), ((0, 2), (1, 3), (0, 4)))]
ANCHOR_POSITIONS = (-1.0, 0.0, 1.0, 0.25)
CONSTRUCTOR_SHAPES = [(1, 1, 1), (2, 1, 3), (1, 3, 2), (3, 2, 1), (2, 2, 2)]
REDUCE_CASES = [
    ((2, 1, 3), (1, 0, 0)),
    ((2, 4, 1), (-1, 1, 0)),
    ((3, 2, 2), (0, 1, -1)),
    ((4, 2, 2), (1, 1, 1)),
    ((1, 2, 4), (0, 0, 1)),
    ((3, 2, 2), (1, 0, 0)),
    ((2, 1, 2), (0, -1, 0)),
    ((2, 3, 4), (0, 0, 0)),
]


def _no_exception(c, exc):
    """sessions whose contract has no exceptional case: raising on a feasible path is a violation"""
    c.prove(f"no_exception_within_precondition[{type(exc).__name__}]", False)


def _rot(t, k):
    return tuple(t[(i + k) % 3] for i in range(3))


def tasks(tier, seed):
    out = {}
    thorough = tier == "thorough"
    base_shapes = [(1, 2, 3), (2, 3, 1), (3, 1, 2)] + ([(4, 2, 5), (5, 4, 2), (2, 5, 4)] if thorough else [])
    constructor_shapes = CONSTRUCTOR_SHAPES + ([(4, 1, 2), (1, 4, 3), (3, 3, 3), (2, 1, 5)] if thorough else [])
    reduce_cases = REDUCE_CASES + ([((6, 2, 4), (1, -1, 1)), ((4, 4, 4), (-1, 0, 1)), ((5, 6, 2), (0, 1, 1)), ((2, 6, 3), (1, 1, 0))] if thorough else [])

    members = []

    def add(key, body, on_exc=None):
        members.append((key, body, on_exc or _no_exception))

    for axis in range(3):
        # concrete shapes: the axis under test sees every length of the base triple once
        shapes = [_rot(s, (3 - axis) % 3) for s in base_shapes]
        modes = [("sym", "sym")] + [("n" + "".join(map(str, s)), s) for s in shapes]
        for mname, mode in modes:
            for snap in ("nearest", "lower", "upper"):
                add(f"coord_to_index/{mname}/axis{axis}/{snap}", _coord_to_index(mode, axis, snap))
            if mode == "sym":
                b, h = _bounds_for_center(mode, axis)
                add(f"bounds_for_center/{mname}/axis{axis}", b, h)
                b, h = _bounds_for_anchor(mode, axis)
                add(f"bounds_for_anchor/{mname}/axis{axis}", b, h)
            else:
                n = mode[axis]
                for size in range(0, n + 2):
                    b, h = _bounds_for_center(mode, axis, size=size)
                    add(f"bounds_for_center/{mname}/axis{axis}/size{size}", b, h)
                    # exact-argmin runs keep the anchor position concrete (linear arithmetic); the
                    # symbolic-position case is the 'sym' task
                    for pi, pos in enumerate(ANCHOR_POSITIONS if 1 <= size <= n else ANCHOR_POSITIONS[:1]):
                        b, h = _bounds_for_anchor(mode, axis, size=size, position=pos)
                        add(f"bounds_for_anchor/{mname}/axis{axis}/size{size}/pos{pi}", b, h)
        for snap in ("nearest", "lower", "upper"):
            b, h = _length_to_cell_count("sym", axis, snap)
            add(f"length_to_cell_count/sym/axis{axis}/{snap}", b, h)
        add(f"anchor_extent_centers/sym/axis{axis}", _anchor_and_extent("sym", axis))
        add(f"face_area/sym/axis{axis}", _face_area("sym", axis))
    add("coord_to_index/unknown_snap", _coord_to_index_bad_snap)
    add("slice_extent_shape_min_spacing/sym", _slice_extent_shape("sym"))
    add("cell_volume/sym", _cell_volume("sym"))
    for ns, sl in PRODUCT_CASES + (PRODUCT_CASES_THOROUGH if thorough else []):
        add("face_area_cell_volume/n" + "".join(map(str, ns)) + "/" + "_".join(f"{lo}-{hi}" for lo, hi in sl), _products_concrete(ns, sl))
    for br in ("nonuniform", "uniform", "flag_without_spacing"):
        add(f"cfl_time_step/{br}", _cfl(br))
    for k, ns in enumerate(constructor_shapes):
        for dt in ("f64", "f32") if (k < 2 or thorough) else ("f64",):
            b, h = _constructor(ns, increasing=True, dtype=dt)
            add("constructor/increasing/n" + "".join(map(str, ns)) + "/" + dt, b, h)
    for ns in [(1, 1, 1), (2, 1, 2)] + ([(1, 3, 2)] if thorough else []):
        b, h = _constructor(ns, increasing=False)
        add("constructor/arbitrary/n" + "".join(map(str, ns)) + "/f64", b, h)
    add("constructor/shape_errors", _constructor_shape_errors)
    for ns, sym in reduce_cases:
        b, h = _reduce_symmetric(ns, sym)
        add("reduce_symmetric/n" + "".join(map(str, ns)) + "/s" + "".join("0+-"[s] for s in sym), b, h)
    # few worker jobs: group the member sessions by the method they exercise
    groups = {}
    for key, body, on_exc in members:
        head = key.split("/")[0]
        gname = {"coord_to_index": "snapping", "length_to_cell_count": "snapping", "bounds_for_center": "interval_from_center", "bounds_for_anchor": "interval_from_anchor", "constructor": "constructor_cfl", "cfl_time_step": "constructor_cfl", "reduce_symmetric": "symmetric_reduction"}.get(head, "extents_areas_volumes")
        groups.setdefault(gname, []).append((key, body, on_exc))
    for gname, ms in groups.items():
        out[gname] = group_task(ms)
    return out


# ---------------------------------------------------------------------------------------
# replay on the real code under real JAX / numpy
# ---------------------------------------------------------------------------------------


def _real_grid(edges):
    import jax.numpy as jnp

    from fdtdx.core.grid import RectilinearGrid

    return RectilinearGrid(x_edges=jnp.asarray(edges[0]), y_edges=jnp.asarray(edges[1]), z_edges=jnp.asarray(edges[2]))


def _witness_edges(witness, need_axes):
    """edge arrays of the witness.  An axis the refuted obligation never read has no values in the model:
    it gets equally spaced stand-in edges of the witness length.  The axes in `need_axes` must be complete
    (strictly increasing, n+1 entries), otherwise None."""
    import numpy as np

    from vc.harness import witness_arrays_to_numpy

    wa = witness_arrays_to_numpy(witness or {})
    sc = (witness or {}).get("scalars") or {}
    out = []
    for a in range(3):
        e = wa.get(f"e{a}")
        n = sc.get(f"n{a}")
        n = int(n) if isinstance(n, (int, float)) else None
        ok = e is not None and e.ndim == 1 and e.shape[0] >= 2 and (n is None or e.shape[0] == n + 1) and bool(np.all(np.diff(e) > 0))
        if ok:
            out.append(e.astype(np.float64))
        elif a in need_axes or n is None or not 1 <= n <= 4000:
            return None
        else:
            out.append(np.arange(n + 1, dtype=np.float64))
    return out


def _random_edges(rng, ns):
    import numpy as np

    return [np.concatenate([[0.0], np.cumsum(rng.uniform(0.2, 2.0, size=n))]) + rng.uniform(-3, 3) for n in ns]


def _violates(call, edges, sc, rng):
    """run the real method named in `call` on the real grid; -> (violated, detail).  Float comparisons
    use a relative slack of 1e-9 so that only genuine contract violations count."""
    import numpy as np

    from fdtdx import constants

    m = call.get("method")
    axis = call.get("axis", 0)
    e = edges[axis]
    n = len(e) - 1
    tol = 1e-9 * (1.0 + float(np.max(np.abs(np.concatenate(edges)))))
    g = _real_grid(edges)

    def f(name, default):
        v = sc.get(name, default)
        return float(v) if isinstance(v, (int, float)) else float(default)

    def snap_check(coord, k, snap):
        if snap == "nearest":
            ok = 0 <= k <= n and abs(e[k] - coord) <= np.min(np.abs(e - coord)) + tol
        elif snap == "lower":
            ok = all((e[j] <= coord) == (j <= k) for j in range(n + 1))
        else:
            ok = all((e[j] < coord) == (j < k) for j in range(n + 1))
        return not ok

    if m == "coord_to_index":
        coord = f("coord", rng.uniform(e[0] - 1, e[-1] + 1))
        k = g.coord_to_index(axis, coord, snap=call["snap"])
        return snap_check(coord, k, call["snap"]), f"edges={e.tolist()} coord={coord} snap={call['snap']} -> {k}"
    if m == "length_to_cell_count":
        L = f("length", rng.uniform(-0.5, e[-1] - e[0] + 1))
        try:
            k = g.length_to_cell_count(axis, L, snap=call["snap"])
        except ValueError:
            return not (L < 0), f"edges={e.tolist()} length={L}: raised ValueError"
        return (L < 0) or snap_check(e[0] + L, k, call["snap"]), f"edges={e.tolist()} length={L} snap={call['snap']} -> {k}"
    if m in ("bounds_for_center", "bounds_for_anchor"):
        size = sc.get("size")
        size = int(size) if isinstance(size, (int, float)) else int(rng.integers(0, n + 2))
        target = f("center" if m == "bounds_for_center" else "anchor", rng.uniform(e[0] - 1, e[-1] + 1))
        pos = f("position", rng.uniform(-1, 1))
        admissible = 1 <= size <= n
        try:
            lo, hi = g.bounds_for_center(axis, target, size) if m == "bounds_for_center" else g.bounds_for_anchor(axis, size, target, pos)
        except ValueError:
            return admissible, f"edges={e.tolist()} size={size}: raised ValueError"
        if not admissible:
            return True, f"edges={e.tolist()} size={size}: returned {(lo, hi)} for an inadmissible size"

        def point(l):
            return 0.5 * (e[l] + e[l + size]) if m == "bounds_for_center" else e[l] + 0.5 * (pos + 1.0) * (e[l + size] - e[l])

        best = min(abs(point(l) - target) for l in range(n - size + 1))
        bad = hi - lo != size or lo < 0 or hi > n or abs(point(lo) - target) > best + tol
        return bad, f"edges={e.tolist()} size={size} target={target} position={pos} -> {(lo, hi)}, best distance {best}, got {abs(point(lo) - target) if 0 <= lo and lo + size <= n else None}"
    if m == "anchor_coordinate/axis_extent":
        lo = int(rng.integers(0, n + 1))
        hi = int(rng.integers(lo, n + 1))
        pos = f("position", rng.uniform(-1, 1))
        got = g.anchor_coordinate(axis, (lo, hi), pos)
        want = e[lo] + 0.5 * (pos + 1) * (e[hi] - e[lo])
        bad = abs(got - want) > tol or abs(g.axis_extent(axis, (lo, hi)) - (e[hi] - e[lo])) > tol
        cen = np.asarray(g.centers(axis))
        bad = bad or cen.shape != (n,) or np.max(np.abs(cen - 0.5 * (e[:-1] + e[1:]))) > tol
        bad = bad or np.max(np.abs(np.asarray(g.cell_widths(axis)) - np.diff(e))) > tol
        return bad, f"edges={e.tolist()} bounds={(lo, hi)} position={pos}: anchor {got} (contract {want}), extent {g.axis_extent(axis, (lo, hi))}"
    if m in ("face_area", "cell_volume", "slice_extent"):
        sl = []
        for a in range(3):
            na = len(edges[a]) - 1
            lo = int(rng.integers(0, na))
            sl.append((lo, int(rng.integers(lo + 1, na + 1))))
        w = [np.diff(edges[a])[sl[a][0] : sl[a][1]] for a in range(3)]
        if m == "face_area":
            t0, t1 = [a for a in range(3) if a != axis]
            want = np.expand_dims(w[t0][:, None] * w[t1][None, :], axis)
            got = np.asarray(g.face_area(axis, tuple(sl)))
        elif m == "cell_volume":
            want = w[0][:, None, None] * w[1][None, :, None] * w[2][None, None, :]
            got = np.asarray(g.cell_volume(tuple(sl)))
        else:
            want = np.array([edges[a][sl[a][1]] - edges[a][sl[a][0]] for a in range(3)])
            got = np.array(g.slice_extent(tuple(sl)))
            bad = tuple(g.shape) != tuple(len(x) - 1 for x in edges) or abs(g.min_spacing - min(np.min(np.diff(x)) for x in edges)) > tol
            if bad:
                return True, f"shape {g.shape} / min_spacing {g.min_spacing} for edges {[x.tolist() for x in edges]}"
        bad = got.shape != want.shape or np.max(np.abs(got - want)) > tol * (1 + np.max(np.abs(want)))
        return bad, f"{m} axis={axis} slice={sl} edges={[x.tolist() for x in edges]}: got {got.tolist()} contract {want.tolist()}"
    if m == "cfl_time_step":
        cf = f("courant_factor", 0.99)
        dt = float(g.cfl_time_step(cf))
        mins = [float(np.min(np.diff(x))) for x in edges]
        bound = cf / (constants.c * np.sqrt(sum(1.0 / d**2 for d in mins)))
        return (not dt > 0) or dt > bound * (1 + 1e-6), f"edges={[x.tolist() for x in edges]} cf={cf}: dt={dt}, CFL bound with factor {bound}"
    if m == "__post_init__":
        ws = [np.diff(x) for x in edges]
        s0 = ws[0][0]
        eps = float(np.finfo(np.float64).eps)
        uni = all(np.max(np.abs(w - s0)) <= 1e-4 * abs(s0) + 8 * eps * np.max(np.abs(x)) for w, x in zip(ws, edges))
        bad = bool(g.is_uniform) != uni or any(abs(g.min_spacings[a] - np.min(ws[a])) > tol for a in range(3))
        bad = bad or any(np.max(np.abs(np.asarray(g.cell_widths(a)) - ws[a])) > tol for a in range(3))
        return bad, f"edges={[x.tolist() for x in edges]}: is_uniform={g.is_uniform} (documented test: {uni}), min_spacings={g.min_spacings}"
    if m == "reduce_symmetric":
        sym = tuple(call["symmetry"])
        ns = [len(x) - 1 for x in edges]
        ws = [np.diff(x) for x in edges]
        must_raise = any(sym[a] != 0 and (ns[a] < 2 or ns[a] % 2 or not np.allclose(ws[a], ws[a][::-1], rtol=1e-4, atol=0.0)) for a in range(3))
        try:
            r = g.reduce_symmetric(sym)
        except ValueError:
            return not must_raise, f"edges={[x.tolist() for x in edges]} symmetry={sym}: raised ValueError"
        if must_raise:
            return True, f"edges={[x.tolist() for x in edges]} symmetry={sym}: accepted an odd/asymmetric axis"
        bad = False
        for a in range(3):
            want = edges[a] if sym[a] == 0 else edges[a][ns[a] // 2 :]
            got = np.asarray(r.edges(a))
            bad = bad or got.shape != want.shape or np.max(np.abs(got - want)) > tol
        return bad, f"edges={[x.tolist() for x in edges]} symmetry={sym}: reduced edges {[np.asarray(r.edges(a)).tolist() for a in range(3)]}"
    return False, f"no replay recipe for {m}"


def replay(key, obligation, witness):
    """The refuting model first (when its edge arrays are complete), then a seeded search over small
    grids, on the REAL RectilinearGrid under real JAX: is the contract clause violated?"""
    import numpy as np

    rng = np.random.default_rng(0)
    w = witness or {}
    call = dict((w.get("notes") or {}).get("call") or {})
    if not call:
        part = (obligation.split(":")[0] if ":" in obligation else key).split("/")[0]
        call = {"method": {"anchor_extent_centers": "anchor_coordinate/axis_extent", "slice_extent_shape_min_spacing": "slice_extent", "constructor": "__post_init__"}.get(part, part)}
    sc = dict(w.get("scalars") or {})
    tried = 0
    if call.get("method") == "cfl_time_step":
        # the symbolic grid of the CFL task is characterised by its per-axis minimum widths only
        try:
            mins = [float(sc[f"dmin{a}"]) for a in range(3)]
            if call.get("branch") == "uniform":
                mins = [float(sc["uniform_spacing"])] * 3
            cases = [[np.array([0.0, d, 2 * d]) if call.get("branch") == "uniform" else np.array([0.0, d, 2.5 * d]) for d in mins]]
        except Exception:  # noqa: BLE001
            cases = []
        cases += [[np.array([0.0, 1.0, 2.0])] * 3, [np.array([0.0, 1.0, 3.0]), np.array([0.0, 0.5, 2.0]), np.array([0.0, 2.0, 2.2])]]
        for edges in cases:
            bad, detail = _violates(call, edges, sc, rng)
            if bad:
                return True, detail
        return False, "real cfl_time_step satisfied the bound on the witness and the stock cases"
    edges = _witness_edges(w, [call["axis"]] if "axis" in call and call.get("method") not in ("face_area",) else [0, 1, 2])
    if edges is not None:
        tried += 1
        try:
            bad, detail = _violates(call, edges, sc, rng)
        except Exception as ex:  # noqa: BLE001
            bad, detail = False, f"witness not runnable on the real code: {ex!r}"
        if bad:
            return True, "witness: " + detail
    fixed_ns = None
    if call.get("method") == "reduce_symmetric" or not any(isinstance(sc.get(f"n{a}"), str) for a in range(3)):
        try:
            fixed_ns = [int(sc[f"n{a}"]) for a in range(3)]
            if max(fixed_ns) > 6:
                fixed_ns = None
        except Exception:  # noqa: BLE001
            fixed_ns = None
    for t in range(400):
        ns = fixed_ns or [int(rng.integers(1, 5)) for _ in range(3)]
        edges = _random_edges(rng, ns)
        if call.get("method") in ("reduce_symmetric", "__post_init__") and t % 2 == 0:
            # mirror-symmetric / exactly uniform profiles exercise the accepting branches
            edges = [np.concatenate([[0.0], np.cumsum((lambda h: np.concatenate([h, h[::-1]]))(rng.uniform(0.5, 1.5, size=max(1, n // 2))) if n % 2 == 0 else np.full(n, 0.7))]) for n in ns]
        tried += 1
        try:
            bad, detail = _violates(call, edges, {}, rng)
        except Exception as ex:  # noqa: BLE001
            return True, f"real code raised {ex!r} on edges {[x.tolist() for x in edges]} for {call}"
        if bad:
            return True, "search: " + detail
    return False, f"no violating input found on the real code in {tried} attempts for {call}"
