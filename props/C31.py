"""C31  Setups survive a JSON round trip.

Top-level statement (from the property): place_objects(import(export(setup))) == place_objects(setup)
(grid slices, material arrays, field arrays).

Decomposition used here
  (A) field-wise round trip, per serialisable class:  import_from_json(export_json_str(x)) == x  on
      every field x holds (public constructor fields AND the private state a freshly constructed
      object carries).  Checked on the REAL export/import code for every class of the allow-lists of
      JsonSetup.validate, the configuration classes and the helper classes their fields refer to.
      Numeric leaves are SYMBOLIC (one obligation covers all float / int values, incl. what the
      constructors' __post_init__ normalisations do to them on re-import); everything that steers
      Python control flow (None patterns, Literal choices, bools, container lengths <= 3) is enumerated
      from the classes' own type annotations, so a new public field is picked up automatically.
  (B) the JSON *text* layer (json.dumps / json.loads) is abstracted in (A) as the identity on
      JSON-typed documents (dict with str keys / list / str / int / float / bool / None, fresh
      containers, keys sorted).  That contract of the standard library is assumed; it is exercised
      with the real `json` module on the concretised documents as a bounded stand-in.
  (C) generic containers (list / tuple / dict, nesting <= 3, lengths <= 3, None, bool, str, dtype,
      numpy / jax arrays) with symbolic numeric leaves.
  (D) JsonSetup.dumps / loads / from_dict / validate on a setup holding one object of every allowed
      kind (symbolic leaves, abstract text layer).
  (E) "same placement": (A)+(D) give field-wise equal arguments; place_objects is a function of its
      arguments (assumed: determinism).  As a bounded stand-in the REAL place_objects is run under
      real JAX on the original and on the re-imported setup for seeded generated scenes and all
      grid slices, material arrays, field arrays and object state are compared.
"""

from __future__ import annotations

import dataclasses
import itertools
import random
import types
import typing

from vc import array as A
from vc.array import SymArray
from vc.core import SymBool, SymNum, Undecided, Unsupported
from vc.harness import Task
from vc.obl import sym_int, sym_real

ID = "C31"
LEVEL = "other"
TECHNIQUE = "real export_json_str/import_from_json executed per serialisable class on instances enumerated from the classes' type annotations with symbolic numeric leaves (JSON text layer abstracted as identity on JSON-typed documents), field-wise equality by z3; real json module and real place_objects on seeded scenes as bounded stand-ins"
MODULES = ["fdtdx.conversion.json", "fdtdx.materials", "fdtdx.core.wavelength", "fdtdx.core.switch", "fdtdx.config", "fdtdx.core.grid", "fdtdx.colors", "fdtdx.objects.object", "fdtdx.dispersion"]
FILES = ["src/fdtdx/conversion/json.py", "src/fdtdx/core/jax/pytrees.py"]
FUNCTIONS = [
    "fdtdx.conversion.json._export_json",
    "fdtdx.conversion.json.export_json",
    "fdtdx.conversion.json.export_json_str",
    "fdtdx.conversion.json._import_obj_from_json",
    "fdtdx.conversion.json.import_from_json",
    "fdtdx.conversion.json.JsonSetup.dumps/loads/from_dict/validate/_unwrap_list",
    "fdtdx.core.jax.pytrees.TreeClass.get_class_fields/get_public_fields",
]
INLINED = ["constructors / __post_init__ of every serialisable class (run for real on export side and on re-import)", "pytreeclass field machinery (autoinit, freeze/unfreeze)"]
STUBS = ["json.dumps / json.loads inside fdtdx.conversion.json: identity on JSON-typed documents (fresh containers, sorted keys; anything json.dumps would reject raises TypeError) - only while leaves are symbolic; the bounded parts use the real json module"]
ASSUMPTIONS = [
    "JSON text layer: json.loads(json.dumps(d, sort_keys=True, indent=4)) == d for documents built from dict(str keys)/list/str/int/float/bool/None (Python's float repr round-trips exactly, Infinity/NaN literals are accepted); assumed for the symbolic obligations, exercised with the real module on concrete documents (bounded)",
    "class lookup importlib.import_module(__module__).__name__ returns the class the object was built from (checked for every enumerated class, not for user-defined ones)",
    "place_objects is a deterministic function of (object fields, config fields, constraints, key): field-wise equal setups place identically; only exercised, not proved (bounded scenes)",
    "structure is enumerated: sequences of length <= 3, container nesting <= 3, one or all fields off-default per instance (thorough: also seeded random combinations); numeric leaves are arbitrary reals / integers within the domains the constructors accept (e.g. spacing > 0, colour components in [0,1])",
    "values outside the serialisable kinds (numpy scalars, RealCoordinateConstraint, boundary kinds other than PerfectlyMatchedLayer, devices) are out of scope of the property ('serializable object and constraint kinds')",
    "jax arrays come back as numpy arrays with equal shape and values (documented behaviour of the exporter); compared by value",
    "exact arithmetic: a concrete float that comes back within 4 ulp counts as equal. Observed on the unchanged tree: Pole._validate_orientation re-normalises an already normalised orientation on import, which moves a component by 1 ulp for roughly a quarter of random orientations (and the float64 dispersive_c3 array with it); symbolically (exact reals) the normalisation is idempotent",
    "FieldProjection*Detector fields that the constructors validate through numpy (projection_distance, window_size, interval_space, origin, projection_medium*, exact_projection_batch_size) and Pole.orientation cannot carry symbolic numbers: they are covered with concrete values only",
]
MIN_OBLIGATIONS = {"quick": 3500, "thorough": 4500}
LEVEL_TEXT = "Field-wise export/import round trip of every serialisable class shown on the real code for all numeric leaf values (structure enumerated from the type annotations, sequences <= 3), JsonSetup dumps/loads on a setup with every allowed kind, generic containers to nesting 3; the JSON text layer and the step from field-wise equality to equal placement are assumed and exercised on the real json module / real place_objects for seeded scenes (bounded)"
LEVEL_NOTE = "structure bounded (sequence lengths, nesting, field combinations); text layer and determinism of place_objects assumed; placement equality itself only checked on generated scenes, hence not counted as a proof"
BOUNDED_RULE = "bounded stand-in: real json module on concrete documents; real JsonSetup.dumps/loads + real place_objects under real JAX on seeded generated scenes; not counted as proved"


# ---------------------------------------------------------------------------------------
# abstract JSON text layer
# ---------------------------------------------------------------------------------------


class _Text:
    """what json.dumps returns in the abstract text layer: the JSON document itself"""

    def __init__(self, doc):
        self.doc = doc


def _json_doc(d, sort_keys):
    """copy of `d` as json.dumps would see it; raises TypeError like json.dumps for non-JSON values"""
    if d is None or isinstance(d, (bool, str, int, float)):
        return d
    if isinstance(d, SymNum):
        return d  # an arbitrary finite int / float
    if isinstance(d, dict):
        for k in d:
            if not isinstance(k, str):
                raise TypeError(f"abstract json layer: non-string key {k!r} (json would coerce or reject it)")
        keys = sorted(d) if sort_keys else list(d)
        return {k: _json_doc(d[k], sort_keys) for k in keys}
    if isinstance(d, (list, tuple)):
        return [_json_doc(v, sort_keys) for v in d]
    raise TypeError(f"Object of type {type(d).__name__} is not JSON serializable")


class AbstractJson:
    """stands in for the module `json` inside fdtdx.conversion.json"""

    @staticmethod
    def dumps(d, sort_keys=False, indent=None, **kw):
        return _Text(_json_doc(d, sort_keys))

    @staticmethod
    def loads(t):
        if not isinstance(t, _Text):
            raise TypeError("abstract json layer: loads() of something dumps() did not produce")
        return _json_doc(t.doc, False)


class abstract_text_layer:
    """symbolic leaves: `json` inside fdtdx.conversion.json is the abstract text layer and the
    `isinstance` / `math` globals of the listed repository modules are the symbolic shims (a symbolic
    real counts as a float, a symbolic integer as an int).  `float`, `jnp`, `jax` stay the real ones:
    the serialisation code does no array arithmetic.  Everything outside this context (the bounded
    parts) runs the unmodified modules."""

    def __enter__(self):
        import fdtdx.conversion.json as J
        from vc.shims import patched

        self.J = J
        self.saved = J.json
        J.json = AbstractJson
        self.cm = patched(MODULES, names=("isinstance", "math"))
        self.cm.__enter__()
        return self

    def __exit__(self, *a):
        self.J.json = self.saved
        self.cm.__exit__(*a)


# ---------------------------------------------------------------------------------------
# deep value comparison
# ---------------------------------------------------------------------------------------


ROUNDOFF_SEEN = []  # (where, a, b): concrete floats that came back within 4 ulp but not bit-identical


def _is_tree(x):
    from fdtdx.core.jax.pytrees import TreeClass

    return isinstance(x, TreeClass)


def _is_array(x):
    import numpy as np

    if isinstance(x, (np.ndarray, np.generic)):
        return True
    return hasattr(x, "shape") and hasattr(x, "dtype") and not isinstance(x, type) and type(x).__module__.startswith(("jax", "jaxlib"))


def _fields_of(x):
    """name -> value for everything an object holds (public and private state)"""
    if _is_tree(x):
        return {k: getattr(x, k) for k in sorted(vars(x))}
    return {f.name: getattr(x, f.name) for f in dataclasses.fields(x)}


def equiv(a, b, where="", diffs=None, arrays_exact_type=False):
    """a == b field-wise / element-wise -> bool | SymBool; first differences go to `diffs`"""
    import numpy as np

    diffs = diffs if diffs is not None else []

    def no(msg):
        if len(diffs) < 6:
            diffs.append(f"{where or '<root>'}: {msg}")
        return False

    if isinstance(a, (SymNum, SymBool)) or isinstance(b, (SymNum, SymBool)):
        if isinstance(a, (bool, str, type(None))) or isinstance(b, (bool, str, type(None))):
            return no(f"{a!r} vs {b!r}")
        if isinstance(a, SymNum) and isinstance(b, SymNum) and a.is_int != b.is_int:
            return no("int vs float")
        if not isinstance(a, (SymNum, SymBool, int, float)) or not isinstance(b, (SymNum, SymBool, int, float)):
            return no(f"{type(a).__name__} vs {type(b).__name__}")
        return A.v_eq(a, b)
    if _is_array(a) or _is_array(b):
        if not (_is_array(a) and _is_array(b)):
            return no(f"{type(a).__name__} vs {type(b).__name__}")
        if arrays_exact_type and type(a) is not type(b):
            return no(f"array class {type(a).__name__} vs {type(b).__name__}")
        na, nb = np.asarray(a), np.asarray(b)
        if na.shape != nb.shape:
            return no(f"array shape {na.shape} vs {nb.shape}")
        if arrays_exact_type and na.dtype != nb.dtype:
            return no(f"array dtype {na.dtype} vs {nb.dtype}")
        if not np.array_equal(na, nb, equal_nan=na.dtype.kind in "fc"):
            return no("array values differ")
        return True
    if _is_tree(a) or _is_tree(b) or (dataclasses.is_dataclass(a) and not isinstance(a, type)) or (dataclasses.is_dataclass(b) and not isinstance(b, type)):
        if type(a) is not type(b):
            return no(f"{type(a).__name__} vs {type(b).__name__}")
        fa, fb = _fields_of(a), _fields_of(b)
        if set(fa) != set(fb):
            return no(f"fields {sorted(set(fa) ^ set(fb))} present on one side only")
        res = True
        for k in fa:
            res = A._vand(res, equiv(fa[k], fb[k], f"{where}.{k}", diffs, arrays_exact_type))
        return res
    if isinstance(a, (list, tuple)) or isinstance(b, (list, tuple)):
        if type(a) is not type(b):
            return no(f"{type(a).__name__} vs {type(b).__name__}")
        if len(a) != len(b):
            return no(f"length {len(a)} vs {len(b)}")
        res = True
        for i, (x, y) in enumerate(zip(a, b)):
            res = A._vand(res, equiv(x, y, f"{where}[{i}]", diffs, arrays_exact_type))
        return res
    if isinstance(a, dict) or isinstance(b, dict):
        if type(a) is not type(b) or set(a) != set(b):
            return no(f"dict keys {sorted(map(str, a)) if isinstance(a, dict) else type(a).__name__} vs {sorted(map(str, b)) if isinstance(b, dict) else type(b).__name__}")
        res = True
        for k in a:
            res = A._vand(res, equiv(a[k], b[k], f"{where}[{k!r}]", diffs, arrays_exact_type))
        return res
    if type(a) is not type(b):
        return no(f"{type(a).__name__} {a!r} vs {type(b).__name__} {b!r}")
    if isinstance(a, float) and a != a:
        return True if b != b else no("nan vs number")
    if a is b:
        return True
    if isinstance(a, float) and a != b:
        import math

        # IEEE round-off of a constructor that re-normalises on import (pole orientation vectors) is
        # not a difference in the exact-arithmetic reading used by this framework; it is recorded
        if math.isfinite(a) and math.isfinite(b) and abs(a - b) <= 4 * math.ulp(max(abs(a), abs(b))):
            ROUNDOFF_SEEN.append((where, a, b))
            return True
        return no(f"{a!r} vs {b!r}")
    if not hasattr(a, "__dict__") and getattr(type(a), "__slots__", None) == ():
        return True  # stateless sentinels (NULL)
    try:
        ok = bool(a == b)
    except Exception:  # noqa: BLE001
        ok = False
    return True if ok else no(f"{a!r} vs {b!r}")


# ---------------------------------------------------------------------------------------
# leaves
# ---------------------------------------------------------------------------------------

_FLOAT_POOL = [1.55e-6, 0.1, 1.0 / 3.0, 2.5, 1e-15, 3.0, 1e22, 5e-324, 1.7976931348623157e308, 0.30000000000000004, 6.02214076e23, 1e-7, 123456789.123456789, 2.0**-30, 0.7071067811865476]


DOMAINS = ("real", "pos", "unit")  # tried in this order until the constructor accepts the value


class SymLeaves:
    symbolic = True

    def real(self, name):
        return sym_real(name)

    def pos(self, name):
        return sym_real(name, lo_strict=0)

    def unit(self, name):
        return sym_real(name, lo=0, hi=1)

    def integer(self, name, lo=None, hi=None):
        return sym_int(name, lo=lo, hi=hi)

    def num(self, tp, name, domain):
        if tp is int:
            return sym_int(name, lo={"real": None, "pos": 1, "unit": 0}[domain], hi=1 if domain == "unit" else None)
        return {"real": self.real, "pos": self.pos, "unit": self.unit}[domain](name)


class ConcreteLeaves:
    symbolic = False

    def __init__(self, rnd):
        self.rnd = rnd

    def real(self, name):
        r = self.rnd.random()
        if r < 0.5:
            v = self.rnd.choice(_FLOAT_POOL)
        elif r < 0.6:
            v = float(self.rnd.randint(-5, 5))
        else:
            v = self.rnd.uniform(-1, 1) * 10 ** self.rnd.randint(-12, 6)
        return -v if self.rnd.random() < 0.3 else v

    def pos(self, name):
        v = abs(self.real(name))
        return v if v > 0 else 1e-6

    def unit(self, name):
        return self.rnd.choice([0.0, 1.0, 0.5, self.rnd.random(), 1.0 / 3.0])

    def integer(self, name, lo=None, hi=None):
        lo = -7 if lo is None else lo
        hi = lo + 40 if hi is None else hi
        return self.rnd.choice([lo, hi, self.rnd.randint(lo, hi), self.rnd.randint(lo, hi)])

    def num(self, tp, name, domain):
        if tp is int:
            return {"real": lambda: self.integer(name), "pos": lambda: self.integer(name, lo=1), "unit": lambda: self.rnd.choice([0, 1])}[domain]()
        return {"real": self.real, "pos": self.pos, "unit": self.unit}[domain](name)


class ProbeLeaves:
    """fixed concrete values used to find out which domain a constructor accepts for a field
    (negative, positive, inside [0,1]) before symbolic leaves with the matching assumption are used"""

    symbolic = False

    def real(self, name):
        return -1.5

    def pos(self, name):
        return 2.5

    def unit(self, name):
        return 0.5

    def integer(self, name, lo=None, hi=None):
        return max(-3, lo) if lo is not None else -3

    def num(self, tp, name, domain):
        if tp is int:
            return {"real": -3, "pos": 2, "unit": 1}[domain]
        return {"real": -1.5, "pos": 2.5, "unit": 0.5}[domain]


# ---------------------------------------------------------------------------------------
# instances enumerated from the type annotations
# ---------------------------------------------------------------------------------------

ALLOWED_OBJECTS = [
    "SimulationVolume",
    "UniformMaterialObject",
    "ModePlaneSource",
    "GaussianPlaneSource",
    "UniformPlaneSource",
    "ClosedSurfacePhasorPoyntingFluxDetector",
    "ClosedSurfacePoyntingFluxDetector",
    "EnergyDetector",
    "FieldDetector",
    "FieldProjectionAngleDetector",
    "FieldProjectionCartesianDetector",
    "FieldProjectionKSpaceDetector",
    "ModeOverlapDetector",
    "PhasorDetector",
    "PhasorPoyntingFluxDetector",
    "PoyntingFluxDetector",
    "PerfectlyMatchedLayer",
    "OnOffSwitch",
    "SingleFrequencyProfile",
    "GaussianPulseProfile",
    "WaveCharacter",
]
ALLOWED_CONSTRAINTS = ["PositionConstraint", "SizeConstraint", "SizeExtensionConstraint", "GridCoordinateConstraint"]
# not in the allow-lists but part of every setup (config) or reachable through the fields above
SUPPORT_CLASSES = ["SimulationConfig", "UniformGrid", "QuasiUniformGrid", "RectilinearGrid", "GradientConfig", "Material", "Color", "GaussianWindow", "TukeyWindow", "DispersionModel", "LorentzPole", "DrudePole", "Recorder", "LinearReconstructEveryK", "DtypeConversion"]


def resolve_class(name):
    import fdtdx
    import fdtdx.colors
    import fdtdx.core.window
    import fdtdx.dispersion
    import fdtdx.interfaces.modules
    import fdtdx.interfaces.recorder
    import fdtdx.interfaces.time_filter
    import fdtdx.objects.object

    for mod in (fdtdx, fdtdx.objects.object, fdtdx.colors, fdtdx.core.window, fdtdx.dispersion, fdtdx.interfaces.recorder, fdtdx.interfaces.modules, fdtdx.interfaces.time_filter):
        if hasattr(mod, name):
            return getattr(mod, name)
    raise Undecided(f"class {name} of the JSON allow-list cannot be found")


def allow_lists_from_source():
    """the names JsonSetup.validate accepts, read from the running code (so that a change of the
    allow-lists shows up as 'not covered' instead of silently shrinking the check)"""
    import ast
    import inspect
    import textwrap

    from fdtdx.conversion.json import JsonSetup

    tree = ast.parse(textwrap.dedent(inspect.getsource(JsonSetup.validate)))
    out = {}
    for node in ast.walk(tree):
        if isinstance(node, ast.Assign) and isinstance(node.targets[0], ast.Name) and node.targets[0].id in ("valid_object_names", "valid_constraint_names") and isinstance(node.value, ast.Set):
            out[node.targets[0].id] = sorted(e.value for e in node.value.elts if isinstance(e, ast.Constant))
    return out


class Gen:
    """alternative (mostly non-default) values for a field, driven by its type annotation"""

    def __init__(self, leaves, seq_lengths=(1, 3, 0)):
        self.L = leaves
        self.n = 0
        self.seq_lengths = seq_lengths

    def nm(self, base):
        self.n += 1
        return f"{base}{self.n}"

    # -- helper class instances -----------------------------------------------------------
    def wave_characters(self):
        from fdtdx.core.wavelength import WaveCharacter

        L = self.L
        return [WaveCharacter(wavelength=L.pos(self.nm("wl")), phase_shift=L.real(self.nm("ph"))), WaveCharacter(frequency=L.pos(self.nm("fr"))), WaveCharacter(period=L.pos(self.nm("per")))]

    def switches(self):
        from fdtdx.core.switch import OnOffSwitch

        L = self.L
        return [
            OnOffSwitch(start_time=L.real(self.nm("st")), end_time=L.real(self.nm("et")), interval=L.integer(self.nm("iv"), lo=1)),
            OnOffSwitch(fixed_on_time_steps=[L.integer(self.nm("ts"), lo=0), L.integer(self.nm("ts"), lo=0)]),
            OnOffSwitch(start_after_periods=L.real(self.nm("sp")), end_after_periods=L.real(self.nm("ep")), on_for_time=L.real(self.nm("ot")), on_for_periods=L.real(self.nm("op")), period=L.real(self.nm("pp")), is_always_off=True),
        ]

    def materials(self):
        from fdtdx.dispersion import DispersionModel, DrudePole, LorentzPole
        from fdtdx.materials import Material

        L = self.L
        out = [
            Material(permittivity=L.pos(self.nm("eps"))),
            Material(permittivity=(L.pos(self.nm("e")), L.pos(self.nm("e")), L.pos(self.nm("e"))), permeability=L.pos(self.nm("mu")), electric_conductivity=L.real(self.nm("sg"))),
            Material(permittivity=tuple(L.pos(self.nm("t")) if i in (0, 4, 8) else L.real(self.nm("t")) for i in range(9)), magnetic_conductivity=(L.real(self.nm("ms")), L.real(self.nm("ms")), L.real(self.nm("ms")))),
        ]
        try:
            out.append(Material(permittivity=L.pos(self.nm("einf")), dispersion=DispersionModel(poles=(LorentzPole(resonance_frequency=L.pos(self.nm("w0")), damping=L.pos(self.nm("g")), delta_epsilon=L.pos(self.nm("de"))), DrudePole(plasma_frequency=L.pos(self.nm("wp")), damping=L.pos(self.nm("gd")))))))
        except Exception:  # noqa: BLE001 - constructor signature of the dispersion classes is not what is under test
            pass
        return out

    def colors(self):
        from fdtdx.colors import Color

        L = self.L
        return [Color(r=L.unit(self.nm("r")), g=L.unit(self.nm("g")), b=L.unit(self.nm("b")))]

    def profiles(self):
        from fdtdx.objects.sources.profile import GaussianPulseProfile, SingleFrequencyProfile

        L = self.L
        wc = self.wave_characters()
        return [SingleFrequencyProfile(phase_shift=L.real(self.nm("ps")), num_startup_periods=L.integer(self.nm("ns"), lo=0)), *self.special(GaussianPulseProfile)[:2]]

    def windows(self):
        import inspect

        from fdtdx.core.window import GaussianWindow, TukeyWindow

        out = []
        for cls in (GaussianWindow, TukeyWindow):
            out.extend(self.instances(cls)[:2])
        return out

    def grids(self):
        import jax.numpy as jnp
        import numpy as np

        from fdtdx.core.grid import QuasiUniformGrid, RectilinearGrid, UniformGrid

        L = self.L
        out = [UniformGrid(spacing=L.pos(self.nm("dx")), center=(L.real(self.nm("cx")), L.real(self.nm("cy")), L.real(self.nm("cz"))))]
        try:
            out.extend(self.instances(QuasiUniformGrid)[:2])
        except Exception:  # noqa: BLE001
            pass
        e = np.array([0.0, 1e-7, 2.5e-7, 4e-7, 6.1e-7])
        out.append(RectilinearGrid(x_edges=jnp.asarray(e), y_edges=jnp.asarray(e * 2), z_edges=jnp.asarray(e[:3])))
        return out

    def gradient_configs(self):
        import jax.numpy as jnp

        from fdtdx.config import GradientConfig
        from fdtdx.interfaces.modules import DtypeConversion
        from fdtdx.interfaces.recorder import Recorder
        from fdtdx.interfaces.time_filter import LinearReconstructEveryK

        L = self.L
        return [
            GradientConfig(method="checkpointed", num_checkpoints=L.integer(self.nm("nc"), lo=1)),
            GradientConfig(method="reversible", recorder=Recorder(modules=[LinearReconstructEveryK(k=2, start_recording_after=1), DtypeConversion(dtype=jnp.float16)]), num_checkpoints_reversible=L.integer(self.nm("ncr"), lo=0)),
        ]

    # -- by annotation ----------------------------------------------------------------------
    def alts(self, tp, fname="", owner="", domain="real"):
        import jax
        import jax.numpy as jnp
        import numpy as np

        L = self.L
        origin = typing.get_origin(tp)
        args = typing.get_args(tp)
        # field-name overrides: values whose domain the constructors / placement restrict
        if fname in ("axis", "projection_axis", "bend_axis", "fixed_propagation_axis") and tp in (int, typing.Optional[int], int | None):
            return [0, 1, 2] + ([None] if tp is not int else [])
        if fname == "symmetry":
            n = len(args) if args else 3
            return [tuple([1, -1, 0][:n]), tuple([0, 1, 1][:n]), tuple([-1, 0, -1][:n])]
        if fname == "dtype":
            return [jnp.float32, jnp.float64, jnp.complex64, jnp.complex128, jnp.float16, jnp.bfloat16]
        if fname == "name":
            return ["some name", "obj_7", "Ünicode \"quoted\" \\ name\n"]
        if fname == "backend":
            return ["cpu"]
        if fname == "axes" and owner not in ALLOWED_CONSTRAINTS:
            return [(0,), (0, 2), (0, 1, 2), None]
        if tp is float or tp is int:
            return [L.num(tp, self.nm(fname or "x"), domain)]
        if tp is bool:
            return [True, False]
        if tp is str:
            return ["text", ""]
        if tp is type(None):
            return [None]
        if tp is typing.Any or tp is object:
            return ["anything"]
        if origin is typing.Literal:
            return list(args)
        if origin in (typing.Union, types.UnionType):
            out = []
            for a in args:
                for v in self.alts(a, fname, owner, domain):
                    out.append(v)
            return out
        if origin is tuple:
            if len(args) == 2 and args[1] is Ellipsis:
                return [tuple(self.alts(args[0], fname, owner, domain)[0] for _ in range(n)) for n in self.seq_lengths]
            if any(typing.get_origin(a) in (typing.Union, types.UnionType) for a in args):
                full = tuple(self.alts(a, fname, owner, domain)[0] for a in args)
                holes = tuple(None if i % 2 == 0 else self.alts(a, fname, owner, domain)[0] for i, a in enumerate(args))
                holes2 = tuple(None if i % 2 == 1 else self.alts(a, fname, owner, domain)[0] for i, a in enumerate(args))
                return [full, holes, holes2]
            return [tuple(self.alts(a, fname, owner, domain)[0] for a in args)]
        if origin in (list, typing.Sequence) or (isinstance(origin, type) and issubclass(origin, typing.Sequence)) or tp in (list, tuple):
            elem = args[0] if args else float
            pool = self.alts(elem, fname, owner, domain)
            out = [[pool[i % len(pool)] if i < len(pool) else self.alts(elem, fname, owner, domain)[0] for i in range(n)] for n in self.seq_lengths]
            if origin is not list:
                out.append(tuple(self.alts(elem, fname, owner, domain)[0] for _ in range(2)))
            return out
        if tp is jax.Array or tp is np.ndarray:
            return [jnp.asarray(np.array([[0.5, 1.5], [2.5, -3.25]])), np.array([1.0, 2.0, 4.0]), jnp.asarray(np.array(3.5))]
        if isinstance(tp, type):
            nm = tp.__name__
            if nm == "WaveCharacter":
                return self.wave_characters()
            if nm == "OnOffSwitch":
                return self.switches()
            if nm == "Material":
                return self.materials()
            if nm == "Color":
                return self.colors()
            if nm == "TemporalProfile":
                return self.profiles()
            if nm == "TemporalWindow":
                return self.windows()
            if nm in ("UniformGrid", "QuasiUniformGrid", "RectilinearGrid"):
                return [g for g in self.grids() if type(g).__name__ == nm]
            if nm == "GradientConfig":
                return self.gradient_configs()
            if nm == "dtype":
                return [jnp.float32, jnp.float64]
            if nm == "Pole":
                from fdtdx.dispersion import DrudePole, LorentzPole

                return [self.instances(LorentzPole)[-1], self.instances(DrudePole)[-1], self.instances(LorentzPole)[0]]
            if _has_fields(tp):
                return self.instances(tp)[:3]
        raise Undecided(f"no value generator for annotation {tp!r} of field {owner}.{fname}: the field is not covered by the round-trip check")

    # -- instances of a class ---------------------------------------------------------------
    def field_specs(self, cls):
        """(name, annotation, required?) of the constructor fields"""
        import pytreeclass as tc

        out = []
        if dataclasses.is_dataclass(cls) and not _is_tree_class(cls):
            hints = typing.get_type_hints(cls)
            for f in dataclasses.fields(cls):
                req = f.default is dataclasses.MISSING and f.default_factory is dataclasses.MISSING
                out.append((f.name, hints.get(f.name, f.type), req))
            return out
        try:
            hints = typing.get_type_hints(cls)
        except Exception:  # noqa: BLE001 - unresolved forward references: fall back to the raw annotation
            hints = {}
        for f in tc.fields(cls):
            tp = hints.get(f.name, f.type) if isinstance(f.type, str) else f.type
            if isinstance(tp, str):
                raise Undecided(f"annotation {tp!r} of {cls.__name__}.{f.name} cannot be resolved: field not covered")
            if not f.init or typing.get_origin(tp) is typing.ClassVar or f.name.startswith("_"):
                continue
            out.append((f.name, tp, repr(f.default) in ("NULL", "null")))
        return out

    def special(self, cls):
        """hand-written instance lists for classes whose constructor arguments are interdependent"""
        nm = cls.__name__
        if nm == "WaveCharacter":
            return self.wave_characters()
        if nm == "Material":
            return self.materials()
        if nm == "RectilinearGrid":
            return [g for g in self.grids() if type(g).__name__ == nm]
        if nm == "GradientConfig":
            return self.gradient_configs()
        if nm == "Recorder":
            return [g.recorder for g in self.gradient_configs() if g.recorder is not None]
        if nm in ALLOWED_CONSTRAINTS:
            return self.constraints(nm)
        if nm == "GaussianPulseProfile":
            from fdtdx.core.wavelength import WaveCharacter

            L = self.L
            return [
                cls(spectral_width=WaveCharacter(wavelength=L.pos(self.nm("sw"))), center_wave=self.wave_characters()[0]),
                cls(spectral_width=WaveCharacter(frequency=L.pos(self.nm("sf"))), center_wave=self.wave_characters()[1]),
                cls(spectral_width=WaveCharacter(period=L.pos(self.nm("sp"))), center_wave=self.wave_characters()[2]),
            ]
        if nm == "TukeyWindow":
            L = self.L
            def later(t):
                e = t + L.pos(self.nm("dt"))
                return e if L.symbolic or e > t else t + abs(t) + 1.0  # floating point: t + small == t

            a, b = L.real(self.nm("t0")), L.real(self.nm("t0"))
            return [cls(start_time=a, end_time=later(a)), cls(start_time=b, end_time=later(b), alpha=L.unit(self.nm("al")))]
        return None

    def constraints(self, nm):
        from fdtdx.objects import object as O

        L = self.L
        out = []
        for n in (1, 2, 3):
            axes = tuple(range(n))
            fl = lambda base: tuple(L.real(self.nm(base)) for _ in range(n))  # noqa: E731
            it = lambda base: tuple(L.integer(self.nm(base)) for _ in range(n))  # noqa: E731
            if nm == "PositionConstraint":
                out.append(O.PositionConstraint(object="a", other_object="b", axes=axes, object_positions=fl("op"), other_object_positions=fl("oop"), margins=fl("m"), grid_margins=it("gm")))
            elif nm == "SizeConstraint":
                out.append(O.SizeConstraint(object="a", other_object="b", axes=axes, other_axes=tuple(reversed(axes)), proportions=fl("pr"), offsets=fl("of"), grid_offsets=it("go")))
            elif nm == "GridCoordinateConstraint":
                out.append(O.GridCoordinateConstraint(object="a", axes=axes, sides=tuple("+-+"[:n]), coordinates=it("co")))
        if nm == "SizeExtensionConstraint":
            for other, d in (("b", "+"), (None, "-")):
                for ax in (0, 1, 2):
                    out.append(O.SizeExtensionConstraint(object="a", other_object=other, axis=ax, direction=d, other_position=L.real(self.nm("opos")), offset=L.real(self.nm("off")), grid_offset=L.integer(self.nm("goff"))))
        return out

    def instances(self, cls, max_alts=4, notes=None, combos=0):
        """base instance, one instance per (field, alternative), and instances with all fields set.

        The numeric domain a constructor accepts for a field (any real / positive / within [0,1]) is
        found by PROBING the real constructor with fixed concrete values; the leaves of the actual
        instance then carry the matching assumption, so the constructor's own validation is decided
        by the assumption instead of forking.  Where a constructor cannot take a symbolic number at
        all (numpy-based validation), the probe value itself is used for that field (recorded)."""
        sp = self.special(cls)
        if sp is not None:
            return sp
        specs = self.field_specs(cls)
        owner = cls.__name__
        probe = Gen(ProbeLeaves(), self.seq_lengths)
        rejected = []

        def construct(kw):
            try:
                return cls(**kw)
            except Undecided:
                raise
            except Exception as e:  # noqa: BLE001 - the constructor refuses this combination: not a setup
                rejected.append(repr(e)[:160])
                return None

        # domains of the required fields
        req = [(n, tp) for n, tp, r in specs if r]
        base_dom = None
        for combo in itertools.product(DOMAINS, repeat=len(req)):
            if construct({n: probe.alts(tp, n, owner, d)[0] for (n, tp), d in zip(req, combo)}) is not None:
                base_dom = dict(zip([n for n, _ in req], combo))
                break
        if base_dom is None:
            raise Undecided(f"cannot construct {owner} from generated required fields: {rejected[-1:]}")
        probe_base = {n: probe.alts(tp, n, owner, base_dom[n])[0] for n, tp in req}
        # domain per field: the one under which most alternatives are accepted
        dom = dict(base_dom)
        accepted = {}
        for n, tp, r in specs:
            best = None
            for d in DOMAINS:
                vals = probe.alts(tp, n, owner, d)[:max_alts]
                okv = [construct({**probe_base, n: v}) is not None for v in vals]
                if best is None or sum(okv) > sum(best[1]):
                    best = (d, okv)
                if all(okv):
                    break
            dom[n], accepted[n] = best
        uncovered = [n for n, _, _ in specs if not any(accepted[n])]
        if uncovered:
            raise Undecided(f"{owner}: no accepted value could be generated for field(s) {uncovered}; they are not covered ({rejected[:3]})")
        # the actual instances
        out, concrete_only = [], []
        base_kw = {n: self.alts(tp, n, owner, dom[n])[0] for n, tp in req}
        base = construct(dict(base_kw))
        if base is None:
            base_kw = dict(probe_base)
            base = construct(dict(base_kw))
            concrete_only.append("<required fields>")
        out.append(base)
        for n, tp, r in specs:
            vals = self.alts(tp, n, owner, dom[n])[:max_alts]
            pvals = probe.alts(tp, n, owner, dom[n])[:max_alts]
            for v, pv, ok in zip(vals, pvals, accepted[n]):
                if not ok:
                    continue
                x = construct({**base_kw, n: v})
                if x is None:
                    x = construct({**base_kw, n: pv})
                    concrete_only.append(n)
                if x is not None:
                    out.append(x)
        for pick in (0, -1):
            kw, pkw = dict(base_kw), dict(base_kw)
            for n, tp, r in specs:
                idx = [i for i, ok in enumerate(accepted[n]) if ok]
                i = idx[pick]
                kw[n] = self.alts(tp, n, owner, dom[n])[:max_alts][i] if n not in concrete_only else probe.alts(tp, n, owner, dom[n])[:max_alts][i]
            x = construct(kw)
            if x is not None:
                out.append(x)
        # seeded random combinations of off-default fields (thorough tier)
        crnd = random.Random(f"combos/{owner}")
        for _ in range(combos):
            kw = dict(base_kw)
            for n, tp, r in specs:
                idx = [i for i, ok in enumerate(accepted[n]) if ok]
                if crnd.random() < 0.5:
                    i = crnd.choice(idx)
                    src = probe if n in concrete_only else self
                    kw[n] = src.alts(tp, n, owner, dom[n])[:max_alts][i]
            x = construct(kw)
            if x is not None:
                out.append(x)
        if notes is not None:
            notes[owner] = {"instances": len(out), "fields": len(specs), "domains": {k: v for k, v in dom.items() if v != "real"}, "fields_with_concrete_values_only": sorted(set(concrete_only))}
        return out


def _is_tree_class(cls):
    from fdtdx.core.jax.pytrees import TreeClass

    return isinstance(cls, type) and issubclass(cls, TreeClass)


def _has_fields(tp):
    return _is_tree_class(tp) or dataclasses.is_dataclass(tp)


# ---------------------------------------------------------------------------------------
# (A) per class
# ---------------------------------------------------------------------------------------


class _Prover:
    """c.prove with a cap on distinct names for literally-false goals (the harness writes one replay
    file per distinct failing name): after three failures of a group the rest share one name"""

    def __init__(self, c):
        self.c = c
        self.fails = {}

    def __call__(self, group, name, goal):
        if goal is False:
            self.fails[group] = self.fails.get(group, 0) + 1
            if self.fails[group] > 3:
                name = f"{group}/#further_failures:import(export(x))==x"
        return self.c.prove(name, goal)



class _Bounded:
    """records bounded evaluations; after three failures of a group the remaining ones share one name
    (the harness writes one replay file per distinct name)"""

    def __init__(self, c):
        self.c = c
        self.fails = {}

    def __call__(self, group, name, ok, case=None, witness=None):
        if not ok:
            self.fails[group] = self.fails.get(group, 0) + 1
            if self.fails[group] > 3:
                name = f"{group}/further_failures"
        self.c.bounded(name, ok, case=case, witness=witness)



def _round_trip(x):
    import fdtdx.conversion.json as J

    return J.import_from_json(J.export_json_str(x))


def _class_task(names, combos=0):
    def body(c, inp):
        import fdtdx.conversion.json as J

        notes = {}
        rec = _Bounded(c)
        prove = _Prover(c)
        for name in names:
            cls = resolve_class(name)
            # symbolic leaves, abstract text layer
            with abstract_text_layer():
                insts = Gen(SymLeaves()).instances(cls, notes=notes, combos=combos)
                for i, x in enumerate(insts):
                    try:
                        y = _round_trip(x)
                    except (Unsupported, Undecided):
                        raise  # engine limitation, never a verdict about the code
                    except Exception as e:  # noqa: BLE001 - a serialisable setup must come back
                        prove(name, f"{name}/#{i}:round_trip_completes", False)
                        inp.note(f"{name}/#{i}", f"{type(e).__name__}: {e}"[:300])
                        continue
                    diffs = []
                    ok = equiv(x, y, "", diffs)
                    if ok is False:
                        inp.note(f"{name}/#{i}", "; ".join(diffs))
                    prove(name, f"{name}/#{i}:import(export(x))==x", ok)
                # the class lookup itself
                c.prove(f"{name}:class_lookup", getattr(__import__("importlib").import_module(cls.__module__), cls.__name__, None) is cls)
            # concrete leaves, REAL json text (bounded)
            for rep in range(2):
                rnd = random.Random(f"{name}/{rep}")
                gc = Gen(ConcreteLeaves(rnd))
                for i, x in enumerate(gc.instances(cls, combos=combos)):
                    diffs = []
                    try:
                        y = _round_trip(x)
                        ok = equiv(x, y, "", diffs) is True
                    except Exception as e:  # noqa: BLE001
                        ok = False
                        diffs.append(f"{type(e).__name__}: {e}"[:300])
                    rec(name, f"{name}/concrete#{rep}.{i}", ok, case={"class": name, "seed": f"{name}/{rep}", "instance": i}, witness={"notes": {"kind": "class", "class": name, "seed": f"{name}/{rep}", "instance": i, "detail": "; ".join(diffs)}})
        inp.note("coverage", notes)

    return body


# ---------------------------------------------------------------------------------------
# (C) generic containers
# ---------------------------------------------------------------------------------------


def _container_leaf(k, L, n):
    import jax.numpy as jnp
    import numpy as np

    m = k % 9
    if m == 0:
        return L.real(f"cl{n}")
    if m == 1:
        return L.integer(f"ci{n}")
    if m == 2:
        return None
    if m == 3:
        return "s\"tr\\ingé"
    if m == 4:
        return True
    if m == 5:
        return jnp.float32
    if m == 6:
        return np.array([[1.5, 2.0], [3.0, 4.25]])
    if m == 7:
        return jnp.asarray(np.array(2.5))
    return False


def _build_container(kinds, lengths, L, counter):
    """container of kind kinds[0] with lengths[0] entries; entry 0 is the nested container"""
    kind, n = kinds[0], lengths[0]
    items = []
    for i in range(n):
        if i == 0 and len(kinds) > 1:
            items.append(_build_container(kinds[1:], lengths[1:], L, counter))
        else:
            counter[0] += 1
            items.append(_container_leaf(counter[0], L, counter[0]))
    if kind == "list":
        return items
    if kind == "tuple":
        return tuple(items)
    return {f"key {i}" if i % 2 else f"k{i}": v for i, v in enumerate(items)}


def _containers_task(c, inp):
    counter = [0]
    prove = _Prover(c)
    with abstract_text_layer():
        for d in (1, 2, 3):
            for kinds in itertools.product(("list", "tuple", "dict"), repeat=d):
                for lengths in itertools.product((0, 1, 2, 3), repeat=d):
                    if any(n == 0 for n in lengths[:-1]):
                        continue  # the nested container sits in entry 0
                    x = _build_container(kinds, lengths, SymLeaves(), counter)
                    tag = "containers/" + ">".join(f"{k}{n}" for k, n in zip(kinds, lengths))
                    try:
                        y = _round_trip(x)
                    except (Unsupported, Undecided):
                        raise
                    except Exception as e:  # noqa: BLE001
                        inp.note(tag, f"{type(e).__name__}: {e}"[:200])
                        prove("containers", f"{tag}:round_trip_completes", False)
                        continue
                    diffs = []
                    ok = equiv(x, y, "", diffs)
                    if ok is False:
                        inp.note(tag, "; ".join(diffs))
                    prove("containers", f"{tag}:import(export(x))==x", ok)
    # same shapes, concrete leaves, real json (bounded)
    rnd = random.Random("containers")
    n_ok, n_all, first_bad = 0, 0, None
    for d in (1, 2, 3):
        for kinds in itertools.product(("list", "tuple", "dict"), repeat=d):
            for lengths in itertools.product((0, 1, 2, 3), repeat=d):
                if any(n == 0 for n in lengths[:-1]):
                    continue
                x = _build_container(kinds, lengths, ConcreteLeaves(rnd), counter)
                n_all += 1
                try:
                    good = equiv(x, _round_trip(x)) is True
                except Exception as e:  # noqa: BLE001
                    good = False
                n_ok += good
                if not good and first_bad is None:
                    first_bad = ">".join(f"{k}{n}" for k, n in zip(kinds, lengths))
    c.bounded("containers/concrete_real_json", n_ok == n_all, case={"shapes": n_all}, witness={"notes": {"kind": "containers", "first_bad": first_bad}})


# ---------------------------------------------------------------------------------------
# (B) text layer on concrete documents
# ---------------------------------------------------------------------------------------


def _text_layer_task(c, inp):
    import json
    import math

    import fdtdx.conversion.json as J

    def same_doc(a, b):
        if isinstance(a, float) and isinstance(b, float):
            return (a != a and b != b) or (a == b and math.copysign(1, a) == math.copysign(1, b))
        if type(a) is not type(b):
            return False
        if isinstance(a, dict):
            return set(a) == set(b) and all(same_doc(a[k], b[k]) for k in a)
        if isinstance(a, list):
            return len(a) == len(b) and all(same_doc(x, y) for x, y in zip(a, b))
        return a == b

    n = 0
    for name in ALLOWED_OBJECTS + ALLOWED_CONSTRAINTS + SUPPORT_CLASSES:
        cls = resolve_class(name)
        rnd = random.Random(f"text/{name}")
        for i, x in enumerate(Gen(ConcreteLeaves(rnd)).instances(cls)):
            d = J.export_json(x)
            text = J._json_dict_to_str(d)
            back = json.loads(text)
            ok = isinstance(text, str) and same_doc(d, back) and same_doc(AbstractJson.loads(AbstractJson.dumps(d, sort_keys=True)), back)
            n += 1
            if not ok or i == 0:
                c.bounded(f"text_layer/{name}#{i}", ok, case={"class": name, "instance": i}, witness={"notes": {"kind": "text", "class": name, "instance": i}})
    # float / int / string edge cases through the real text layer
    edge = [0.0, -0.0, 5e-324, 2.2250738585072014e-308, 1.7976931348623157e308, float("inf"), float("-inf"), float("nan"), 0.1 + 0.2, 1e22, 1e23, 9007199254740993.0, 1 / 3, 2**70, -(2**63) - 1, 0, True, False, None, "", " 😀\"\\\n\t\x00", "Infinity", "NaN"]
    rnd = random.Random("text/edge")
    edge += [rnd.uniform(-1, 1) * 10 ** rnd.randint(-300, 300) for _ in range(300)]
    doc = {"__module__": "builtins", "__name__": "list", "__value__": edge}
    back = json.loads(J._json_dict_to_str(doc))
    c.bounded("text_layer/edge_values", same_doc(doc, back), case={"values": len(edge)}, witness={"notes": {"kind": "text_edge"}})
    got = J.import_from_json(J.export_json_str(list(edge)))
    c.bounded("text_layer/edge_values_through_export_import", same_doc(list(edge), got), case={"values": len(edge)}, witness={"notes": {"kind": "text_edge"}})
    inp.note("documents", n)


# ---------------------------------------------------------------------------------------
# (D) JsonSetup on a setup with every allowed kind, symbolic leaves
# ---------------------------------------------------------------------------------------


def _one_of_each(leaves, variant=0):
    """config, object_list (one object per allowed kind, unique names, exactly one volume),
    constraints (every kind) referring to those names"""
    g = Gen(leaves)
    objs, names = [], []
    for nm in ALLOWED_OBJECTS:
        cls = resolve_class(nm)
        insts = g.instances(cls)
        x = insts[-1 - (variant % 2)] if len(insts) > 1 else insts[0]
        if _is_tree_class(cls) and any(s[0] == "name" for s in g.field_specs(cls)):
            x = x.aset("name", f"{nm}_{variant}")
            names.append(x.name)
        objs.append(x)
    cons = []
    for nm in ALLOWED_CONSTRAINTS:
        for k, con in enumerate(g.constraints(nm)):
            kw = {f.name: getattr(con, f.name) for f in dataclasses.fields(con)}
            kw["object"] = names[(k + 1) % len(names)]
            if "other_object" in kw and kw["other_object"] is not None:
                kw["other_object"] = names[(k + 5) % len(names)]
            cons.append(type(con)(**kw))
    from fdtdx.config import SimulationConfig

    cfgs = Gen(leaves).instances(SimulationConfig)
    return cfgs[-1 - (variant % 2)], objs, cons


def _setup_task(c, inp):
    from fdtdx.conversion.json import JsonSetup

    allow = allow_lists_from_source()
    mine_o, mine_c = set(ALLOWED_OBJECTS) | {"LinearlyPolarizedPlaneSource"}, set(ALLOWED_CONSTRAINTS)
    if set(allow.get("valid_object_names", [])) != mine_o or set(allow.get("valid_constraint_names", [])) != mine_c:
        raise Undecided(f"the allow-lists of JsonSetup.validate changed ({sorted(set(allow.get('valid_object_names', [])) ^ mine_o)}, {sorted(set(allow.get('valid_constraint_names', [])) ^ mine_c)}): the enumerated classes of this check must be brought in line")
    c.prove("setup/allow_lists_match_enumerated_classes", True)
    for variant in (0, 1):
        with abstract_text_layer():
            cfg, objs, cons = _one_of_each(SymLeaves(), variant)
        for meta in (None, {"seed": 42, "note": "free text", "nested": {"a": [1, 2.5, None]}}):
            setup = JsonSetup(config=cfg, object_list=list(objs), constraints=list(cons), meta=meta)
            tag = f"setup/v{variant}/{'meta' if meta else 'nometa'}"
            with abstract_text_layer():
                try:
                    back = JsonSetup.loads(setup.dumps())
                except (Unsupported, Undecided):
                    raise
                except Exception as e:  # noqa: BLE001
                    inp.note(tag, f"{type(e).__name__}: {e}"[:400])
                    c.prove(f"{tag}:dumps_loads_completes", False)
                    continue
            c.prove(f"{tag}:is_JsonSetup", type(back) is JsonSetup)
            for part in ("config", "object_list", "constraints", "meta"):
                diffs = []
                ok = equiv(getattr(setup, part), getattr(back, part), part, diffs)
                if ok is False:
                    inp.note(f"{tag}/{part}", "; ".join(diffs))
                c.prove(f"{tag}:{part}_equal", ok)
            for i, (a, b) in enumerate(zip(setup.object_list, back.object_list)):
                c.prove(f"{tag}:object[{i}]={type(a).__name__}", equiv(a, b))


# ---------------------------------------------------------------------------------------
# (E) scenes: real place_objects on original and re-imported setup (bounded)
# ---------------------------------------------------------------------------------------


def make_scene(seed):
    """seeded scene from the serialisable kinds; returns (config, object_list, constraints, description)"""
    import jax.numpy as jnp

    import fdtdx
    from fdtdx.config import SimulationConfig
    from fdtdx.core.grid import UniformGrid
    from fdtdx.core.switch import OnOffSwitch
    from fdtdx.core.wavelength import WaveCharacter
    from fdtdx.objects.boundaries.initialization import BoundaryConfig, boundary_objects_from_config

    rnd = random.Random(f"scene/{seed}")
    dx = rnd.choice([50e-9, 100e-9, 37.5e-9])
    n = [rnd.randint(9, 13), rnd.randint(9, 13), rnd.randint(11, 13)]
    dtype = rnd.choice([jnp.float32, jnp.float64])
    cfg = SimulationConfig(time=rnd.choice([20e-15, 33.3e-15]), grid=UniformGrid(spacing=dx), dtype=dtype, courant_factor=rnd.choice([0.99, 0.7]), backend="cpu")
    if rnd.random() < 0.5:
        vol = fdtdx.SimulationVolume(partial_real_shape=tuple(k * dx for k in n), name="volume", material=fdtdx.Material(permittivity=rnd.choice([1.0, 1.44])))
    else:
        vol = fdtdx.SimulationVolume(partial_grid_shape=tuple(n), name="volume")
    objs, cons, desc = [vol], [], [f"volume {n} dx={dx}"]
    th = rnd.choice([2, 3])
    bd, cl = boundary_objects_from_config(BoundaryConfig.from_uniform_bound(thickness=th, boundary_type="pml"), vol)
    objs.extend(bd.values())
    cons.extend(cl)
    # material objects
    mats = [fdtdx.Material(permittivity=2.5), fdtdx.Material(permittivity=(2.0, 3.0, 4.0)), fdtdx.Material(permittivity=3.1, permeability=1.7), fdtdx.Material(permittivity=2.2, electric_conductivity=0.5), fdtdx.Material(permittivity=12.25, magnetic_conductivity=(0.1, 0.2, 0.3))]
    prev = vol
    for k in range(rnd.randint(1, 3)):
        # anisotropic permittivity only in the slab (below): plane sources refuse anisotropic cells
        m = rnd.choice([mm for i, mm in enumerate(mats) if i != 1])
        if rnd.random() < 0.5:
            cube = fdtdx.UniformMaterialObject(name=f"cube{k}", material=m, partial_real_shape=tuple(rnd.randint(2, 4) * dx for _ in range(3)), placement_order=k)
        else:
            cube = fdtdx.UniformMaterialObject(name=f"cube{k}", material=m, partial_grid_shape=tuple(rnd.randint(2, 4) for _ in range(3)), placement_order=k)
        objs.append(cube)
        mode = rnd.randint(0, 3)
        if mode == 0:
            cons.append(cube.place_at_center(vol))
        elif mode == 1:
            cons.append(cube.place_relative_to(vol, axes=(0, 1, 2), own_positions=(-1, 0, 1), other_positions=(-1, 0, 1), margins=(th * dx, 0, -th * dx), grid_margins=(1, 0, -1)))
        elif mode == 2:
            cons.append(cube.set_grid_coordinates(axes=(0, 1, 2), sides=("-", "-", "+"), coordinates=(th + 1, th + k, n[2] - th - 1)))
        else:
            cons.append(cube.place_at_center(vol, axes=(0, 1)))
            cons.append(cube.place_relative_to(vol, axes=(2,), own_positions=(0,), other_positions=(0,), margins=(dx * rnd.choice([-1, 0, 1]),)))
        desc.append(f"cube{k} mode {mode}")
        prev = cube
    # a slab that is sized relative to the volume and extended to the boundary
    if rnd.random() < 0.7:
        slab = fdtdx.UniformMaterialObject(name="slab", material=rnd.choice(mats), partial_grid_shape=(None, None, 2), placement_order=7)
        objs.append(slab)
        cons.append(slab.size_relative_to(vol, axes=(0,), other_axes=(0,), proportions=(0.5,), grid_offsets=(rnd.choice([0, 1]),)))
        cons.append(slab.extend_to(None, axis=1, direction="+"))
        cons.append(slab.extend_to(None, axis=1, direction="-"))
        cons.append(slab.place_at_center(vol, axes=(0,)))
        cons.append(slab.set_grid_coordinates(axes=(2,), sides=("-",), coordinates=(th,)))
        desc.append("slab")
    # source
    kind = rnd.choice(["uniform", "gauss"])
    wc = WaveCharacter(wavelength=rnd.choice([1.55e-6, 0.8e-6]))
    if kind == "uniform":
        src = fdtdx.UniformPlaneSource(name="src", partial_grid_shape=(None, None, 1), wave_character=wc, direction=rnd.choice(["+", "-"]), fixed_E_polarization_vector=(1, 0, 0), amplitude=rnd.choice([1.0, 2.5]), switch=OnOffSwitch(start_time=2e-15))
    else:
        src = fdtdx.GaussianPlaneSource(name="src", partial_grid_shape=(None, None, 1), wave_character=wc, direction=rnd.choice(["+", "-"]), fixed_E_polarization_vector=(0, 1, 0), radius=3 * dx, temporal_profile=fdtdx.GaussianPulseProfile(center_wave=wc, spectral_width=WaveCharacter(wavelength=10e-6)))
    objs.append(src)
    cons.extend(src.same_position_and_size(vol, axes=(0, 1)))
    cons.append(src.set_grid_coordinates(axes=(2,), sides=("-",), coordinates=(n[2] - th - 2,)))
    desc.append(f"source {kind}")
    # detectors
    det = fdtdx.EnergyDetector(name="energy", as_slices=rnd.random() < 0.5, switch=OnOffSwitch(interval=rnd.choice([1, 3])), plot=False)
    objs.append(det)
    cons.extend(det.same_position_and_size(vol))
    fd = fdtdx.FieldDetector(name="field", components=("Ex", "Hz"), plot=False, dtype=dtype)
    objs.append(fd)
    cons.extend(fd.same_position_and_size(prev))
    pf = fdtdx.PoyntingFluxDetector(name="flux", partial_grid_shape=(None, None, 1), direction="-", plot=False)
    objs.append(pf)
    cons.extend(pf.same_position_and_size(vol, axes=(0, 1)))
    cons.append(pf.set_grid_coordinates(axes=(2,), sides=("-",), coordinates=(th + 1,)))
    if rnd.random() < 0.6:
        ph = fdtdx.PhasorDetector(name="phasor", wave_characters=[wc, WaveCharacter(frequency=2e14)], plot=False, components=("Ey",))
        objs.append(ph)
        cons.extend(ph.same_position_and_size(prev))
    rnd.shuffle(cons)
    return cfg, objs, cons, "; ".join(desc)


def compare_placements(r1, r2):
    """(ok, detail): grid slices of every object, every array of the array container, object state,
    parameters and resolved config of two place_objects results"""
    o1, a1, p1, c1 = r1[0], r1[1], r1[2], r1[3]
    o2, a2, p2, c2 = r2[0], r2[1], r2[2], r2[3]
    if len(o1.object_list) != len(o2.object_list):
        return False, f"{len(o1.object_list)} vs {len(o2.object_list)} placed objects"
    for x, y in zip(o1.object_list, o2.object_list):
        if type(x) is not type(y) or x.name != y.name:
            return False, f"object order/type differs: {type(x).__name__} {x.name} vs {type(y).__name__} {y.name}"
        if x.grid_slice_tuple != y.grid_slice_tuple:
            return False, f"{x.name}: grid slices {x.grid_slice_tuple} vs {y.grid_slice_tuple}"
    for label, u, v in (("arrays", a1, a2), ("objects", o1, o2), ("params", p1, p2), ("config", c1, c2)):
        diffs = []
        if equiv(u, v, label, diffs, arrays_exact_type=True) is not True:
            return False, "; ".join(diffs[:3])
    return True, ""


def run_scene(seed):
    import jax

    from fdtdx.conversion.json import JsonSetup
    from fdtdx.fdtd.initialization import place_objects

    cfg, objs, cons, desc = make_scene(seed)
    setup = JsonSetup(config=cfg, object_list=list(objs), constraints=list(cons), meta={"seed": seed})
    text = setup.dumps()
    back = JsonSetup.loads(text)
    diffs = []
    for part in ("config", "object_list", "constraints", "meta"):
        equiv(getattr(setup, part), getattr(back, part), part, diffs)
    fieldwise = ("; re-imported setup differs field-wise: " + "; ".join(diffs[:3])) if diffs else ""
    key = jax.random.PRNGKey(seed)

    def place(st):
        try:
            return place_objects(object_list=st.object_list, config=st.config, constraints=st.constraints, key=key), None
        except Exception as e:  # noqa: BLE001 - the generated scene is not placeable (unsupported combination)
            return None, e

    r1, e1 = place(setup)
    r2, e2 = place(back)
    if e1 is not None or e2 is not None:
        if e1 is not None and e2 is not None and type(e1) is type(e2):
            return None, f"scene {seed} ({desc}) is not placeable ({type(e1).__name__}: {str(e1)[:120]}) - original and re-imported setup are refused alike; scene skipped"
        return False, f"scene {seed} ({desc}): place_objects(original) -> {'ok' if e1 is None else repr(e1)[:200]}, place_objects(re-imported) -> {'ok' if e2 is None else repr(e2)[:200]}{fieldwise}"
    ok, detail = compare_placements(r1, r2)
    detail += fieldwise
    import numpy as np

    eps = np.asarray(r1[1].inv_permittivities)
    info = f"scene {seed} ({desc}); {len(r1[0].object_list)} objects, inv_permittivities {eps.shape} with {len(np.unique(eps))} distinct values"
    return ok, (info + ": " + detail) if not ok else info


def _scene_task(seeds):
    def body(c, inp):
        for s0 in seeds:
            skipped = []
            for attempt in range(8):
                s = s0 + 100000 * attempt
                try:
                    ok, detail = run_scene(s)
                except Exception as e:  # noqa: BLE001
                    import traceback

                    ok, detail = False, f"scene {s}: {type(e).__name__}: {e}\n{traceback.format_exc(limit=4)}"
                if ok is None:
                    skipped.append(s)
                    continue
                c.bounded(f"scene/{s}:same_slices_materials_fields", ok, case={"scene_seed": s, "skipped_unplaceable_seeds": skipped}, witness={"notes": {"kind": "scene", "seed": s, "detail": detail}})
                break
            else:
                raise Undecided(f"no placeable scene found for seeds {skipped}")

    return body


# ---------------------------------------------------------------------------------------


def tasks(tier, seed):
    out = {}
    names = ALLOWED_OBJECTS + ALLOWED_CONSTRAINTS + SUPPORT_CLASSES
    n_groups = 6 if tier == "thorough" else 3
    for g in range(n_groups):
        out[f"classes/{g}"] = Task(_class_task(names[g::n_groups], combos=12 if tier == "thorough" else 0), modules=[], max_paths=64)

    def misc(c, inp):
        _containers_task(c, inp)
        _text_layer_task(c, inp)
        _setup_task(c, inp)

    out["containers+text_layer+setup"] = Task(misc, modules=[], max_paths=64)
    n_scenes = 24 if tier == "thorough" else 6
    per = 3 if tier == "thorough" else 1
    seeds = [seed * 1000 + i for i in range(n_scenes)]
    for k in range(0, n_scenes, per):
        out[f"scenes/{k // per:02d}"] = Task(_scene_task(seeds[k : k + per]), modules=[])
    return out


def replay(key, obligation, witness):
    """re-run on the real code under real JAX with the real json module"""
    import re

    notes = (witness or {}).get("notes", {}) if isinstance(witness, dict) else {}
    if notes.get("kind") == "scene":
        ok, detail = run_scene(notes["seed"])
        return (ok is False), detail
    if notes.get("kind") == "class":
        cls = resolve_class(notes["class"])
        x = Gen(ConcreteLeaves(random.Random(notes["seed"]))).instances(cls)[notes["instance"]]
        diffs = []
        try:
            ok = equiv(x, _round_trip(x), "", diffs) is True
        except Exception as e:  # noqa: BLE001
            ok = False
            diffs.append(f"{type(e).__name__}: {e}")
        return (not ok), f"{notes['class']} instance {notes['instance']} (seed {notes['seed']}) through export_json_str/import_from_json: {'; '.join(diffs) or 'equal'}"
    m = re.match(r"([A-Za-z]+)/#further_failures", obligation)
    if m:
        cls = resolve_class(m.group(1))
        for i, x in enumerate(Gen(ConcreteLeaves(random.Random("replay/0"))).instances(cls)):
            diffs = []
            try:
                ok = equiv(x, _round_trip(x), "", diffs) is True
            except Exception as e:  # noqa: BLE001
                ok = False
                diffs.append(f"{type(e).__name__}: {e}")
            if not ok:
                return True, f"{m.group(1)} instance #{i} with concrete leaves, real json: {'; '.join(diffs)}"
        return False, "the concrete instances of this class round-trip"
    m = re.match(r"([A-Za-z]+)/#(\d+):", obligation)
    if m:
        # the failing symbolic instance, re-generated with concrete leaves (same enumeration order)
        cls = resolve_class(m.group(1))
        idx = int(m.group(2))
        for rep in range(5):
            insts = Gen(ConcreteLeaves(random.Random(f"replay/{rep}"))).instances(cls)
            if idx >= len(insts):
                break
            x = insts[idx]
            diffs = []
            try:
                ok = equiv(x, _round_trip(x), "", diffs) is True
            except Exception as e:  # noqa: BLE001
                ok = False
                diffs.append(f"{type(e).__name__}: {e}")
            if not ok:
                return True, f"{m.group(1)} instance #{idx} with concrete leaves, real json: {'; '.join(diffs)}"
        return False, "the concrete re-runs of this instance round-trip"
    if obligation.startswith("setup/"):
        from fdtdx.conversion.json import JsonSetup

        for variant in (0, 1):
            cfg, objs, cons = _one_of_each(ConcreteLeaves(random.Random(f"replay/setup{variant}")), variant)
            setup = JsonSetup(config=cfg, object_list=list(objs), constraints=list(cons), meta={"seed": 1})
            diffs = []
            try:
                back = JsonSetup.loads(setup.dumps())
                ok = all(equiv(getattr(setup, p), getattr(back, p), p, diffs) is True for p in ("config", "object_list", "constraints", "meta"))
            except Exception as e:  # noqa: BLE001
                ok = False
                diffs.append(f"{type(e).__name__}: {e}")
            if not ok:
                return True, f"setup with one object of every allowed kind (variant {variant}), real JsonSetup.dumps/loads: {'; '.join(diffs[:3])}"
        return False, "the concrete setups round-trip"
    if notes.get("kind") == "containers" or obligation.startswith("containers/#further"):
        rnd = random.Random("containers")
        counter = [0]
        for d in (1, 2, 3):
            for kinds in itertools.product(("list", "tuple", "dict"), repeat=d):
                for lengths in itertools.product((0, 1, 2, 3), repeat=d):
                    if any(n == 0 for n in lengths[:-1]):
                        continue
                    x = _build_container(kinds, lengths, ConcreteLeaves(rnd), counter)
                    diffs = []
                    try:
                        ok = equiv(x, _round_trip(x), "", diffs) is True
                    except Exception as e:  # noqa: BLE001
                        ok = False
                        diffs.append(f"{type(e).__name__}: {e}")
                    if not ok:
                        return True, f"container {'>'.join(f'{k}{n}' for k, n in zip(kinds, lengths))} with concrete leaves, real json: {'; '.join(diffs)}"
        return False, "all container shapes round-trip with concrete leaves"
    if notes.get("kind") in ("text", "text_edge"):
        return False, "text-layer stand-in failed: the real json module did not reproduce a document (see the bounded record); no repository code involved"
    if obligation.startswith("containers/"):
        spec = obligation.split("/")[1].split(":")[0]
        kinds = [re.match(r"[a-z]+", t).group(0) for t in spec.split(">")]
        lengths = [int(re.search(r"\d+", t).group(0)) for t in spec.split(">")]
        x = _build_container(kinds, lengths, ConcreteLeaves(random.Random("replay")), [0])
        diffs = []
        try:
            ok = equiv(x, _round_trip(x), "", diffs) is True
        except Exception as e:  # noqa: BLE001
            ok = False
            diffs.append(f"{type(e).__name__}: {e}")
        return (not ok), f"container {spec} with concrete leaves: {'; '.join(diffs) or 'equal'}"
    return False, "no replay recipe for this obligation"
