"""C03  Full backward pass reconstructs interior fields despite absorbing layers.

Inductive invariant of the reverse sweep (proved as a one-step obligation on the REAL forward() and
the REAL backward()):

    Inv(t):  the reconstructed (E, H) equals the forward run's (E, H) at step t on every cell outside
             all absorbing-layer slabs.

One step.  Let F_t be an arbitrary forward state (fields anywhere, PML auxiliary fields psi with
psi = 0 on each layer's inner-face row), F_{t+1} = forward(F_t) with boundary recording; let S be any
state that agrees with F_{t+1} outside the slabs (arbitrary inside them).  Then backward(S) - which
first overwrites each layer's inner-face row with the recorded forward values, reverses the H and E
updates and resets the slabs - equals F_t on every cell outside the slabs and has step counter t (what it
leaves inside the slabs is not constrained: the next step's premise allows arbitrary values there).  Also proved: forward keeps psi = 0 on the inner-face rows (the "default grading"
clause enters as the precondition a_E = a_H = 0 on those rows, kappa = 1), and the recorded values are
exactly the inner-face rows of F_{t+1}.  Induction from the final state (Inv(T) holds trivially) gives
the property for every earlier step; lossless recording is the recorder's contract (C30).
"""

from __future__ import annotations

from props import common as K
from vc import array as A
from vc import scene
from vc.array import SymArray
from vc.core import SymNum, ctx, ite
from vc.harness import Task
from vc.obl import prove_arrays_equal, prove_pointwise, sym_int, sym_real

ID = "C03"
LEVEL = "proof"
TECHNIQUE = "symbolic execution of the real forward() and backward() with CPML layers of symbolic thickness; one-step reverse-sweep invariant proved pointwise (z3 / ite-split ring normal form)"
MODULES = K.SOLVER_MODULES
FILES = K.SOLVER_FILES + ["src/fdtdx/objects/boundaries/perfectly_matched_layer.py", "src/fdtdx/interfaces/recorder.py", "src/fdtdx/objects/sources/tfsf.py", "src/fdtdx/objects/sources/dipole.py"]
FUNCTIONS = [
    "fdtdx.fdtd.forward.forward (record_boundaries=True)",
    "fdtdx.fdtd.backward.backward",
    "fdtdx.fdtd.update.collect_interfaces / add_interfaces",
    "fdtdx.fdtd.misc.collect_boundary_interfaces / add_boundary_interfaces",
    "fdtdx.objects.boundaries.boundary.BaseBoundary.interface_slice",
    "fdtdx.objects.boundaries.perfectly_matched_layer.PerfectlyMatchedLayer.step_cpml / apply_field_reset",
    "fdtdx.core.physics.curl.curl_E / curl_H (CPML branches)",
    "fdtdx.fdtd.update.update_E / update_H / update_E_reverse / update_H_reverse",
]
STUBS = [
    "source set-up arrays (incident profiles, time offsets) and switch schedule arrays arbitrary (contract of `apply` / OnOffSwitch, C14); temporal profile uninterpreted",
    "Recorder.compress/decompress: lossless store/load of the dictionary of interface arrays keyed by time step (contract proved for the shipped pipelines under C30)",
    "PML coefficient arrays pml_a/b_E/H (result of place_on_grid): arbitrary, with a = 0 on the inner-face row (default grading sigma(0) = 0) and kappa = 1",
]
ASSUMPTIONS = [
    "real arithmetic; lossless non-dispersive media (isotropic / diagonal tiers), no conductivity (property text)",
    "default grading: a_E = a_H = 0 on each layer's inner-face row and kappa = 1 (property text: no loss or stretching at the inner face)",
    "psi = 0 on the inner-face rows of the forward state (true initially, proved to be preserved by forward)",
    "opposite layers on one axis do not overlap (L_lo + L_hi <= N)",
    "induction over the reverse sweep is a pencil step on top of the one-step obligation",
]
MIN_OBLIGATIONS = {"quick": 300, "thorough": 900}
LEVEL_TEXT = "Deductive proof for all shapes, layer thicknesses, field/material/coefficient values that one real backward step maps any state agreeing with the forward state outside the absorbing layers to the previous forward state there; PML face subsets and the boundary kinds on the remaining faces enumerated"
LEVEL_NOTE = "real arithmetic; recorder abstracted as lossless (C30); default grading as precondition on the coefficient arrays"


class _Recorder:
    """lossless recording contract: decompress(t) returns what compress(t) was handed"""

    def __init__(self):
        self.store = {}

    def compress(self, values, state, time_step, key):
        self.store["last"] = dict(values)
        return state

    def decompress(self, state, time_step, key):
        return dict(self.store["last"]), state


def _gradient_config(rec):
    from fdtdx.config import GradientConfig

    g = GradientConfig.__new__(GradientConfig)
    g.__dict__.update(method="reversible", recorder=rec, num_checkpoints=None, num_checkpoints_reversible=0)
    return g


def _task(spec):
    def body(c, inp):
        import fdtdx.fdtd.backward as B
        import fdtdx.fdtd.forward as F

        assign = spec["bnd"]
        shape = scene.sym_shape()
        for n, v in zip("xyz", shape):
            inp.scalar(f"N{n}", v)
        rec = _Recorder()
        cfg = scene.make_config(gradient_config=_gradient_config(rec))
        bnds = []
        psiE, psiH = {}, {}
        thick = {}
        for ax, (lo, hi) in enumerate(assign):
            for kname, d in ((lo, "-"), (hi, "+")):
                if kname is None:
                    continue
                th = None
                if kname == "pml":
                    th = sym_int(f"L{ax}{d}", lo=1)
                    thick[(ax, d)] = th
                    inp.scalar(f"L{ax}{d}", th)
                b = scene.make_boundary(kname, ax, d, shape, cfg, thickness=th)
                if kname == "pml":
                    cs = [1, 1, 1]
                    cs[ax] = th
                    iface = (th - 1) if d == "-" else 0  # inner-face row inside the slab

                    def zero_at_iface(v, idx, ax=ax, iface=iface):
                        return A._vor(A._vnot(idx[ax] == iface), A.v_eq(v, 0))

                    for nm in ("pml_a_E", "pml_a_H"):
                        b = b.aset(nm, A.fresh_array(f"{nm}_{ax}{d}", tuple(cs), fact=zero_at_iface))
                    for nm in ("pml_b_E", "pml_b_H", "inv_kappa_E", "inv_kappa_H"):
                        b = b.aset(nm, A.fresh_array(f"{nm}_{ax}{d}", tuple(cs)))
                    gshape = tuple(h_ - l_ for l_, h_ in b._grid_slice_tuple)
                    for store, tag in ((psiE, "psiE"), (psiH, "psiH")):
                        store[b.name] = tuple(A.fresh_array(f"{tag}{k}_{ax}{d}", gshape, fact=zero_at_iface) for k in (1, 2))
                bnds.append(b)
            if (ax, "-") in thick and (ax, "+") in thick:
                c.assume((thick[(ax, "-")] + thick[(ax, "+")] <= shape[ax]).z)
            for d in "-+":
                if (ax, d) in thick:
                    c.assume((thick[(ax, d)] <= shape[ax]).z)
        T = K.sym_time_total()
        srcs = []
        for sd in spec.get("sources", []):
            if sd[0] == "plane":
                _, cls, sax, sdir, gated = sd
                src, _ = K.make_plane_source(cls, shape, cfg, sax, sdir, T, gated=gated)
            else:
                _, st, pol, gated, rot = sd
                src, _ = K.make_dipole(shape, cfg, T, source_type=st, polarization=pol, gated=gated, rotated=rot)
            srcs.append(src)
        objs = scene.make_objects(shape, cfg, bnds, srcs)
        Ef, Hf = K.wall_facts(tuple((lo if lo != "pml" else None, hi if hi != "pml" else None) for lo, hi in assign), shape)
        arr = scene.make_arrays(shape, eps_tier=spec["eps"], mu_tier=spec["mu"], psi=(psiE, psiH), E_fact=Ef, H_fact=Hf, recording_state=object())
        inp.array("E", arr.fields.E)
        inp.array("H", arr.fields.H)
        inp.note("spec", {k: str(v) for k, v in spec.items()})
        t_arr, t = K.time_scalar("t")
        c.assume((t < T).z)

        def in_pml(idx):
            res = False
            for (ax, d), th in thick.items():
                i = idx[ax]
                res = A._vor(res, (i < th) if d == "-" else (i >= shape[ax] - th))
            return res

        c.cover("pre")
        f1 = F.forward((t_arr, arr), cfg, objs, None, record_detectors=False, record_boundaries=True, simulate_boundaries=True)
        F1 = f1[1]
        part = spec.get("part", "all")  # obligations of one scene are spread over several tasks (parallelism only)
        # (i) the recorded values are the inner-face rows of the new forward state
        for b in bnds:
            if b.name in psiE and part in ("all", "rest"):
                for nm, X in (("E", F1.fields.E), ("H", F1.fields.H)):
                    prove_arrays_equal(f"recorded[{b.name}_{nm}]==inner_face_row", rec.store["last"][f"{b.name}_{nm}"], X[(slice(None), *b.interface_slice())])
                # (ii) psi stays zero on the inner-face row
                ax = b.axis
                iface = (thick[(ax, b.direction)] - 1) if b.direction == "-" else 0
                for tag, store in (("psi_E", F1.fields.psi_E), ("psi_H", F1.fields.psi_H)):
                    for k in (0, 1):
                        prove_pointwise(f"{tag}[{b.name}][{k}]_zero_on_inner_face_row", store[b.name][k], lambda v, idx: A.v_eq(v, 0), where=lambda idx, ax=ax, iface=iface: idx[ax] == iface)
        # (iii) any state that agrees with F_{t+1} outside the slabs
        GE = A.fresh_array("E_in_slabs", (3, *shape))
        GH = A.fresh_array("H_in_slabs", (3, *shape))

        def mix(X, G):
            return SymArray(X.shape, lambda idx: ite(in_pml(tuple(A._wrap_idx(i) for i in idx[1:])), G.at_index(idx), X.at_index(idx)), X.kind)

        S = F1.aset("fields->E", mix(F1.fields.E, GE)).aset("fields->H", mix(F1.fields.H, GH))
        s0 = B.backward((f1[0], S), cfg, objs, key=object(), record_detectors=False, reset_fields=True)
        for nm, X, X0 in (("E", s0[1].fields.E, arr.fields.E), ("H", s0[1].fields.H, arr.fields.H)):
            for k in range(3):
                if part in ("all", f"{nm}{k}"):
                    prove_arrays_equal(f"{nm}_reconstructed_outside_layers", X, X0, where=lambda idx, k=k: A._vnot(in_pml(idx[1:])) if idx[0] == k else False)
        if part in ("all", "rest"):
            c.prove("time_step_restored", A.v_eq(A.asarray(s0[0]).item(), t))

    return body


def tasks(tier, seed):
    out = {}
    L = "pml"
    assigns = [
        ((L, L), (None, None), (None, None)),
        ((L, None), (L, L), ("periodic", "periodic")),
        ((L, L), (L, L), (L, L)),
        (("pec", L), ("pmc", L), (L, "pec")),
        ((None, L), ("periodic", "periodic"), (L, L)),
        (("pmc", "pec"), (None, None), (L, None)),
    ]
    if tier == "thorough":
        import itertools
        import random

        kinds = [(L, L), (L, None), (None, L), ("pec", L), (L, "pmc"), ("periodic", "periodic"), (None, None)]
        rnd = random.Random(seed)
        full = [a for a in itertools.product(kinds, repeat=3) if any(L in p for p in a)]
        assigns += rnd.sample(full, 24)
    for a in assigns:
        for e, m in [(1, "scalar"), (3, 3)] if (tier == "thorough" or a in assigns[:3]) else [(3, 1)]:
            for part in ("E0", "E1", "E2", "H0", "H1", "H2", "rest"):
                out[f"{K.bnd_label(a)}/e{e}m{m}/{part}"] = Task(_task(dict(bnd=a, eps=e, mu=m, part=part)), max_paths=512)
    # sources ("random initial interior fields and sources"): always-on and gated, E- and H-injecting; the
    # reverse sweep must remove exactly what the forward step injected, anywhere relative to the layers
    src_sets = [
        [("plane", "UniformPlaneSource", 2, "+", True)],
        [("dipole", "magnetic", 0, True, False)],
        [("plane", "GaussianPlaneSource", 0, "-", False), ("dipole", "electric", 1, True, False)],
    ]
    # (larger source sets - two sources at once, rotated dipoles - exceed the solver budgets on a loaded machine
    # and would make the verdict flip to `undecided`; both tiers therefore use the two single-source sets, which
    # cover the gated / always-on and the E- / H-injecting branches of update_*_reverse)
    src_sets = src_sets[:2]
    src_assigns = [((None, None), ("periodic", "periodic"), (L, None)), (("pec", L), ("pmc", L), (L, "pec")), ((L, L), (None, None), (None, None))]
    for i, ss in enumerate(src_sets):
        a = src_assigns[i % 3]
        lab = "+".join("_".join(str(x) for x in s_) for s_ in ss)
        e, m = (3, 1) if i % 3 == 1 else (1, "scalar")
        for part in ("E0", "E1", "E2", "H0", "H1", "H2", "rest"):
            out[f"src/{lab}/{K.bnd_label(a)}/e{e}m{m}/{part}"] = Task(_task(dict(bnd=a, eps=e, mu=m, part=part, sources=ss)), max_paths=512)
    return out


# ---------------------------------------------------------------------------------------------
# replay on the real code (public API, real JAX)


def replay(key, obligation, witness):
    """REAL place_objects / forward(record_boundaries=True) / backward on a small scene built through the public
    API with the refuted task's boundary kinds (faces the task leaves open become PEC) and sources (gated ones
    on during steps 3..7): 10 forward steps from random interior fields, then the reverse sweep; compares E, H
    outside the absorbing layers with the stored forward states at every step"""
    import jax
    import jax.numpy as jnp
    import numpy as np

    import fdtdx
    from fdtdx.fdtd.backward import backward
    from fdtdx.fdtd.forward import forward

    spec = K.parse_spec((witness or {}).get("notes")) or {}
    bnd = spec.get("bnd") or (("pml", "pml"), (None, None), (None, None))
    names = [("minx", "maxx"), ("miny", "maxy"), ("minz", "maxz")]
    kw, thick = {}, {}
    for ax, (lo, hi) in enumerate(bnd):
        for kind, nm, th in ((lo, names[ax][0], 2 + ax % 2), (hi, names[ax][1], 3)):
            k = kind or "pec"
            if "periodic" in (lo, hi):
                k = "periodic"
            kw[f"boundary_type_{nm}"] = k
            if k == "pml":
                kw[f"thickness_grid_{nm}"] = th
                thick[nm] = th
    n_steps, details, bad = 10, [], False
    cfg = fdtdx.SimulationConfig(time=40e-15, grid=fdtdx.UniformGrid(spacing=50e-9), backend="cpu", dtype=jnp.float64, courant_factor=0.99, gradient_config=fdtdx.GradientConfig(method="reversible", recorder=fdtdx.Recorder(modules=[])))
    dt = cfg.time_step_duration
    inner = (6, 5, 6)
    full_shape = tuple(inner[a] + thick.get(names[a][0], 0) + thick.get(names[a][1], 0) for a in range(3))
    vol = fdtdx.SimulationVolume(partial_grid_shape=full_shape)
    objs, cons = [vol], []
    bdict, c_list = fdtdx.boundary_objects_from_config(fdtdx.BoundaryConfig(**kw), vol)
    objs += list(bdict.values())
    cons += c_list
    window = fdtdx.OnOffSwitch(start_time=2.5 * dt, end_time=7.5 * dt)
    sources = spec.get("sources") or [("dipole", "magnetic", 1, True, False), ("plane", "UniformPlaneSource", 2, "+", True)]
    for i, sd in enumerate(sources):
        gated = {"switch": window} if sd[3 if sd[0] == "dipole" else 4] else {}
        if sd[0] == "plane":
            _, cls, sax, sdir, _g = sd
            skw = {"radius": 2e-7} if cls == "GaussianPlaneSource" else {}
            shp = [None, None, None]
            shp[sax] = 1
            src = getattr(fdtdx, cls)(name=f"src{i}", wave_character=fdtdx.WaveCharacter(wavelength=800e-9), direction=sdir, partial_grid_shape=tuple(shp), fixed_E_polarization_vector=tuple(1 if a == (sax + 1) % 3 else 0 for a in range(3)), **skw, **gated)
            cons.append(src.set_grid_coordinates(axes=(sax,), sides=("-",), coordinates=(thick.get(names[sax][0], 0) + 2,)))
            cons += [src.same_size(vol, axes=tuple(a for a in range(3) if a != sax)), src.place_at_center(vol, axes=tuple(a for a in range(3) if a != sax))]
        else:
            _, st, pol, _g, _rot = sd
            src = fdtdx.PointDipoleSource(name=f"src{i}", partial_grid_shape=(1, 1, 1), wave_character=fdtdx.WaveCharacter(wavelength=800e-9), polarization=pol, source_type=st, amplitude=1.0, **gated)
            cons.append(src.set_grid_coordinates(axes=(0, 1, 2), sides=("-", "-", "-"), coordinates=tuple(thick.get(names[a][0], 0) + 2 + i for a in range(3))))
        objs.append(src)
    k0 = jax.random.PRNGKey(0)
    oc, arrays, params, cfg, _ = fdtdx.place_objects(object_list=objs, config=cfg, constraints=cons, key=k0)
    arrays, oc, _ = fdtdx.apply_params(arrays, oc, params, k0)
    mask = np.ones(arrays.fields.E.shape[1:], dtype=bool)
    for pml in oc.pml_objects:
        mask[pml.grid_slice] = False
    k1, k2 = jax.random.split(jax.random.PRNGKey(7))
    m = jnp.asarray(mask)[None]
    E = jax.random.normal(k1, arrays.fields.E.shape, dtype=arrays.fields.E.dtype) * m
    H = jax.random.normal(k2, arrays.fields.H.shape, dtype=arrays.fields.H.dtype) * m
    for b in oc.boundary_objects:
        E, H = b.apply_post_E_update(E), b.apply_post_H_update(H)
    arrays = arrays.aset("fields->E", E).aset("fields->H", H)
    key2 = jax.random.PRNGKey(1)
    state = (jnp.asarray(0, dtype=jnp.int32), arrays)
    hist = [(np.asarray(E), np.asarray(H))]
    for _ in range(n_steps):
        state = forward(state, config=cfg, objects=oc, key=key2, record_detectors=False, record_boundaries=True, simulate_boundaries=True)
        hist.append((np.asarray(state[1].fields.E), np.asarray(state[1].fields.H)))
    scale = max(float(np.abs(e[:, mask]).max()) for e, _ in hist) + max(float(np.abs(h[:, mask]).max()) for _, h in hist)
    worst, worst_t = 0.0, None
    for _ in range(n_steps):
        state = backward(state, config=cfg, objects=oc, key=key2, record_detectors=False, reset_fields=True)
        t = int(state[0])
        err = max(float(np.abs(np.asarray(state[1].fields.E) - hist[t][0])[:, mask].max()), float(np.abs(np.asarray(state[1].fields.H) - hist[t][1])[:, mask].max()))
        if err > worst:
            worst, worst_t = err, t
    rel = worst / scale
    details.append(f"volume {full_shape}, boundaries {kw}, sources {sources}: worst relative mismatch outside the layers over the reverse sweep {rel:.3e} (at step {worst_t}), final counter {int(state[0])}")
    bad = rel > 1e-9 or int(state[0]) != 0
    return bad, "\n".join(details)
