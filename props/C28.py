"""C28  Static materials are painted by placement order.

Contract of fdtdx.fdtd.initialization._init_arrays (the array assembly of place_objects), proved
on the REAL function with a real ObjectContainer:

  requires  a volume (index 0, placement order -1000) and static objects o_1..o_K placed on
            well-formed boxes 0 <= lo < hi <= N inside it, placement orders above the volume's;
            materials with invertible permittivity / permeability tensors.
  ensures   for EVERY cell x of the volume and every object o (volume included):
              if  o covers x  and no object of higher priority covers x
              (priority = (placement_order, position in the object list); the volume covers all cells)
              then   T(inv_permittivities)[x]  @ eps(o)  == Identity
                     T(inv_permeabilities)[x]  @ mu(o)   == Identity        (magnetic scenes)
                     T(electric_conductivity)[x] == sigma_E(o) * scale       (conductive scenes)
                     T(magnetic_conductivity)[x] == sigma_H(o) * scale
            where T expands the stored tier (1 -> a*I, 3 -> diag, 9 -> row-major 3x3) and
            scale = grid spacing (uniform grid) resp. c*dt/courant_number (stretched grid);
            component count of every stored array == widest tier any material of the scene needs;
            a non-magnetic scene stores the python scalar 1.0; no array is stored for a
            conductivity only if no material has that conductivity.

Boxes, volume shape, grid spacing / time step and the cell are SYMBOLIC (all overlap relations:
disjoint, touching, partial, nested, identical).  "covers" for masked objects (spheres, cylinders,
polygons = StaticMultiMaterialObject) is `inside the box and mask[cell]`, with the voxel mask an
ARBITRARY boolean array (its own contract is C43).  Finite classes are enumerated: which object
carries which material tier (isotropic / diagonal / full tensor / conductive / magnetic), object
kinds (box / full-shape mask / cylinder-like broadcast mask), and the placement-order pattern
(all 13 weak orderings of three objects incl. ties).  Material VALUES are concrete (the tier
selection of the code is a float predicate, math.isclose) and chosen distinct per object/component.

Two obligation families:
  scene tasks  <materials>/<kinds>/<grid>/..: the REAL _init_arrays from the zero fill on
               volume + three objects, all 13 order patterns (base case + the sort).
  frame tasks  frame/<materials>/p<ab>/<kinds>/..: the induction step for ARBITRARY object counts:
               the allocation stub hands out arbitrary prior arrays (fresh symbolic), the volume is a
               stand-in that is not painted, and two consecutive iterations of the real loop body
               are shown to give  new[x] = value(top covering object) if covered else prior[x].
               Since every iteration has this "covered ? value : previous" form for an arbitrary
               previous state, the last writer in the (stable) sorted order wins for any number
               of objects.  (Masked objects on a full-tensor prior are not attempted: the update
               passes through inv(inv(M)) of a symbolic 3x3 M.)
"""

from __future__ import annotations

import itertools
import random

import z3

from vc import array as A
from vc import scene
from vc.array import SymArray
from vc.core import SymBool, ctx, zbool
from vc.harness import Task
from vc.obl import sym_int, sym_real

ID = "C28"
LEVEL = "proof"
TECHNIQUE = "symbolic execution of the real _init_arrays on a real ObjectContainer with symbolic boxes / volume shape / grid; painter's-rule postcondition per (object, array) at a generic cell, z3 (linear integer box conditions + exact rational material constants); tiers, object kinds and order patterns enumerated"
MODULES = [
    "fdtdx.fdtd.initialization",
    "fdtdx.fdtd.container",
    "fdtdx.objects.object",
    "fdtdx.objects.static_material.static",
    "fdtdx.objects.static_material.sphere",
    "fdtdx.objects.static_material.cylinder",
    "fdtdx.materials",
    "fdtdx.core.grid",
    "fdtdx.core.misc",
    "fdtdx.config",
]
FILES = [
    "src/fdtdx/fdtd/initialization.py",
    "src/fdtdx/fdtd/container.py",
    "src/fdtdx/objects/static_material/static.py",
    "src/fdtdx/objects/static_material/sphere.py",
    "src/fdtdx/objects/static_material/cylinder.py",
    "src/fdtdx/objects/object.py",
    "src/fdtdx/materials.py",
]
FUNCTIONS = [
    "fdtdx.fdtd.initialization._init_arrays",
    "fdtdx.fdtd.container.ObjectContainer.all_objects_* tier predicates / static_material_objects / _iter_materials",
]
INLINED = [
    "fdtdx.fdtd.initialization._invert_property",
    "fdtdx.materials.compute_allowed_permittivities / _permeabilities / _electric_conductivities / _magnetic_conductivities / compute_ordered_material_name_tuples",
    "fdtdx.materials.Material.is_* predicates (run on the concrete material values)",
    "Sphere/Cylinder.get_material_mapping",
    "fdtdx.objects.object.SimulationObject.grid_slice / grid_shape",
    "fdtdx.config.SimulationConfig.time_step_duration / courant_number / resolve_grid",
    "fdtdx.core.grid.RectilinearGrid.cfl_time_step (real method, uniform branch, for the uniform-grid scale)",
]
STUBS = [
    "create_named_sharded_matrix(shape, value, ..) -> array filled with value; sharding_preserving_set/add -> .at[idx].set/add (device placement / sharding not modelled)",
    "_warn_if_simulation_volume_too_large (a warning only)",
    "frame tasks: create_named_sharded_matrix -> arbitrary (fresh symbolic) prior array; the volume is a stand-in object with only grid_shape (not a static material object)",
    "get_voxel_mask_for_shape of Sphere / Cylinder: arbitrary boolean array of the grid shape (Sphere) or with a unit extrusion axis (Cylinder) -- the mask contract is property C43",
    "RectilinearGrid stand-in (SymGrid): cfl_time_step of a stretched grid is an arbitrary dt > 0",
]
ASSUMPTIONS = [
    "boxes well-formed: 0 <= lo < hi <= N on every axis",
    "the allocation helper is stubbed: the real create_named_sharded_matrix raises StopIteration for an all-ones shape, i.e. a single-cell (1x1x1) volume with a 1-component array is outside the proved domain",
    "placement orders of the objects are above the volume's (-1000); the volume is object 0 of the list",
    "material values concrete: dyadic rationals (exactly representable, exact inverses), pairwise distinct per object and component; the tier predicates of the code (math.isclose, relative tolerance 1e-9) are only exercised on values that are exactly equal or clearly different",
    "no devices, no sub-pixel smoothing, no dispersive materials, no boundaries/detectors in the scene (their arrays are outside this property)",
    "masked objects carry a three-entry material dictionary (painted material, vacuum, another object's material); the painted material is the named one",
    "non-uniform grid: 'grid-scaled' is read as sigma * c*dt/courant_number (the reference spacing the code documents); uniform grid: sigma * spacing",
]
MIN_OBLIGATIONS = {"quick": 6000, "thorough": 30000}
LEVEL_TEXT = "Deductive proof for all volume shapes, object boxes (every overlap relation), voxel masks, cells and grid spacings of the painter's rule, tier widths and the scalar-permeability rule on the real _init_arrays; the finite classes (material tier assignment, object kinds, the 13 placement-order patterns of three objects incl. ties) are enumerated with concrete exactly-representable material values"
LEVEL_NOTE = "material values concrete (tier selection is a float predicate); scenes of three objects + volume, arbitrary object counts via the per-iteration frame lemma on an arbitrary prior state (meta-step: stable sort + last writer wins); sharding helpers stubbed by plain array fills/updates"

# ---------------------------------------------------------------------------------------
# material palette (dyadic values: float arithmetic on them is exact)
# ---------------------------------------------------------------------------------------

I9 = (1.0, 0.0, 0.0, 0.0, 1.0, 0.0, 0.0, 0.0, 1.0)
Z9 = (0.0,) * 9

ISO = [2.0, 4.0, 8.0, 16.0, 32.0]
DIAG = [(2.0, 4.0, 8.0), (4.0, 16.0, 2.0), (8.0, 2.0, 4.0), (16.0, 8.0, 32.0)]
FULL = [
    (2.0, 1.0, 0.5, 0.0, 4.0, 1.0, 0.0, 0.0, 8.0),
    (4.0, 0.0, 0.0, 1.0, 2.0, 0.0, 0.5, 1.0, 8.0),
    (8.0, 0.0, 2.0, 0.0, 4.0, 0.0, 0.0, 0.0, 2.0),
    (2.0, 0.5, 0.0, 0.0, 2.0, 0.5, 0.0, 0.0, 4.0),
]
SIG_ISO = [0.5, 0.25, 2.0, 0.125]
SIG_DIAG = [(0.5, 0.25, 1.0), (2.0, 0.5, 0.125), (0.25, 4.0, 0.5), (1.0, 2.0, 4.0)]
SIG_FULL = [
    (0.5, 0.125, 0.0, 0.25, 1.0, 0.0, 0.0, 0.75, 2.0),
    (1.0, 0.0, 0.5, 0.0, 0.25, 0.125, 2.0, 0.0, 0.5),
    (0.25, 1.0, 0.0, 0.0, 2.0, 0.0, 0.5, 0.0, 1.0),
    (2.0, 0.0, 0.0, 0.5, 0.5, 0.0, 0.0, 0.25, 0.125),
]


def _check_palette():
    """the obligations compare exactly: every palette tensor must have an inverse whose entries are
    dyadic rationals reproduced EXACTLY by float cofactor arithmetic (else the check itself would
    raise a rounding false alarm)"""
    from fractions import Fraction

    for t9 in [(v, 0.0, 0.0, 0.0, v, 0.0, 0.0, 0.0, v) for v in ISO] + [(d[0], 0.0, 0.0, 0.0, d[1], 0.0, 0.0, 0.0, d[2]) for d in DIAG] + FULL:
        for num in (float, Fraction):
            m = [[num(t9[3 * r + c]) for c in range(3)] for r in range(3)]
            det = m[0][0] * (m[1][1] * m[2][2] - m[1][2] * m[2][1]) - m[0][1] * (m[1][0] * m[2][2] - m[1][2] * m[2][0]) + m[0][2] * (m[1][0] * m[2][1] - m[1][1] * m[2][0])
            cof = [[(m[(c + 1) % 3][(r + 1) % 3] * m[(c + 2) % 3][(r + 2) % 3] - m[(c + 1) % 3][(r + 2) % 3] * m[(c + 2) % 3][(r + 1) % 3]) / det for c in range(3)] for r in range(3)]
            if num is float:
                inv_f = cof
            else:
                inv_q = cof
        assert all(Fraction(inv_f[r][c]) == inv_q[r][c] for r in range(3) for c in range(3)), f"palette tensor {t9} has no exactly representable inverse"
        for v in ISO:
            assert Fraction(1.0 / v) == 1 / Fraction(v)


_check_palette()


def _val(tier, k, conductive=False):
    """k-th palette value of the tier ('-' = default)"""
    if tier == "-":
        return None
    if tier == "1":
        return (SIG_ISO if conductive else ISO)[k]
    if tier == "3":
        return (SIG_DIAG if conductive else DIAG)[k]
    if tier == "9":
        return (SIG_FULL if conductive else FULL)[k]
    raise ValueError(tier)


# a scenario assigns to [volume, o1, o2, o3] a 4-letter code: eps mu sigE sigH, each in - 1 3 9
SCENARIOS = {
    "iso": ["1---", "1---", "1---", "1---"],
    "eps3": ["----", "1---", "3---", "1---"],
    "eps9": ["1---", "3---", "1---", "9---"],
    "eps9all": ["9---", "9---", "9---", "9---"],
    "mu1": ["----", "11--", "1---", "11--"],
    "mu3": ["-1--", "13--", "1---", "31--"],
    "mu9": ["----", "1---", "19--", "13--"],
    "sigE1": ["----", "1-1-", "1---", "1-1-"],
    "sigE3": ["--1-", "1-3-", "3---", "1-1-"],
    "sigE9": ["----", "1-9-", "1-3-", "9---"],
    "sigH1": ["----", "1--1", "1--1", "1---"],
    "sigH3": ["----", "1--3", "1---", "11-1"],
    "sigH9": ["---1", "1--9", "1--3", "1---"],
    "mixed": ["3---", "9311", "1193", "3939"],
    "volaniso": ["93--", "1---", "----", "3---"],
}

# object kinds: b = UniformMaterialObject box, m = Sphere with full-shape mask, c = Cylinder with a
# unit-axis (broadcast) mask along axis 1
KINDS = ["bbb", "mbb", "bmc", "cmb", "mmm"]


def weak_orderings():
    """all 13 placement-order patterns of three objects (ties included), as rank tuples"""
    seen = []
    for t in itertools.product(range(3), repeat=3):
        ranks = sorted(set(t))
        norm = tuple(ranks.index(x) for x in t)
        if norm not in seen:
            seen.append(norm)
    return seen


ORDERS = weak_orderings()


def _materials(scn, salt=0):
    """-> list of 4 dicts(permittivity, permeability, electric_conductivity, magnetic_conductivity as 9-tuples)"""
    import fdtdx

    out = []
    for k, code in enumerate(SCENARIOS[scn]):
        kw = {}
        for pos, name in enumerate(("permittivity", "permeability", "electric_conductivity", "magnetic_conductivity")):
            v = _val(code[pos], (k + salt + pos) % 4, conductive=pos >= 2)
            if v is not None:
                kw[name] = v
        out.append(fdtdx.Material(**kw))
    return out


def _material_dict(k, mats):
    """material dictionary of masked object k: the painted material, vacuum (always sorts first in
    the code's canonical material order, so the painted index is never 0) and another object's
    material; insertion order varies with k"""
    import fdtdx

    other = mats[(k + 1) % 3 + 1]
    vac = fdtdx.Material()
    if k % 2 == 0:
        return {"painted": mats[k + 1], "unused": other, "vacuum": vac}
    return {"a_unused": other, "vacuum": vac, "painted": mats[k + 1]}


def _tier_needed(t9):
    if any(t9[i] != 0 for i in (1, 2, 3, 5, 6, 7)):
        return 9
    if t9[0] == t9[4] == t9[8]:
        return 1
    return 3


def _expand(arr, cell):
    """stored components at `cell` -> 3x3 nested list (tier 1: a*I, 3: diag, 9: row-major)"""
    t = arr.shape[0]
    g = lambda comp: arr.at_index((comp, *cell))  # noqa: E731
    if t == 1:
        a = g(0)
        return [[a if r == c else 0 for c in range(3)] for r in range(3)]
    if t == 3:
        return [[g(r) if r == c else 0 for c in range(3)] for r in range(3)]
    if t == 9:
        return [[g(3 * r + c) for c in range(3)] for r in range(3)]
    return None


def _conj(parts):
    zs = []
    for p in parts:
        if isinstance(p, bool):
            if not p:
                return False
            continue
        zs.append(zbool(p))
    if not zs:
        return True
    return SymBool(z3.And(*zs)) if len(zs) > 1 else SymBool(zs[0])


def _is_inverse(T, M9):
    """T (3x3 values) @ M (concrete 9-tuple) == I"""
    parts = []
    for r in range(3):
        for c in range(3):
            acc = 0
            for m in range(3):
                if M9[3 * m + c] != 0:
                    acc = acc + T[r][m] * M9[3 * m + c]
            parts.append(A.v_eq(acc, 1 if r == c else 0))
    return _conj(parts)


def _equals_scaled(T, M9, scale):
    parts = []
    for r in range(3):
        for c in range(3):
            parts.append(A.v_eq(T[r][c], M9[3 * r + c] * scale if M9[3 * r + c] != 0 else 0))
    return _conj(parts)


# ---------------------------------------------------------------------------------------
# stubs for the allocation helpers
# ---------------------------------------------------------------------------------------


_FRAME = {"on": False, "made": []}


def _stub_create(shape, value, sharding_axis=None, dtype=None, backend=None):
    if _FRAME["on"]:
        # frame lemma: the loop starts from an ARBITRARY prior state instead of the zero fill
        arr = A.fresh_array(f"prior{len(_FRAME['made'])}", tuple(shape), A._dtype_kind(dtype) if dtype is not None else "real")
        _FRAME["made"].append(arr)
        return arr
    return A.full(tuple(shape), value, dtype)


def _stub_set(array, index, values):
    return array.at[index].set(values)


def _stub_add(array, index, values):
    return array.at[index].add(values)


def _no_warn(*a, **k):
    return None


def _patch():
    return {"fdtdx.fdtd.initialization": {"create_named_sharded_matrix": _stub_create, "sharding_preserving_set": _stub_set, "sharding_preserving_add": _stub_add, "_warn_if_simulation_volume_too_large": _no_warn}}


# ---------------------------------------------------------------------------------------
# the contract
# ---------------------------------------------------------------------------------------


def _grid_config(kind, shape, inp):
    """-> (config, scale) with scale the spec's conductivity scale"""
    from fdtdx import constants
    from fdtdx.core.grid import RectilinearGrid

    if kind == "uniform":
        cfg = scene.make_config()
        s = sym_real("spacing_u", lo_strict=0)
        inp.scalar("spacing", s)
        g = scene.SymGridClass()(shape, uniform=True, spacing=s)
        g.__dict__["_is_uniform"] = True
        g.__dict__["_uniform_spacing"] = s
        cfg.__dict__["grid"] = g
        # the REAL CFL rule of a realised uniform grid
        g.__dict__["_dt"] = RectilinearGrid.cfl_time_step(g, cfg.courant_factor)
        return cfg, s
    cfg = scene.make_config(nonuniform_shape=shape)
    dt = cfg.grid.__dict__["_dt"]
    inp.scalar("dt", dt)
    return cfg, constants.c * dt / cfg.courant_number


def _contract(scn, kinds, orders, grid_kind, salt=0):
    def body(c, inp):
        import fdtdx.fdtd.initialization as I
        from fdtdx.fdtd.container import ObjectContainer
        from fdtdx.objects.static_material.cylinder import Cylinder
        from fdtdx.objects.static_material.sphere import Sphere
        from fdtdx.objects.static_material.static import SimulationVolume, UniformMaterialObject

        shape = scene.sym_shape()
        for n, v in zip("xyz", shape):
            inp.scalar(f"N{n}", v)
        cfg, scale = _grid_config(grid_kind, shape, inp)
        inp.scalar("courant_number", cfg.courant_number)
        mats = _materials(scn, salt)
        inp.note("scenario", {"materials": scn, "kinds": kinds, "grid": grid_kind, "salt": salt})
        # one generic cell of the volume
        cell = []
        for a in range(3):
            x = sym_int(f"cell{a}", lo=0)
            ctx().assume((x < shape[a]).z)
            inp.scalar(f"cell{a}", x)
            cell.append(x)
        cell_raw = tuple(A._raw_index(x) for x in cell)
        boxes = []
        for k in range(3):
            box = []
            for a in range(3):
                lo = sym_int(f"o{k}lo{a}", lo=0)
                hi = sym_int(f"o{k}hi{a}")
                ctx().assume((lo < hi).z)
                ctx().assume((hi <= shape[a]).z)
                inp.scalar(f"o{k}lo{a}", lo)
                inp.scalar(f"o{k}hi{a}", hi)
                box.append((lo, hi))
            boxes.append(tuple(box))
        masks = {}
        saved = (Sphere.get_voxel_mask_for_shape, Cylinder.get_voxel_mask_for_shape)
        Sphere.get_voxel_mask_for_shape = lambda self: masks[self.name]
        Cylinder.get_voxel_mask_for_shape = lambda self: masks[self.name]
        try:
            for oi, order in enumerate(orders):
                tag = "".join(map(str, order))
                objs = [scene._place(SimulationVolume(name=f"vol_{tag}", material=mats[0], partial_grid_shape=(None, None, None)), tuple((0, n) for n in shape), cfg)]
                covers = [True]
                for k in range(3):
                    name = f"o{k}_{tag}"
                    gshape = tuple(hi - lo for lo, hi in boxes[k])
                    inbox = True
                    for a in range(3):
                        inbox = A._vand(inbox, A._vand(boxes[k][a][0] <= cell[a], cell[a] < boxes[k][a][1]))
                    if kinds[k] == "b":
                        o = UniformMaterialObject(name=name, material=mats[k + 1], placement_order=order[k])
                        cov = inbox
                    else:
                        md = _material_dict(k, mats)
                        if kinds[k] == "m":
                            o = Sphere(name=name, materials=md, material_name="painted", radius=1.0, placement_order=order[k])
                            mshape = gshape
                        else:
                            o = Cylinder(name=name, materials=md, material_name="painted", radius=1.0, axis=1, placement_order=order[k])
                            mshape = (gshape[0], 1, gshape[2])
                        M = A.fresh_array(f"mask{k}", mshape, "bool")
                        inp.array(f"mask{k}_{tag}", M, default=None)
                        masks[name] = M
                        loc = [A._raw_index(cell[a] - boxes[k][a][0]) if not (A._is_pyint(mshape[a]) and mshape[a] == 1) else 0 for a in range(3)]
                        cov = A._vand(inbox, M.at_index(tuple(loc)))
                    objs.append(scene._place(o, boxes[k], cfg))
                    covers.append(cov)
                container = ObjectContainer(object_list=objs, volume_idx=0)
                if oi == 0:
                    c.cover("pre")
                arrays, _cfg2, _info = I._init_arrays(container, cfg)
                _post(c, f"ord{tag}", arrays, objs, covers, [-1000, *order], mats, cell_raw, shape, scale)
        finally:
            Sphere.get_voxel_mask_for_shape, Cylinder.get_voxel_mask_for_shape = saved

    return body


def _frame_contract(scn, pair, kinds, salt=0):
    """Induction step of the painting loop: two consecutive iterations of the REAL loop body on an
    ARBITRARY prior array state (the allocation stub hands out fresh symbolic arrays; the volume
    is a stand-in that is not a static material object, so nothing is painted before):
        new[x] = value(o) if o covers x (top-priority rule among the two) else prior[x]."""

    def body(c, inp):
        import fdtdx.fdtd.initialization as I
        from fdtdx.fdtd.container import ObjectContainer
        from fdtdx.objects.static_material.cylinder import Cylinder
        from fdtdx.objects.static_material.sphere import Sphere
        from fdtdx.objects.static_material.static import UniformMaterialObject

        shape = scene.sym_shape()
        for n, v in zip("xyz", shape):
            inp.scalar(f"N{n}", v)
        cfg, scale = _grid_config("uniform", shape, inp)
        allmats = _materials(scn, salt)
        mats = [allmats[0], allmats[pair[0]], allmats[pair[1]], allmats[pair[0]]]
        inp.note("scenario", {"materials": scn, "pair": pair, "kinds": kinds, "salt": salt})
        cell = []
        for a in range(3):
            x = sym_int(f"cell{a}", lo=0)
            ctx().assume((x < shape[a]).z)
            inp.scalar(f"cell{a}", x)
            cell.append(x)
        cell_raw = tuple(A._raw_index(x) for x in cell)
        boxes = []
        for k in range(2):
            box = []
            for a in range(3):
                lo = sym_int(f"o{k}lo{a}", lo=0)
                hi = sym_int(f"o{k}hi{a}")
                ctx().assume((lo < hi).z)
                ctx().assume((hi <= shape[a]).z)
                inp.scalar(f"o{k}lo{a}", lo)
                inp.scalar(f"o{k}hi{a}", hi)
                box.append((lo, hi))
            boxes.append(tuple(box))
        masks = {}
        saved = (Sphere.get_voxel_mask_for_shape, Cylinder.get_voxel_mask_for_shape)
        Sphere.get_voxel_mask_for_shape = lambda self: masks[self.name]
        Cylinder.get_voxel_mask_for_shape = lambda self: masks[self.name]
        try:
            for order in ((0, 1), (1, 0), (0, 0)):
                tag = "".join(map(str, order))
                vol = scene.Volume(shape)
                objs = []
                covers = []
                for k in range(2):
                    name = f"f{k}_{tag}"
                    gshape = tuple(hi - lo for lo, hi in boxes[k])
                    inbox = True
                    for a in range(3):
                        inbox = A._vand(inbox, A._vand(boxes[k][a][0] <= cell[a], cell[a] < boxes[k][a][1]))
                    if kinds[k] == "b":
                        o = UniformMaterialObject(name=name, material=mats[k + 1], placement_order=order[k])
                        cov = inbox
                    else:
                        md = _material_dict(k, mats)
                        if kinds[k] == "m":
                            o = Sphere(name=name, materials=md, material_name="painted", radius=1.0, placement_order=order[k])
                            mshape = gshape
                        else:
                            o = Cylinder(name=name, materials=md, material_name="painted", radius=1.0, axis=1, placement_order=order[k])
                            mshape = (gshape[0], 1, gshape[2])
                        M = A.fresh_array(f"mask{k}", mshape, "bool")
                        masks[name] = M
                        loc = [A._raw_index(cell[a] - boxes[k][a][0]) if not (A._is_pyint(mshape[a]) and mshape[a] == 1) else 0 for a in range(3)]
                        cov = A._vand(inbox, M.at_index(tuple(loc)))
                    objs.append(scene._place(o, boxes[k], cfg))
                    covers.append(cov)
                container = ObjectContainer(object_list=[vol, *objs], volume_idx=0)
                _FRAME["on"], _FRAME["made"] = True, []
                try:
                    arrays, _c2, _i = I._init_arrays(container, cfg)
                finally:
                    _FRAME["on"] = False
                made = list(_FRAME["made"])
                c.cover(f"pre{tag}")
                # allocation order of the code: E, H, inv_permittivities, [inv_permeabilities], [sigma_E], [sigma_H]
                prior = {}
                it = iter(made[2:])
                for attr in ("inv_permittivities", "inv_permeabilities", "electric_conductivity", "magnetic_conductivity"):
                    if isinstance(getattr(arrays, attr), SymArray):
                        prior[attr] = next(it, None)
                masked = any(kd != "b" for kd in kinds)
                for attr in ("inv_permittivities", "inv_permeabilities"):
                    pa = prior.get(attr)
                    if masked and pa is not None and A._is_pyint(pa.shape[0]) and pa.shape[0] in (1, 3):
                        # the masked update passes through 1/(1/prior): needs a non-zero prior entry
                        for comp in range(pa.shape[0]):
                            ctx().assume(zbool(A._vnot(A.v_eq(pa.at_index((comp, *cell_raw)), 0))))
                _post(c, f"frame{tag}", arrays, objs, covers, list(order), mats, cell_raw, shape, scale, prior=prior)
        finally:
            Sphere.get_voxel_mask_for_shape, Cylinder.get_voxel_mask_for_shape = saved

    return body


def _all_materials(objs):
    out = []
    for o in objs:
        m = getattr(o, "material", None)
        if m is not None:
            out.append(m)
        else:
            out.extend(o.materials.values())
    return out


def _painted(o):
    m = getattr(o, "material", None)
    return m if m is not None else o.materials[o.material_name]


def _post(c, pre, arrays, objs, covers, orders, mats, cell, shape, scale, prior=None):
    allm = _all_materials(objs)
    specs = [
        ("inv_permittivities", "permittivity", "inverse"),
        ("inv_permeabilities", "permeability", "inverse"),
        ("electric_conductivity", "electric_conductivity", "scaled"),
        ("magnetic_conductivity", "magnetic_conductivity", "scaled"),
    ]
    prio = [(orders[k], k) for k in range(len(objs))]
    for attr, prop, mode in specs:
        arr = getattr(arrays, attr)
        need = max(_tier_needed(getattr(m, prop)) for m in allm)
        trivial = all(tuple(getattr(m, prop)) == (I9 if mode == "inverse" else Z9) for m in allm)
        if attr == "inv_permeabilities" and trivial:
            c.prove(f"{pre}/{attr}:non_magnetic_scene_stores_scalar_1", isinstance(arr, float) and arr == 1.0)
            continue
        if arr is None:
            c.prove(f"{pre}/{attr}:absent_only_if_no_material_has_it", mode == "scaled" and trivial)
            continue
        if not isinstance(arr, SymArray):
            c.prove(f"{pre}/{attr}:is_an_array", False)
            continue
        ok = c.prove(f"{pre}/{attr}:rank4", arr.ndim == 4)
        if not ok:
            continue
        ok = c.prove(f"{pre}/{attr}:component_count=widest_tier({need})", A._is_pyint(arr.shape[0]) and arr.shape[0] == need)
        for a in range(3):
            c.prove(f"{pre}/{attr}:shape[{a + 1}]", A.v_eq(arr.shape[a + 1], shape[a]))
        if not (A._is_pyint(arr.shape[0]) and arr.shape[0] in (1, 3, 9)):
            continue
        T = _expand(arr, cell)
        for k, o in enumerate(objs):
            hyp = [zbool(covers[k])]
            for j in range(len(objs)):
                if prio[j] > prio[k]:
                    hyp.append(z3.Not(zbool(covers[j])))
            M9 = tuple(getattr(_painted(o), prop))
            goal = _is_inverse(T, M9) if mode == "inverse" else _equals_scaled(T, M9, scale)
            label = ("volume" if k == 0 else "o%d" % (k - 1)) if prior is None else "f%d" % k
            c.prove(f"{pre}/{attr}:cell_has_value_of_top_object[{label}]", goal, extra_hyps=hyp)
        if prior is not None:
            pa = prior.get(attr)
            ok = c.prove(f"{pre}/{attr}:prior_state_identified", isinstance(pa, SymArray) and pa.ndim == 4 and pa.shape[0] == arr.shape[0])
            if ok:
                hyp = [z3.Not(zbool(cv)) for cv in covers]
                goal = _conj([A.v_eq(arr.at_index((comp, *cell)), pa.at_index((comp, *cell))) for comp in range(arr.shape[0])])
                c.prove(f"{pre}/{attr}:uncovered_cell_keeps_prior_value", goal, extra_hyps=hyp)


# ---------------------------------------------------------------------------------------
# tasks
# ---------------------------------------------------------------------------------------


def _chunks(seq, n):
    return [seq[i : i + n] for i in range(0, len(seq), n)]


def tasks(tier, seed):
    offset = random.Random(seed).randrange(len(KINDS) - 1)
    out = {}
    conductive = {"sigE1", "sigE3", "sigE9", "sigH1", "sigH3", "sigH9", "mixed"}
    for scn in SCENARIOS:
        if tier == "thorough":
            kind_list = KINDS
            grids = ["uniform", "nonuniform"] if scn in conductive else ["uniform"]
            salts = [0, 1]
        else:
            # quick: boxes-only plus one mixed-kind pattern (rotating through the patterns, seeded offset)
            kind_list = ["bbb", KINDS[1 + (list(SCENARIOS).index(scn) + offset) % (len(KINDS) - 1)]]
            grids = ["uniform"] + (["nonuniform"] if scn in ("sigE3", "mixed") else [])
            salts = [0]
        for kinds in kind_list:
            for g in grids:
                for salt in salts:
                    for ci, chunk in enumerate(_chunks(ORDERS, 13)):
                        key = f"{scn}/{kinds}/{g}/s{salt}/orders{ci}"
                        out[key] = Task(_contract(scn, kinds, chunk, g, salt), extra_patch=_patch(), max_paths=64)
    # induction step (arbitrary prior state, two consecutive loop iterations)
    for si, scn in enumerate(SCENARIOS):
        pairs = [(1, 2), (2, 3), (3, 1)] if tier == "thorough" else [[(1, 2), (2, 3), (3, 1)][(si + offset) % 3]]
        for pair in pairs:
            for salt in ([0, 1] if tier == "thorough" else [0]):
                ms = _materials(scn, salt)
                wide = max(_tier_needed(getattr(ms[i], prop)) for i in pair for prop in ("permittivity", "permeability"))
                kind_list = ["bb", "mb", "bc", "mm", "cm"] if tier == "thorough" else ["bb", ["mb", "bc", "mm", "cm"][(si + offset) % 4]]
                for kinds in kind_list:
                    if kinds != "bb" and wide == 9:
                        continue  # masked update of a full-tensor prior needs inv(inv(M)) == M for symbolic M: not attempted
                    out[f"frame/{scn}/p{pair[0]}{pair[1]}/{kinds}/s{salt}"] = Task(_frame_contract(scn, pair, kinds, salt), extra_patch=_patch(), max_paths=64)
    return out


# ---------------------------------------------------------------------------------------
# replay
# ---------------------------------------------------------------------------------------


def replay(key, obligation, witness):
    """real _init_arrays (real JAX, real sharding helpers) on the witness boxes/masks, compared at
    every cell with a direct numpy painter (highest (order, list index) covering object wins).
    Frame-lemma keys: the real allocation helper is wrapped so that the arrays start from a random
    non-zero prior state instead of zeros (volume stand-in, nothing painted before)."""
    import re

    import jax.numpy as jnp
    import numpy as np

    import fdtdx
    import fdtdx.fdtd.initialization as I
    from fdtdx.config import SimulationConfig
    from fdtdx.core.grid import RectilinearGrid
    from fdtdx.fdtd.container import ObjectContainer
    from fdtdx.objects.static_material.static import SimulationVolume, UniformMaterialObject
    from vc.harness import witness_arrays_to_numpy

    sc = (witness or {}).get("scalars", {})
    parts = key.split("/")
    frame = parts[0] == "frame"
    if frame:
        _, scn, pair, kinds, salt = parts
        pair = (int(pair[1]), int(pair[2]))
        m = re.match(r"frame(\d)(\d)/", obligation)
    else:
        scn, kinds, _grid_kind, salt, _ = parts
        m = re.match(r"ord(\d)(\d)(\d)/", obligation)
    salt = int(salt[1:])
    if not m:
        return False, "obligation does not name an order pattern"
    order = tuple(int(x) for x in m.groups())
    K = len(order)
    tag = "".join(map(str, order))
    try:
        N = [max(1, int(sc[f"N{a}"])) for a in "xyz"]
        boxes = [tuple((int(sc[f"o{k}lo{a}"]), int(sc[f"o{k}hi{a}"])) for a in range(3)) for k in range(K)]
    except Exception as e:  # noqa: BLE001
        return False, f"witness incomplete: {e}"
    for b in boxes:
        if any(not (0 <= lo < hi <= n) for (lo, hi), n in zip(b, N)):
            return False, f"witness boxes {boxes} not well-formed for volume {N}"
    if N[0] * N[1] * N[2] > 2_000_000:
        return False, f"witness volume {N} too large to replay"
    if N == [1, 1, 1]:
        # the real allocation helper create_named_sharded_matrix raises StopIteration on an all-ones
        # shape (single-cell volume with a 1-component array); replay on a 2x1x1 volume instead
        N[0] = 2
    s = sc.get("spacing", 1.0)
    s = float(s) if isinstance(s, (int, float)) and s > 0 else 1.0
    wa = witness_arrays_to_numpy(witness or {})
    edges = [s * np.arange(n + 1) for n in N]
    grid = RectilinearGrid(x_edges=jnp.asarray(edges[0]), y_edges=jnp.asarray(edges[1]), z_edges=jnp.asarray(edges[2]))
    cfg = SimulationConfig(time=1e-15, grid=grid, backend="cpu", dtype=jnp.float64)
    mats = _materials(scn, salt)
    if frame:
        mats = [mats[0], mats[pair[0]], mats[pair[1]], mats[pair[0]]]
    rng = np.random.default_rng(0)
    if frame:
        objs = [scene.Volume(tuple(N))]
        cover = [np.ones(N, dtype=bool)]
    else:
        objs = [scene._place(SimulationVolume(name="rvol", material=mats[0], partial_grid_shape=(None, None, None)), tuple((0, n) for n in N), cfg)]
        cover = [np.ones(N, dtype=bool)]
    for k in range(K):
        gshape = tuple(hi - lo for lo, hi in boxes[k])
        sl = tuple(slice(lo, hi) for lo, hi in boxes[k])
        cv = np.zeros(N, dtype=bool)
        if kinds[k] == "b":
            o = UniformMaterialObject(name=f"ro{k}", material=mats[k + 1], placement_order=order[k])
            cv[sl] = True
        else:
            md = _material_dict(k, mats)
            mshape = gshape if kinds[k] == "m" else (gshape[0], 1, gshape[2])
            mk = wa.get(f"mask{k}_{tag}")
            if mk is None or mk.shape != mshape:
                mk = rng.random(mshape) < 0.6
            mk = np.asarray(mk, dtype=bool)

            def mask_fn(self, mk=mk):
                return jnp.asarray(mk)

            base = fdtdx.Sphere if kinds[k] == "m" else fdtdx.Cylinder
            cls = type(f"Replay{base.__name__}{k}", (base,), {"get_voxel_mask_for_shape": mask_fn})
            kw = {"axis": 1} if kinds[k] == "c" else {}
            o = cls(name=f"ro{k}", materials=md, material_name="painted", radius=1.0, placement_order=order[k], **kw)
            cv[sl] = np.broadcast_to(mk, gshape)
        objs.append(scene._place(o, boxes[k], cfg))
        cover.append(cv)
    made = []
    if frame:
        real_create = I.create_named_sharded_matrix

        def create(shape, value, sharding_axis, dtype, backend):
            base = real_create(shape, value=1.0, sharding_axis=sharding_axis, dtype=dtype, backend=backend)
            pr = rng.uniform(0.5, 1.5, size=tuple(shape))
            if shape[0] == 9 and len(shape) == 4:
                pr = pr * 0.1
                pr[0] += 1.0
                pr[4] += 1.0
                pr[8] += 1.0
            made.append(pr)
            return base * jnp.asarray(pr, dtype=base.dtype)

        I.create_named_sharded_matrix = create
        try:
            arrays, _, _ = I._init_arrays(ObjectContainer(object_list=objs, volume_idx=0), cfg)
        finally:
            I.create_named_sharded_matrix = real_create
    else:
        arrays, _, _ = I._init_arrays(ObjectContainer(object_list=objs, volume_idx=0), cfg)
    prio = [(-(10**6) if frame else -1000, 0)] + [(order[k], k + 1) for k in range(K)]
    top = np.zeros(N, dtype=int)
    for k in sorted(range(K + 1), key=lambda k: prio[k]):
        top = np.where(cover[k], k, top)
    scale = float(fdtdx.constants.c * cfg.time_step_duration / cfg.courant_number)
    problems = []
    real_objs = objs[1:] if frame else objs
    allm = _all_materials(real_objs)
    prior_it = iter(made[2:])
    for attr, prop, mode in (("inv_permittivities", "permittivity", "inverse"), ("inv_permeabilities", "permeability", "inverse"), ("electric_conductivity", "electric_conductivity", "scaled"), ("magnetic_conductivity", "magnetic_conductivity", "scaled")):
        arr = getattr(arrays, attr)
        need = max(_tier_needed(getattr(mm, prop)) for mm in allm)
        trivial = all(tuple(getattr(mm, prop)) == (I9 if mode == "inverse" else Z9) for mm in allm)
        if attr == "inv_permeabilities" and trivial:
            if not (isinstance(arr, float) and arr == 1.0):
                problems.append(f"{attr}: non-magnetic scene stores {type(arr).__name__}")
            continue
        if arr is None:
            if not (mode == "scaled" and trivial):
                problems.append(f"{attr}: missing although a material needs it")
            continue
        arr = np.asarray(arr)
        prior = next(prior_it, None) if frame else None
        if arr.shape != (need, *N):
            problems.append(f"{attr}: shape {arr.shape}, expected {(need, *N)}")
            continue
        exp = np.array(prior, dtype=float) if (frame and prior is not None and prior.shape == arr.shape) else np.zeros((need, *N))
        for k, o in enumerate(objs):
            if frame and k == 0:
                continue
            M = np.array(getattr(_painted(o), prop), dtype=float).reshape(3, 3)
            full = np.linalg.inv(M) if mode == "inverse" else M * scale
            comp = {1: [full[0, 0]], 3: [full[0, 0], full[1, 1], full[2, 2]], 9: list(full.ravel())}[need]
            for ci, v in enumerate(comp):
                exp[ci][top == k] = v
        bad = np.argwhere(~np.isclose(arr, exp, rtol=1e-9, atol=1e-12))
        if len(bad):
            b = tuple(int(x) for x in bad[0])
            problems.append(f"{attr}: {len(bad)} entries differ, first at component {b[0]} cell {b[1:]} (top object {int(top[b[1:]])}{', 0 = prior state' if frame else ''}): stored {arr[b]:.6g}, painter's rule {exp[b]:.6g}")
    detail = f"{key} order {order}: volume {N}, boxes {boxes}: " + ("; ".join(problems) if problems else "real _init_arrays agrees with the painter's rule at every cell")
    return bool(problems), detail
