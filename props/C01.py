"""C01  Discrete electromagnetic energy is conserved, and lossy media only dissipate.

Contract chain (every link is an obligation on the REAL code or a lemma over the contracts):

 (1) curl contracts   real pad_fields_for_boundaries + curl_E / curl_H  ==  spec.yee.Yee.curl_E/curl_H
     (forward / backward differences with the ghost-cell semantics of each boundary kind and the
     rectilinear metric factors), pointwise for all shapes.
 (2) update contracts real update_E:  E' = P_pec[((1-s) E + c inv_eps curl_H(H)) / (1+s)],  s = c sigma eta0 inv_eps/2
                      real update_H:  H' = P_pmc[H - c inv_mu curl_E(E)]
 (3) local energy identity, assembled from four lemmas over the contracts (I1 H-term via two applications of the
     update_H contract; I2a E-term from the update_E contract; I2b linearity of the curl contract; I2c discrete
     product rule for arbitrary wall-compatible fields F, G): with F = E^{n+1}+E^n, G = H^{n+1/2},
        w(idx) := sum_c V_E,c eps_c (|E^{n+1}_c|^2 - |E^n_c|^2) + V_H,c mu_c Re(conj(G_c) (H^{n+3/2}_c - H^{n-1/2}_c))
                = c*ref * sum_a [Phi_a(idx+e_a) - Phi_a(idx)]  -  sum_c V_E,c (c sigma_c eta0/2) |F_c|^2
     with the staggered Poynting flux Phi_a(idx) = Re( A_c conj(F_c(idx)) G_b(idx-e_a) - A_b conj(F_b(idx)) G_c(idx-e_a) ),
     (a,b,c) cyclic, proved for every position class of idx (interior / each face / one-cell axes).
 (4) boundary flux: Phi_a = 0 on open, PEC and PMC faces; Phi_a(N) = Phi_a(0) on periodic/Bloch axes.
 (5) loss term >= 0 for sigma >= 0.
 (3)+(4) and the telescoping-sum lemma (L3, a finite-sum identity) give W^{n+1} - W^n = - sum loss,
 i.e. = 0 without conductivity and <= 0 with it; induction over steps gives 'after every time step'.

Energy weights: V_E,c / V_H,c are the volumes of the component's own Yee cell (primal width along
the component axis for E, dual widths across; dually for H).  On uniform grids these are all the
cell volume.  (With the plain cell volume w_x w_y w_z for every component the identity is false on
non-uniform grids; the scheme conserves the staggered-volume energy - see DESIGN.md.)
"""

from __future__ import annotations

import itertools

from props import common as K
from spec.yee import Yee, cyc, tier
from vc import array as A
from vc import scene
from vc.array import SymArray
from vc.core import SymNum, ctx, ite
from vc.harness import Task
from vc.obl import prove_arrays_equal, sym_int, sym_real

ID = "C01"
LEVEL = "proof"
TECHNIQUE = "contracts on the real curl/update functions (symbolic execution, z3) + local discrete Poynting identity proved from the contracts by exact ring normal form over all index position classes"
MODULES = K.SOLVER_MODULES
FILES = K.SOLVER_FILES
FUNCTIONS = [
    "fdtdx.core.misc.pad_fields",
    "fdtdx.fdtd.update.pad_fields_for_boundaries",
    "fdtdx.objects.boundaries.bloch.BlochBoundary.apply_pad_correction/get_bloch_phase",
    "fdtdx.core.physics.curl.curl_E",
    "fdtdx.core.physics.curl.curl_H",
    "fdtdx.fdtd.update.update_E",
    "fdtdx.fdtd.update.update_H",
    "fdtdx.objects.boundaries.pec.PerfectElectricConductor.apply_post_E_update",
    "fdtdx.objects.boundaries.pmc.PerfectMagneticConductor.apply_post_H_update",
]
INLINED = ["fdtdx.core.physics.curl._metric_scale", "fdtdx.fdtd.update.get_wrap_padding_axes"]
STUBS = ["RectilinearGrid.cell_widths/edges/min_spacing (SymGrid: arbitrary widths >= min spacing > 0)", "exp(i k L) of the Bloch phase as (cos, sin) uninterpreted functions"]
ASSUMPTIONS = [
    "energy weights are the staggered Yee-cell volumes of each component (equal to the cell volume on uniform grids)",
    "the state satisfies the wall conditions (tangential E zero on PEC slabs, tangential H zero on PMC slabs), as every state produced by a step does",
    "inverse permittivity/permeability > 0, conductivity >= 0, Courant number > 0; isotropic or diagonal tiers (property text)",
    "telescoping of a finite sum over the grid (lemma L3) and induction over time steps are pencil steps on top of the discharged pointwise obligations",
    "no magnetic conductivity (the property speaks of electric conductivity only)",
]
MIN_OBLIGATIONS = {"quick": 500, "thorough": 2000}
LEVEL_TEXT = "Deductive proof for all grid shapes, field/material values, widths and Courant numbers of the curl and update contracts on the real code and of the local energy identity + boundary-flux + dissipation-sign lemmas over those contracts; boundary kinds per face, material tiers, grid kind enumerated"
LEVEL_NOTE = "real arithmetic; staggered-volume energy; telescoping/induction lemma assumed (finite-sum identity); quick tier samples the boundary product"


# ---------------------------------------------------------------------------------------


def _mk(c, inp, spec, fields=("E", "H"), wall=True):
    assign = spec["bnd"]
    shape = scene.sym_shape()
    for n, v in zip("xyz", shape):
        inp.scalar(f"N{n}", v)
    cfg = scene.make_config(nonuniform_shape=shape if spec.get("nonuniform") else None)
    bnds = K.make_boundaries(assign, shape, cfg)
    objs = scene.make_objects(shape, cfg, bnds)
    Ef, Hf = K.wall_facts(assign, shape)
    arr = scene.make_arrays(shape, eps_tier=spec["eps"], mu_tier=spec["mu"], sigE_tier=spec.get("sigE"), sigH_tier=None, complex_fields=bool(spec.get("complex")), E_fact=Ef if wall else None, H_fact=Hf if wall else None)
    inp.array("E", arr.fields.E)
    inp.array("H", arr.fields.H)
    inp.note("spec", {k: str(v) for k, v in spec.items()})
    widths = None
    ref = 1
    if spec.get("nonuniform"):
        from fdtdx.constants import c as c0

        g = cfg.resolved_grid
        widths = [g.cell_widths(a) for a in range(3)]
        ref = c0 * cfg.time_step_duration / cfg.courant_number
    phases = {}
    for b in bnds:
        if getattr(b, "needs_complex_fields", False):
            spacing = cfg.resolved_grid.min_spacing if spec.get("nonuniform") else cfg.uniform_spacing()
            phases[b.axis] = _phase(b, shape, cfg, spacing)
    y = Yee(shape, assign, widths=widths, ref=ref, phases=phases)
    return shape, cfg, objs, arr, y


def _phase(b, shape, cfg, spacing):
    """phi = exp(i k L) from the property statement, L = physical length of the axis"""
    from vc.shims import make_jnp_cached

    k = b.bloch_vector[b.axis]
    if cfg.resolved_grid is not None:
        e = cfg.resolved_grid.edges(b.axis)
        L = e.at_index((A._raw_index(shape[b.axis]),)) - e.at_index((0,))
    else:
        L = shape[b.axis] * spacing
    return make_jnp_cached().exp(SymNum(0, 1) * (k * L) if not isinstance(k * L, SymNum) else SymNum(0, (k * L).re))


def _spec_array(shape, fn, kind="real"):
    return SymArray((3, *shape), lambda idx: fn(idx[0], tuple(A._wrap_idx(i) for i in idx[1:])), kind)


def _curl_task(spec):
    def body(c, inp):
        import fdtdx.core.physics.curl as C
        import fdtdx.fdtd.update as U

        shape, cfg, objs, arr, y = _mk(c, inp, spec, wall=False)
        kind = "complex" if spec.get("complex") else "real"
        c.cover("pre")
        E_pad = U.pad_fields_for_boundaries(arr.fields.E, objs, cfg)
        got, _ = C.curl_E(cfg, E_pad, {}, objs, True)
        prove_arrays_equal("curl_E", got, _spec_array(shape, lambda comp, idx: y.curl_E(arr.fields.E, comp, idx), kind))
        H_pad = U.pad_fields_for_boundaries(arr.fields.H, objs, cfg)
        got, _ = C.curl_H(cfg, H_pad, {}, objs, True)
        prove_arrays_equal("curl_H", got, _spec_array(shape, lambda comp, idx: y.curl_H(arr.fields.H, comp, idx), kind))

    return body


def spec_update_E(y, cn, eta0, E, H, inv_eps, sigma):
    def fn(comp, idx):
        e = tier(inv_eps, comp, idx)
        Kc = y.curl_H(H, comp, idx)
        E0 = E.at_index((comp,) + tuple(A._raw_index(i) for i in idx))
        if sigma is None:
            v = E0 + cn * Kc * e
        else:
            s = cn * tier(sigma, comp, idx) * eta0 * e / 2
            v = ((1 - s) * E0 + cn * Kc * e) / (1 + s)
        w = y.on_wall("pec", comp, idx)
        return v if w is False else ite(w, 0, v)

    return fn


def spec_update_H(y, cn, E, H, inv_mu):
    def fn(comp, idx):
        m = tier(inv_mu, comp, idx)
        Lc = y.curl_E(E, comp, idx)
        H0 = H.at_index((comp,) + tuple(A._raw_index(i) for i in idx))
        v = H0 - cn * Lc * m
        w = y.on_wall("pmc", comp, idx)
        return v if w is False else ite(w, 0, v)

    return fn


def _update_task(spec):
    def body(c, inp):
        import fdtdx.fdtd.update as U
        from fdtdx.constants import eta0

        shape, cfg, objs, arr, y = _mk(c, inp, spec, wall=False)
        kind = "complex" if spec.get("complex") else "real"
        cn = cfg.courant_number
        t_arr, t = K.time_scalar("t")
        c.cover("pre")
        a1 = U.update_E(t_arr, arr, objs, cfg, True)
        prove_arrays_equal("update_E", a1.fields.E, _spec_array(shape, spec_update_E(y, cn, eta0, arr.fields.E, arr.fields.H, arr.inv_permittivities, arr.electric_conductivity), kind))
        a2 = U.update_H(t_arr, arr, objs, cfg, True)
        prove_arrays_equal("update_H", a2.fields.H, _spec_array(shape, spec_update_H(y, cn, arr.fields.E, arr.fields.H, arr.inv_permeabilities), kind))

    return body


# ---------------------------------------------------------------------------------------
# (3)-(5): lemmas over the contracts
# ---------------------------------------------------------------------------------------

def _re(v):
    return A._real(v)


def _is_cplx(v):
    return isinstance(v, complex) or (isinstance(v, SymNum) and v.im is not None)


def _cmul_re(a, b):
    """Re(conj(a) * b)"""
    if _is_cplx(a) or _is_cplx(b):
        return _re(A._conj(a) * b)
    return a * b


def _abs2(a):
    return _cmul_re(a, a)


def _generic_idx(c, shape):
    idx, hyps = [], []
    for a in range(3):
        i = sym_int("i", lo=None)
        idx.append(i)
        hyps += [i >= 0, i < shape[a]]
    return tuple(idx), hyps


def _at(X, comp, idx):
    return X.at_index((comp,) + tuple(A._raw_index(i) for i in idx))


def _hterm_task(spec):
    """Lemma I1 (two applications of the update_H contract):
    mu_c Re(conj(G_c) (H^{n+3/2}_c - H^{n-1/2}_c)) == -c Re(conj(G_c) (curl_E(E^{n+1})_c + curl_E(E^n)_c))."""

    def body(c, inp):
        shape, cfg, objs, arr, y = _mk(c, inp, spec, wall=True)
        kind = "complex" if spec.get("complex") else "real"
        cn = cfg.courant_number
        E0, H0 = arr.fields.E, arr.fields.H
        Ef, _ = K.wall_facts(spec["bnd"], shape)
        E1 = A.fresh_array("E1", (3, *shape), kind, fact=Ef)
        inv_mu = arr.inv_permeabilities
        G = _spec_array(shape, spec_update_H(y, cn, E0, H0, inv_mu), kind)
        H2 = _spec_array(shape, spec_update_H(y, cn, E1, G, inv_mu), kind)
        c.cover("pre")
        idx, hyps = _generic_idx(c, shape)
        for comp in range(3):
            mu = 1 / tier(inv_mu, comp, idx)
            g = _at(G, comp, idx)
            lhs = mu * _cmul_re(g, _at(H2, comp, idx) - _at(H0, comp, idx))
            rhs = -cn * _cmul_re(g, y.curl_E(E1, comp, idx) + y.curl_E(E0, comp, idx))
            c.prove(f"H_energy_term[{comp}]", A.v_eq(lhs, rhs), extra_hyps=hyps)

    return body


def _flux(y, F, G):
    def areas(a, idx):
        b, cc = cyc(a)
        # Phi_a = A_c F_c G_b - A_b F_b G_c ; A_c = wd_b * w_c (E_c: primal along c, dual along b)
        return y.wd(b, idx[b]) * y.w(cc, idx[cc]), y.w(b, idx[b]) * y.wd(cc, idx[cc])

    def phi(a, idx):
        b, cc = cyc(a)
        A_c, A_b = areas(a, idx)
        prev = list(idx)
        prev[a] = prev[a] - 1
        prev = tuple(prev)
        return A_c * _cmul_re(y.at(F, cc, idx), y.at(G, b, prev)) - A_b * _cmul_re(y.at(F, b, idx), y.at(G, cc, prev))

    return phi


def _eterm_task(spec):
    """Lemma I2a (update_E contract, one cell, one component):
    eps_c (|E^{n+1}_c|^2 - |E^n_c|^2) == c Re(conj(F_c) curl_H(G)_c) - (c sigma_c eta0/2) |F_c|^2,  F = E^{n+1}+E^n,
    and the dissipated term is non-negative."""

    def body(c, inp):
        from fdtdx.constants import eta0

        shape, cfg, objs, arr, y = _mk(c, inp, spec, wall=True)
        kind = "complex" if spec.get("complex") else "real"
        cn = cfg.courant_number
        E0, G = arr.fields.E, arr.fields.H
        inv_eps, sigma = arr.inv_permittivities, arr.electric_conductivity
        E1 = _spec_array(shape, spec_update_E(y, cn, eta0, E0, G, inv_eps, sigma), kind)
        c.cover("pre")
        idx, hyps = _generic_idx(c, shape)
        for comp in range(3):
            eps = 1 / tier(inv_eps, comp, idx)
            e1, e0 = _at(E1, comp, idx), _at(E0, comp, idx)
            f = e1 + e0
            coef = 0 if sigma is None else (cn * tier(sigma, comp, idx) * eta0 / 2)
            loss = coef * _abs2(f)
            lhs = eps * (_abs2(e1) - _abs2(e0))
            rhs = cn * _cmul_re(f, y.curl_H(G, comp, idx)) - loss
            c.prove(f"E_energy_term[{comp}]", A.v_eq(lhs, rhs), extra_hyps=hyps)
            if sigma is not None:
                # loss = coef * |F|^2 with |F|^2 = Re(F)^2 + Im(F)^2: proved for ARBITRARY reals in place of the
                # (large) real and imaginary parts of F - a generalisation, which keeps the nonlinear query small
                fr, fi = sym_real("F_re"), sym_real("F_im")
                c.prove(f"dissipation_sign[{comp}]", coef * (fr * fr + fi * fi) >= 0, extra_hyps=hyps)

    return body


def _curl_linear_task(spec):
    """Lemma I2b: the curl contract is linear: curl_E(X)+curl_E(Y) == curl_E(X+Y)."""

    def body(c, inp):
        shape, cfg, objs, arr, y = _mk(c, inp, spec, wall=False)
        kind = "complex" if spec.get("complex") else "real"
        X, Y = arr.fields.E, arr.fields.H
        Z = X + Y
        c.cover("pre")
        idx, hyps = _generic_idx(c, shape)
        for comp in range(3):
            c.prove(f"curl_E_linear[{comp}]", A.v_eq(y.curl_E(X, comp, idx) + y.curl_E(Y, comp, idx), y.curl_E(Z, comp, idx)), extra_hyps=hyps)

    return body


def _product_rule_task(spec):
    """Lemma I2c (discrete product rule / summation by parts, no materials):
    sum_c V_E,c Re(conj(F_c) curl_H(G)_c) - sum_c V_H,c Re(conj(G_c) curl_E(F)_c) == ref * sum_a [Phi_a(idx+e_a) - Phi_a(idx)]
    for every field F satisfying the PEC wall condition and G satisfying the PMC wall condition."""

    def body(c, inp):
        shape, cfg, objs, arr, y = _mk(c, inp, spec, wall=True)
        F, G = arr.fields.E, arr.fields.H
        phi = _flux(y, F, G)
        c.cover("pre")
        idx, hyps = _generic_idx(c, shape)
        lhs = 0
        for comp in range(3):
            lhs = lhs + y.vol_E(comp, idx) * _cmul_re(_at(F, comp, idx), y.curl_H(G, comp, idx))
            lhs = lhs - y.vol_H(comp, idx) * _cmul_re(_at(G, comp, idx), y.curl_E(F, comp, idx))
        div = 0
        for a in range(3):
            nxt = list(idx)
            nxt[a] = nxt[a] + 1
            div = div + (phi(a, tuple(nxt)) - phi(a, idx))
        c.prove("discrete_product_rule", A.v_eq(lhs, y.ref * div), extra_hyps=hyps)

    return body


def _boundary_flux_task(spec):
    """Lemma I3: the flux vanishes on open/PEC/PMC faces and matches across periodic/Bloch faces."""

    def body(c, inp):
        shape, cfg, objs, arr, y = _mk(c, inp, spec, wall=True)
        F, G = arr.fields.E, arr.fields.H  # F = E^{n+1}+E^n satisfies the PEC condition, G the PMC one
        phi = _flux(y, F, G)
        c.cover("pre")
        for a in range(3):
            lo, hi = spec["bnd"][a]
            b, cc = cyc(a)
            jb = sym_int("jb", lo=0)
            jc = sym_int("jc", lo=0)
            hyps = [jb < shape[b], jc < shape[cc]]
            i0 = [None] * 3
            i0[a], i0[b], i0[cc] = 0, jb, jc
            iN = list(i0)
            iN[a] = shape[a]
            if y.wrap_axis(a):
                c.prove(f"boundary_flux[axis {a}: {lo}/{hi}] Phi(N)==Phi(0)", A.v_eq(phi(a, tuple(iN)), phi(a, tuple(i0))), extra_hyps=hyps)
            else:
                c.prove(f"boundary_flux[axis {a}: lo={lo}] Phi(0)==0", A.v_eq(phi(a, tuple(i0)), 0), extra_hyps=hyps)
                c.prove(f"boundary_flux[axis {a}: hi={hi}] Phi(N)==0", A.v_eq(phi(a, tuple(iN)), 0), extra_hyps=hyps)

    return body


def tasks(tier_name, seed):
    out = {}
    assigns = K.boundary_assignments(tier_name, seed, K.AXIS_PAIRS_CLOSED, n_sample=6 if tier_name == "quick" else 0)
    for a in assigns:
        lab = K.bnd_label(a)
        out[f"curl/{lab}/uniform"] = Task(_curl_task(dict(bnd=a, eps=1, mu=1)))
        out[f"update/{lab}/e3m3s3"] = Task(_update_task(dict(bnd=a, eps=3, mu=3, sigE=3)))
    mixed = (("pec", "pmc"), ("periodic", "periodic"), (None, None))
    others = [mixed, ((None, None),) * 3, (("pmc", "pec"), ("pec", None), ("periodic", "periodic")), (("periodic", "periodic"),) * 3]
    for a in others:
        lab = K.bnd_label(a)
        out[f"curl/{lab}/nonuniform"] = Task(_curl_task(dict(bnd=a, eps=1, mu=1, nonuniform=True)))
        for e, m, s in [(1, "scalar", None), (1, 1, 1), (3, 1, 3), (1, 3, None), (3, 3, 1)]:
            out[f"update/{lab}/e{e}m{m}s{s}"] = Task(_update_task(dict(bnd=a, eps=e, mu=m, sigE=s)))
        out[f"update/{lab}/nonuniform/e3m3s3"] = Task(_update_task(dict(bnd=a, eps=3, mu=3, sigE=3, nonuniform=True)))
    blochs = [(("bloch", "bloch"), (None, None), ("pec", "pmc")), (("periodic", "periodic"), ("bloch", "bloch"), ("bloch", "bloch"))]
    for a in blochs:
        lab = K.bnd_label(a)
        out[f"curl/{lab}/uniform"] = Task(_curl_task(dict(bnd=a, eps=1, mu=1, complex=True)))
        out[f"curl/{lab}/nonuniform"] = Task(_curl_task(dict(bnd=a, eps=1, mu=1, complex=True, nonuniform=True)))
        out[f"update/{lab}/e3m1s1"] = Task(_update_task(dict(bnd=a, eps=3, mu=1, sigE=1, complex=True)))
    # lemmas over the contracts
    id_assigns = assigns if tier_name == "thorough" else others + [(("pec", "pec"), ("pmc", "pmc"), (None, "pmc")), (("pec", None), (None, None), ("pmc", "pec"))]
    for a in id_assigns:
        lab = K.bnd_label(a)
        for e, m, s, nu in [(3, 3, 3, False), (1, "scalar", None, False), (3, 3, 3, True), (1, 1, None, True), (1, 3, 1, False)]:
            sp = dict(bnd=a, eps=e, mu=m, sigE=s, nonuniform=nu)
            suffix = f"e{e}m{m}s{s}{'/nonuniform' if nu else ''}"
            out[f"lemma_H_term/{lab}/{suffix}"] = Task(_hterm_task(sp))
            out[f"lemma_E_term/{lab}/{suffix}"] = Task(_eterm_task(sp))
        for nu in (False, True):
            sp = dict(bnd=a, eps=1, mu=1, nonuniform=nu)
            g = "nonuniform" if nu else "uniform"
            out[f"lemma_boundary_flux/{lab}/{g}"] = Task(_boundary_flux_task(sp))
            out[f"lemma_product_rule/{lab}/{g}"] = Task(_product_rule_task(sp))
            out[f"lemma_curl_linear/{lab}/{g}"] = Task(_curl_linear_task(sp))
    for a in blochs:
        lab = K.bnd_label(a)
        sp = dict(bnd=a, eps=3, mu=1, sigE=1, complex=True)
        out[f"lemma_H_term/{lab}/e3m1s1/complex"] = Task(_hterm_task(sp))
        out[f"lemma_E_term/{lab}/e3m1s1/complex"] = Task(_eterm_task(sp))
        spc = dict(bnd=a, eps=1, mu=1, complex=True)
        out[f"lemma_boundary_flux/{lab}/complex"] = Task(_boundary_flux_task(spc))
        out[f"lemma_product_rule/{lab}/complex"] = Task(_product_rule_task(spc))
        out[f"lemma_curl_linear/{lab}/complex"] = Task(_curl_linear_task(spc))
    return out


# ---------------------------------------------------------------------------------------
# replay on the real code
# ---------------------------------------------------------------------------------------


def replay(key, obligation, witness):
    """curl/update contracts: the REAL pad_fields_for_boundaries + curl_E/curl_H resp. update_E/update_H under
    real JAX (float64) on the witness' shape (random data, wall preconditions enforced) against the Yee
    specification evaluated cell by cell on the same numbers.  The lemma_* tasks speak about the specification
    only (no repository code is involved); a refuted lemma is a defect of the spec and has no real-code input."""
    import itertools

    import jax.numpy as jnp
    import numpy as np

    import fdtdx.core.physics.curl as C
    import fdtdx.fdtd.update as U
    from fdtdx.constants import c as c0
    from fdtdx.constants import eta0
    from fdtdx.fdtd.container import ObjectContainer

    if not (key.startswith("curl/") or key.startswith("update/")):
        return False, "lemma over the contracts (specification level): no repository code is executed in this obligation"
    spec = K.parse_spec((witness or {}).get("notes"))
    if not spec:
        return False, "witness carries no configuration"
    sc = dict((witness or {}).get("scalars") or {})
    details = []
    for attempt in range(3):
        w = {"scalars": {k: v for k, v in sc.items() if k in ("Nx", "Ny", "Nz")}} if attempt == 0 else {"scalars": {"Nx": 2 + attempt, "Ny": 3, "Nz": 1 + attempt}}
        if any(isinstance(v, int) and v > 6 for v in w["scalars"].values()):
            w = {"scalars": {k: min(int(v), 6) for k, v in w["scalars"].items()}}
        shape, cfg, objs, arrays, rng = K.concrete_scene(spec, w, seed=attempt)
        oc = ObjectContainer(object_list=objs, volume_idx=0)
        widths, ref = None, 1
        if spec.get("nonuniform"):
            widths = [A.asarray(np.asarray(cfg.resolved_grid.cell_widths(a))) for a in range(3)]
            ref = float(c0 * cfg.time_step_duration / cfg.courant_number)
        phases = {}
        for o in objs:
            if getattr(o, "needs_complex_fields", False):
                sp = float(cfg.resolved_grid.min_spacing) if spec.get("nonuniform") else cfg.uniform_spacing()
                phases[o.axis] = complex(np.asarray(o.get_bloch_phase(shape, sp)))
        y = Yee(shape, spec["bnd"], widths=widths, ref=ref, phases=phases)
        E, H = A.asarray(np.asarray(arrays.fields.E)), A.asarray(np.asarray(arrays.fields.H))

        def num(v):
            if isinstance(v, SymNum):
                return complex(v.re, v.im) if v.im is not None else float(v.re)
            return v

        def cmp(name, got, fn):
            got = np.asarray(got)
            worst, where = 0.0, None
            for comp in range(3):
                for cell in itertools.product(*[range(n) for n in shape]):
                    d = abs(got[(comp, *cell)] - num(fn(comp, cell)))
                    if d > worst:
                        worst, where = d, (comp, *cell)
            scale = max(1.0, float(np.max(np.abs(got)))) if got.size else 1.0
            details.append(f"attempt {attempt}: shape={tuple(shape)} {name}: max |real - spec| = {worst:.3e} at {where} (scale {scale:.2e})")
            return worst > 1e-9 * scale

        bad = False
        if key.startswith("curl/"):
            gotE, _ = C.curl_E(cfg, U.pad_fields_for_boundaries(arrays.fields.E, oc, cfg), {}, oc, True)
            gotH, _ = C.curl_H(cfg, U.pad_fields_for_boundaries(arrays.fields.H, oc, cfg), {}, oc, True)
            if obligation.startswith("curl_E"):
                bad = cmp("curl_E", gotE, lambda comp, idx: y.curl_E(E, comp, idx))
            else:
                bad = cmp("curl_H", gotH, lambda comp, idx: y.curl_H(H, comp, idx))
        else:
            t = jnp.asarray(1, dtype=jnp.int32)
            cn = float(cfg.courant_number)

            def mat(X):
                return X if X is None or not hasattr(X, "shape") or np.ndim(X) == 0 else A.asarray(np.asarray(X))

            if obligation.startswith("update_E"):
                got = U.update_E(t, arrays, oc, cfg, True).fields.E
                bad = cmp("update_E", got, spec_update_E(y, cn, eta0, E, H, mat(arrays.inv_permittivities), mat(arrays.electric_conductivity)))
            else:
                got = U.update_H(t, arrays, oc, cfg, True).fields.H
                bad = cmp("update_H", got, spec_update_H(y, cn, E, H, mat(arrays.inv_permeabilities)))
        if bad:
            return True, "\n".join(details)
    return False, "\n".join(details)
