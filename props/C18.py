"""C18  Device parameters map to materials exactly as documented.

Contracts (all proved on the REAL functions imported from /repo/src, symbolic grid shape, symbolic
device boxes, symbolic cell values; finite configuration classes enumerated in `tasks`):

  apply_params(arrays, objects, params)                                  [fdtd/initialization.py]
      requires  every device's transform chain yields an array rho of the device's grid shape
                (chain abstracted: Device.__call__ stubbed, see STUBS; the real __call__ with the
                real voxel expansion is composed in the `pipeline/*` tasks)
                etched device present  ==>  arrays.initial_inv_permittivities is an array I0 and
                arrays.inv_permittivities == I0 on every cell outside all device boxes
                (the invariant established by _init_arrays and re-established by every apply_params,
                both proved here: tasks `init_backup/*` and obligation `inv:`)
      ensures   POST  out.inv_permittivities == FOLD, where FOLD is the documented semantics
                  base  = I0 if given else arrays.inv_permittivities
                  for each device d in list order, on the cells of d's box:
                     continuous: inv(eps_0 + rho*(eps_1 - eps_0))      (eps_0/eps_1 in the library's
                                                                        documented material order)
                     etched    : inv(P + rho*(eps_etch - P)),  P = inv(value before d)
                     discrete  : inv(eps_m),  m = rho  (and dispersive_c1..c4 = coefficient stack of m)
                  inv = reciprocal per component (1 / 3 components), 3x3 matrix inverse of the
                  row-major tensor (9 components)
                RANGE   (1/3 components, rho in [0,1]) value between the two end-point inverses
                FRAME   cells outside every device box are unchanged (inv_permittivities and the
                        dispersive coefficient arrays); the etch backup is never modified
                HIST    apply(p2) after apply(p1) == apply(p2), for every array written
      call-site  device(params[device.name], expand_to_sim_grid=True)

  expand_matrix(m, g)   ensures shape == m.shape*g and out[i,j,k] == m[i//g0, j//g1, k//g2]
  Device.__call__       ensures chain applied first-to-last, then expanded iff expand_to_sim_grid
  _init_arrays          ensures any device etches ==> initial_inv_permittivities is an array equal
                                to inv_permittivities (same shape, every cell)
"""

from __future__ import annotations

import itertools

from vc import array as A
from vc import scene
from vc.array import SymArray
from vc.core import SymNum, apply_uf, ctx, ite
from vc.harness import Task
from vc.obl import prove_arrays_equal, prove_pointwise, sym_int, sym_real

ID = "C18"
LEVEL = "proof"
TECHNIQUE = "symbolic execution of the real apply_params / Device.__call__ / expand_matrix / _init_arrays on symbolic shapes, boxes, materials and cell values; cell-wise postcondition against the documented fold semantics; z3 + ring normal form"
MODULES = [
    "fdtdx.objects.object",
    "fdtdx.fdtd.initialization",
    "fdtdx.objects.device.device",
    "fdtdx.core.misc",
    "fdtdx.core.jax.ste",
    "fdtdx.core.jax.pytrees",
]
FILES = [
    "src/fdtdx/fdtd/initialization.py",
    "src/fdtdx/objects/device/device.py",
    "src/fdtdx/materials.py",
    "src/fdtdx/core/jax/ste.py",
    "src/fdtdx/core/misc.py",
]
FUNCTIONS = [
    "fdtdx.fdtd.initialization.apply_params",
    "fdtdx.fdtd.initialization._invert_property",
    "fdtdx.core.misc.expand_matrix",
    "fdtdx.objects.device.device.Device.__call__",
    "fdtdx.objects.device.device.Device._resample_design_params_to_sim_grid (grid-count voxels)",
    "fdtdx.fdtd.initialization._init_arrays (etch backup clause)",
]
INLINED = [
    "fdtdx.materials.compute_allowed_permittivities",
    "fdtdx.materials.compute_ordered_material_name_tuples",
    "fdtdx.materials.compute_allowed_dispersive_coefficients (concrete pole data, real numpy)",
    "fdtdx.core.jax.ste.straight_through_estimator",
    "fdtdx.objects.device.device.Device.output_type",
    "fdtdx.objects.object.SimulationObject.check_overlap / grid_slice / grid_shape",
]
STUBS = [
    "Device.__call__ in the apply_params tasks: the parameter transform chain is abstracted as 'yields rho' (arbitrary array of the device's grid shape; in [0,1] for continuous output, an integer material index in [0,M) for discrete output). Its call-site precondition (params[device.name], expand_to_sim_grid=True) is an obligation. The pipeline/* tasks run the real __call__ (identity chain) + real expand_matrix inside the real apply_params instead.",
    "create_named_sharded_matrix / sharding_preserving_set / sharding_preserving_add in the init_backup tasks: device sharding is not modelled; replaced by full(shape, value) / .at[idx].set / .at[idx].add",
    "check_specs in the call/chain task (shape bookkeeping of abstract transforms)",
]
ASSUMPTIONS = [
    "device boxes are well-formed and inside the volume: 0 <= lo < hi <= N on every axis; devices may overlap arbitrarily",
    "device materials have pairwise distinct xx-permittivity (the library's documented ordering key); 1/3-component materials and background cells are positive",
    "9-component tier: every tensor that is inverted (material, blend, background) is nonsingular; x/det is a total function in the solver, so the equalities are meaningful exactly under this assumption",
    "discrete output: the chain yields exact integer indices in [0, M) (out-of-range indices are clamped/wrapped by JAX gather and are outside the property)",
    "dispersive coefficient tables use concrete example pole data (the per-pole coefficient formula is a different property); the material -> table-row association, zero padding and the per-cell selection are what is proved",
    "straight-through estimator: x - x + y == y (real arithmetic)",
    "physical-unit design voxels on non-uniform grids (overlap-weight resampling) raise NotImplementedError at placement and are not covered",
    "an exception raised by the repository code on a feasible path of a valid input counts as a refuted obligation (no-exception-on-valid-input)",
    "solver budget: after 75 s spent on non-discharged obligations of one task its remaining obligations are skipped and ONE obligation with status unknown is recorded (the task is then never reported as held)",
    "configuration classes: quick = every tier x kind for one device, 16 ordered device pairs (7 per tier 1/3, 2 for tier 9), 12 dispersive classes; thorough = all 16 ordered pairs per tier + two 3-device scenes",
]
MIN_OBLIGATIONS = {"quick": 3500, "thorough": 22000}
LEVEL_TEXT = "Deductive proof, for all grid shapes, device boxes (incl. overlapping devices), material values, background values and parameter values, of the cell-wise postcondition, frame and history-independence of the real apply_params for every enumerated configuration class (component tier 1/3/9 x device kind continuous/etched/discrete/binary x device pairs), of the voxel expansion out[i]=in[i//g] for symbolic counts, and of the etch-backup clause of the real _init_arrays"
LEVEL_NOTE = "real arithmetic (no rounding); transform chain abstracted as 'yields rho'; device sharding not modelled; dispersive pole data concrete examples; configuration classes enumerated (listed in coverage.task_keys)"

TIERS = (1, 3, 9)
MATKIND_OF_TIER = {1: "iso", 3: "diag", 9: "full"}
DIAG = (0, 4, 8)


# ---------------------------------------------------------------------------------------
# specification helpers (written from the property text / the documentation, not from the code)
# ---------------------------------------------------------------------------------------


def _comps(tier, m9):
    """the components of a 9-tuple material property stored by a `tier`-component array"""
    if tier == 1:
        return [m9[0]]
    if tier == 3:
        return [m9[0], m9[4], m9[8]]
    return list(m9)


def _inv(vals):
    """reciprocal per component (1/3) or inverse of the row-major 3x3 tensor (9)"""
    if len(vals) in (1, 3):
        return [1 / v for v in vals]
    m = A.asarray([[vals[3 * r + c] for c in range(3)] for r in range(3)])
    mi = A.linalg_inv(m)
    return [mi.at_index((r, c)) for r in range(3) for c in range(3)]


def _ordered(mats9):
    """documented order: ascending permittivity (xx component).  Python-level sort on SymNums: the
    scene assumes a strict order, so every comparison is decided."""
    return sorted(mats9, key=lambda m: m[0])


class DevSpec:
    """what the specification needs to know about one device"""

    def __init__(self, name, kind, box, mats9, rho):
        self.name, self.kind, self.box, self.mats9, self.rho = name, kind, box, mats9, rho

    def inside(self, cell):
        r = True
        for a in range(3):
            r = A._vand(r, A._vand(cell[a] >= self.box[a][0], cell[a] < self.box[a][1]))
        return r

    def rho_at(self, rho, cell):
        return rho.at_index(tuple(A._raw_index(cell[a] - self.box[a][0]) for a in range(3)))

    def value(self, tier, rho, cell, before):
        """new inverse-permittivity components at a cell of this device; `before` = components there
        before this device was applied"""
        r = self.rho_at(rho, cell)
        om = _ordered(self.mats9)
        if self.kind == "continuous":
            e0, e1 = _comps(tier, om[0]), _comps(tier, om[1])
            return _inv([a + r * (b - a) for a, b in zip(e0, e1)])
        if self.kind == "etched":
            p = _inv(before)
            e = _comps(tier, om[0])
            return _inv([a + r * (b - a) for a, b in zip(p, e)])
        # discrete / binary: exactly the inverse permittivity of material m = rho
        res = None
        for m in reversed(range(len(om))):
            v = _inv(_comps(tier, om[m]))
            res = v if res is None else [ite(A.v_eq(r, m), x, y) for x, y in zip(v, res)]
        return res


def _fold(tier, shape, base, devs, rhos):
    """the documented semantics of one apply_params call as an array"""

    def fn(idx):
        comp = idx[0]
        cell = tuple(A._wrap_idx(i) for i in idx[1:])
        raw = tuple(idx[1:])
        cur = [base.at_index((k, *raw)) for k in range(tier)]
        for d in devs:
            new = d.value(tier, rhos[d.name], cell, cur)
            ins = d.inside(cell)
            cur = [ite(ins, n, c) for n, c in zip(new, cur)]
        return cur[comp]

    return SymArray((tier, *shape), fn, "real")


def _inside_any(devs, cell):
    r = False
    for d in devs:
        r = A._vor(r, d.inside(cell))
    return r


# ---------------------------------------------------------------------------------------
# scene construction
# ---------------------------------------------------------------------------------------


class Latent:
    """the latent parameters of one device: opaque to apply_params; the (abstracted) transform chain
    maps them to `rho`"""

    def __init__(self, rho):
        self.rho = rho


class ChainStub:
    """stands for an initialised transform chain: only its output type is read by Device.output_type"""

    def __init__(self, out_type, as_dict=True):
        self._output_type = {"params": out_type} if as_dict else out_type


def _sym_mat9(prefix, mkind):
    if mkind == "iso":
        e = sym_real(prefix, lo_strict=0)
        return (e, 0.0, 0.0, 0.0, e, 0.0, 0.0, 0.0, e)
    if mkind == "diag":
        ex, ey, ez = (sym_real(f"{prefix}_{a}", lo_strict=0) for a in "xyz")
        return (ex, 0.0, 0.0, 0.0, ey, 0.0, 0.0, 0.0, ez)
    return tuple(sym_real(f"{prefix}_{k}") for k in range(9))


N_MATS = {"continuous": 2, "etched": 1, "discrete": 3, "binary": 2}


def _sym_box(nm, shape, inp):
    box = []
    for ax in range(3):
        lo = sym_int(f"{nm}{ax}lo", lo=0)
        hi = sym_int(f"{nm}{ax}hi")
        ctx().assume((lo < hi).z)
        ctx().assume((hi <= shape[ax]).z)
        inp.scalar(f"{nm}{ax}lo", lo)
        inp.scalar(f"{nm}{ax}hi", hi)
        box.append((lo, hi))
    return tuple(box)


def _mat_key(dev_name, k, n):
    """dict key of the k-th material (ascending permittivity): alphabetically DESCENDING in k"""
    return f"{dev_name}_{'zyxwvu'[k] if n <= 6 else n - 1 - k}_material"


def _make_device(name, kind, box, mats9, cfg, chain_as_dict=True):
    import fdtdx
    from fdtdx.objects.device.device import Device
    from fdtdx.typing import ParameterType

    # materials are handed over in DESCENDING permittivity order, both by insertion and by key name
    # (pytree flattening sorts dict keys), so that the library's own ordering is exercised
    mats = {_mat_key(name, k, len(mats9)): fdtdx.Material(permittivity=m) for k, m in reversed(list(enumerate(mats9)))}
    if kind in ("continuous", "etched"):
        chain = [] if chain_as_dict else [ChainStub(ParameterType.CONTINUOUS, as_dict=False)]
    elif kind == "binary":
        chain = [ChainStub(ParameterType.BINARY, chain_as_dict)]
    else:
        chain = [ChainStub(ParameterType.DISCRETE, chain_as_dict)]
    dev = Device(name=name, materials=mats, param_transforms=chain, partial_voxel_grid_shape=(1, 1, 1), use_etching=(kind == "etched"))
    return scene._place(dev, box, cfg)


def _sym_rho(name, kind, dshape, n_mats, inp):
    if kind in ("continuous", "etched"):
        rho = A.fresh_array(name, dshape, fact=lambda v, idx: A._vand(v >= 0, v <= 1))
        inp.array(name, rho, default=0.5)
        return rho
    k = A.fresh_array(name, dshape, "int", fact=lambda v, idx: A._vand(v >= 0, v <= n_mats - 1))
    inp.array(name, k, default=0)
    return k.astype("real")  # the chain hands over a float array holding integer indices


def _build(c, inp, tier, dev_kinds, mat_kind=None, n_param_sets=1, chain_as_dict=True, cfg=None, concrete_mats=None, disp_shape=None):
    """-> dict with real containers + the specification view of the scene"""
    from fdtdx.fdtd.container import ArrayContainer, FieldState, ObjectContainer

    mat_kind = mat_kind or MATKIND_OF_TIER[tier]
    shape = scene.sym_shape()
    for n, v in zip("xyz", shape):
        inp.scalar(f"N{n}", v)
    cfg = cfg or scene.make_config()
    devs, real_devs = [], []
    for k, kind in enumerate(dev_kinds):
        name = f"dev{k}"
        box = _sym_box(name, shape, inp)
        if concrete_mats is not None:
            mats9 = [m.permittivity for m in concrete_mats[k]]
        else:
            mats9 = [_sym_mat9(f"{name}_e{j}", mat_kind) for j in range(N_MATS[kind])]
            for a, b in zip(mats9, mats9[1:]):
                c.assume((a[0] < b[0]).z)
            for j, m in enumerate(mats9):
                for q, v in enumerate(m):
                    if isinstance(v, SymNum):
                        inp.scalar(f"{name}_mat{j}_{q}", v)
        d = DevSpec(name, kind, box, mats9, None)
        devs.append(d)
        if concrete_mats is not None:
            import fdtdx
            from fdtdx.objects.device.device import Device
            from fdtdx.typing import ParameterType

            ms = {_mat_key(name, j, len(concrete_mats[k])): m for j, m in reversed(list(enumerate(concrete_mats[k])))}
            chain = [] if kind in ("continuous", "etched") else [ChainStub(ParameterType.BINARY if kind == "binary" else ParameterType.DISCRETE)]
            rd = scene._place(Device(name=name, materials=ms, param_transforms=chain, partial_voxel_grid_shape=(1, 1, 1), use_etching=(kind == "etched")), box, cfg)
        else:
            rd = _make_device(name, kind, box, mats9, cfg, chain_as_dict)
        real_devs.append(rd)
    vol = scene.real_volume(shape, cfg)
    objs = ObjectContainer(object_list=[vol, *real_devs], volume_idx=0)
    pos = (lambda v, idx: v > 0) if tier in (1, 3) else None
    any_etch = any(k == "etched" for k in dev_kinds)
    x_free = A.fresh_array("inv_eps", (tier, *shape), fact=pos)
    inp.array("inv_eps", x_free, default=1.0)
    if any_etch:
        i0 = A.fresh_array("initial_inv_eps", (tier, *shape), fact=pos)
        inp.array("initial_inv_eps", i0, default=1.0)

        # invariant: outside every device box the working array equals the backup
        def xfn(idx):
            cell = tuple(A._wrap_idx(i) for i in idx[1:])
            return ite(_inside_any(devs, cell), x_free.at_index(idx), i0.at_index(idx))

        inv_eps = SymArray((tier, *shape), xfn, "real")
    else:
        i0 = None
        inv_eps = x_free
    kw = {}
    disp = None
    if disp_shape is not None:
        n_poles, n_c, n_cc, with_c4 = disp_shape
        disp = {
            "dispersive_c1": A.fresh_array("c1", (n_poles, n_c, *shape)),
            "dispersive_c2": A.fresh_array("c2", (n_poles, n_c, *shape)),
            "dispersive_c3": A.fresh_array("c3", (n_poles, n_cc, *shape)),
        }
        if with_c4:
            disp["dispersive_c4"] = A.fresh_array("c4", (n_poles, n_cc, *shape))
        kw.update(disp)
    arrays = ArrayContainer(
        fields=FieldState(E=A.zeros((3, *shape)), H=A.zeros((3, *shape)), psi_E={}, psi_H={}),
        inv_permittivities=inv_eps,
        inv_permeabilities=1.0,
        detector_states={},
        recording_state=None,
        initial_inv_permittivities=i0,
        **kw,
    )
    param_sets = []
    for s in range(n_param_sets):
        rhos, P = {}, {}
        for d in devs:
            dshape = tuple(hi - lo for lo, hi in d.box)
            rhos[d.name] = _sym_rho(f"rho{s}_{d.name}", d.kind, dshape, len(d.mats9), inp)
            P[d.name] = Latent(rhos[d.name])
        param_sets.append((P, rhos))
    return {"shape": shape, "cfg": cfg, "devs": devs, "objs": objs, "arrays": arrays, "inv_eps": inv_eps, "i0": i0, "param_sets": param_sets, "tier": tier, "disp": disp}


def _run_apply(c, arrays, objs, P, tag):
    """the REAL apply_params with Device.__call__ replaced by the chain abstraction"""
    import jax

    import fdtdx.fdtd.initialization as I
    from fdtdx.objects.device.device import Device

    calls = []

    def stub(self, params, expand_to_sim_grid=False, **kw):
        calls.append(self.name)
        c.prove(f"{tag}call-site:params[{self.name}]", isinstance(params, Latent) and params is P[self.name])
        c.prove(f"{tag}call-site:expand_to_sim_grid[{self.name}]", expand_to_sim_grid is True)
        return params.rho

    orig = Device.__call__
    Device.__call__ = stub
    try:
        new_arrays, new_objs, info = I.apply_params(arrays, objs, P, key=jax.random.PRNGKey(0))
    finally:
        Device.__call__ = orig
    c.prove(f"{tag}call-site:every-device-once", sorted(calls) == sorted(P.keys()))
    return new_arrays


def _prove_same(c, name, got, want):
    """got is the very same array value as want (identity short-cut, else element-wise)"""
    if got is want:
        c.prove(name, True)
    elif got is None or want is None:
        c.prove(name, False)
    else:
        prove_arrays_equal(name, got, want)


def _note(inp, **kw):
    inp.note("spec", {k: (v if isinstance(v, (int, str, bool, type(None))) else list(v) if isinstance(v, (list, tuple)) and all(isinstance(x, (int, str, bool)) for x in v) else str(v)) for k, v in kw.items()})


# ---------------------------------------------------------------------------------------
# task bodies
# ---------------------------------------------------------------------------------------


def _cell_task(tier, kind, mat_kind=None, chain_as_dict=True):
    """one device: value, range, frame, backup"""

    def body(c, inp):
        _note(inp, task="cell", tier=tier, kinds=[kind], mat_kind=mat_kind or MATKIND_OF_TIER[tier])
        S = _build(c, inp, tier, [kind], mat_kind=mat_kind, chain_as_dict=chain_as_dict)
        c.cover("pre")
        P, rhos = S["param_sets"][0]
        out_arrays = _run_apply(c, S["arrays"], S["objs"], P, "")
        out = out_arrays.inv_permittivities
        d = S["devs"][0]
        base = S["i0"] if S["i0"] is not None else S["inv_eps"]
        spec = _fold(tier, S["shape"], base, S["devs"], rhos)
        ins = lambda idx: d.inside(idx[1:])  # noqa: E731
        rho = rhos[d.name]
        if kind in ("discrete", "binary"):
            for m in range(len(d.mats9)):
                exact = _inv(_comps(tier, _ordered(d.mats9)[m]))
                exact_arr = SymArray((tier, *S["shape"]), lambda idx, exact=exact: exact[idx[0]], "real")
                prove_arrays_equal(f"value:device-cell-with-index-{m}-gets-exactly-inv-eps-of-material-{m}", out, exact_arr, where=lambda idx, m=m: A._vand(ins(idx), A.v_eq(d.rho_at(rho, idx[1:]), m)))
        else:
            prove_arrays_equal("value:device-cell-gets-inverse-of-linear-blend", out, spec, where=ins)
            if tier in (1, 3):
                om = _ordered(d.mats9)

                def in_range(v, idx):
                    comp = idx[0]
                    if kind == "continuous":
                        a, b = 1 / _comps(tier, om[0])[comp], 1 / _comps(tier, om[1])[comp]
                    else:
                        a, b = base.at_index(tuple(A._raw_index(i) for i in idx)), 1 / _comps(tier, om[0])[comp]
                    return A._vor(A._vand(a <= v, v <= b), A._vand(b <= v, v <= a))

                prove_pointwise("range:value-between-the-end-point-inverses", out, in_range, where=ins)
        prove_arrays_equal("frame:cells-outside-the-device-unchanged", out, S["inv_eps"], where=lambda idx: A._vnot(ins(idx)))
        prove_arrays_equal("post:whole-array-equals-documented-fold", out, spec)
        if S["i0"] is not None:
            _prove_same(c, "frame:etch-backup-untouched", out_arrays.initial_inv_permittivities, S["i0"])
            prove_arrays_equal("inv:outside-devices-equals-backup", out, S["i0"], where=lambda idx: A._vnot(ins(idx)))
        else:
            c.prove("frame:no-backup-created", out_arrays.initial_inv_permittivities is None)

    return body


def _history_task(tier, kinds, mat_kind=None):
    """apply(p1) then apply(p2) == apply(p2); post for the (possibly overlapping) device list"""

    def body(c, inp):
        _note(inp, task="history", tier=tier, kinds=list(kinds), mat_kind=mat_kind or MATKIND_OF_TIER[tier])
        S = _build(c, inp, tier, list(kinds), mat_kind=mat_kind, n_param_sets=2)
        c.cover("pre")
        (P1, rhos1), (P2, rhos2) = S["param_sets"]
        a1 = _run_apply(c, S["arrays"], S["objs"], P1, "p1:")
        a12 = _run_apply(c, a1, S["objs"], P2, "p1p2:")
        a2 = _run_apply(c, S["arrays"], S["objs"], P2, "p2:")
        prove_arrays_equal("history:apply(p2)_after_apply(p1)==apply(p2)", a12.inv_permittivities, a2.inv_permittivities)
        base = S["i0"] if S["i0"] is not None else S["inv_eps"]
        spec2 = _fold(tier, S["shape"], base, S["devs"], rhos2)
        prove_arrays_equal("post:after-history-equals-documented-fold-of-last-set", a12.inv_permittivities, spec2)
        out_any = lambda idx: A._vnot(_inside_any(S["devs"], idx[1:]))  # noqa: E731
        prove_arrays_equal("frame:cells-outside-all-devices-unchanged-after-history", a12.inv_permittivities, S["inv_eps"], where=out_any)
        if len(S["devs"]) > 1:
            last = S["devs"][-1]
            if last.kind != "etched":
                alone = _fold(tier, S["shape"], base, [last], rhos2)
                prove_arrays_equal("overlap:last-device-in-list-order-wins", a12.inv_permittivities, alone, where=lambda idx: last.inside(idx[1:]))
        if S["i0"] is not None:
            _prove_same(c, "frame:etch-backup-untouched(p1)", a1.initial_inv_permittivities, S["i0"])
            _prove_same(c, "frame:etch-backup-untouched(p1;p2)", a12.initial_inv_permittivities, S["i0"])

    return body


# -- dispersive coefficient stacks --------------------------------------------------------


def _disp_materials(variant):
    """concrete example device materials (ascending xx permittivity; powers of two so that the
    reciprocals are exact in binary floating point and the check's exact arithmetic agrees)"""
    import fdtdx
    from fdtdx.dispersion import CCPRPole, DispersionModel, DrudePole, LorentzPole

    lor = LorentzPole(resonance_frequency=2.0e15, damping=1.0e14, delta_epsilon=1.5)
    lor2 = LorentzPole(resonance_frequency=3.5e15, damping=3.0e13, delta_epsilon=0.75)
    dru = DrudePole(plasma_frequency=1.2e16, damping=9.0e13)
    if variant == "iso":
        return [
            fdtdx.Material(permittivity=2.0, dispersion=DispersionModel(poles=(lor,))),
            fdtdx.Material(permittivity=4.0),
            fdtdx.Material(permittivity=8.0, dispersion=DispersionModel(poles=(dru, lor2))),
        ]
    if variant == "axes":
        lax = LorentzPole(resonance_frequency=(2.0e15, 2.5e15, 3.0e15), damping=(1.0e14, 2.0e14, 0.5e14), delta_epsilon=(1.5, 0.0, 0.5))
        return [
            fdtdx.Material(permittivity=(2.0, 4.0, 8.0), dispersion=DispersionModel(poles=(lax, dru))),
            fdtdx.Material(permittivity=(4.0, 8.0, 16.0)),
            fdtdx.Material(permittivity=(8.0, 2.0, 4.0), dispersion=DispersionModel(poles=(lor2,))),
        ]
    if variant == "ccpr":
        cc = CCPRPole(pole=complex(-2.0e14, 3.0e15), residue=complex(1.0e14, -2.0e15))
        return [
            fdtdx.Material(permittivity=1.0, dispersion=DispersionModel(poles=(cc, lor))),
            fdtdx.Material(permittivity=2.0, dispersion=DispersionModel(poles=(dru,))),
            fdtdx.Material(permittivity=4.0),
        ]
    raise ValueError(variant)


def _coef_rows(mats_sorted, dt, n_poles, n_c, n_cc):
    """oracle: coefficient stack of each material = its own poles' coefficients, zero padded"""
    import numpy as np

    from fdtdx.dispersion import compute_pole_coefficients_tensor

    rows = []
    for m in mats_sorted:
        c = [np.zeros((n_poles, n_c)), np.zeros((n_poles, n_c)), np.zeros((n_poles, n_cc)), np.zeros((n_poles, n_cc))]
        if m.dispersion is not None and len(m.dispersion.poles):
            v = compute_pole_coefficients_tensor(m.dispersion.poles, dt)
            n = len(m.dispersion.poles)
            c[0][:n] = v[0][:, :n_c]
            c[1][:n] = v[1][:, :n_c]
            c[2][:n] = v[2] if n_cc == 9 else v[2][:, list(DIAG[:n_cc])]
            c[3][:n] = v[3] if n_cc == 9 else v[3][:, list(DIAG[:n_cc])]
        rows.append(c)
    return rows


DISP_CFG = {"iso": (1, 2, 1, 1, False), "axes": (3, 2, 3, 3, False), "axes9": (3, 2, 3, 9, False), "ccpr": (1, 2, 1, 1, True)}  # tier, poles, C, C_coupling, c4


def _dispersive_task(variant, n_mats, kind):
    def body(c, inp):
        tier, n_poles, n_c, n_cc, with_c4 = DISP_CFG[variant]
        _note(inp, task="dispersive", variant=variant, n_mats=n_mats, kinds=[kind], tier=tier)
        mats = _disp_materials("axes" if variant == "axes9" else variant)[:n_mats] if kind != "continuous" else _disp_materials("axes" if variant == "axes9" else variant)[:2]
        cfg = scene.make_config(courant=0.5, spacing=2.0e-8)
        dt = cfg.time_step_duration
        c.prove("setup:concrete-time-step", isinstance(dt, float) and dt > 0)
        S = _build(c, inp, tier, [kind], n_param_sets=2, cfg=cfg, concrete_mats=[mats], disp_shape=(n_poles, n_c, n_cc, with_c4))
        c.cover("pre")
        (P1, rhos1), (P2, rhos2) = S["param_sets"]
        a1 = _run_apply(c, S["arrays"], S["objs"], P1, "p1:")
        a12 = _run_apply(c, a1, S["objs"], P2, "p1p2:")
        a2 = _run_apply(c, S["arrays"], S["objs"], P2, "p2:")
        d = S["devs"][0]
        names = ["dispersive_c1", "dispersive_c2", "dispersive_c3"] + (["dispersive_c4"] if with_c4 else [])
        ms = sorted(mats, key=lambda m: m.permittivity[0])
        rows = _coef_rows(ms, dt, n_poles, n_c, n_cc)
        for ai, nm in enumerate(names):
            k = int(nm[-1]) - 1
            got1, got12, got2, before = getattr(a1, nm), getattr(a12, nm), getattr(a2, nm), S["disp"][nm]
            ins = lambda idx: d.inside(idx[2:])  # noqa: E731
            if kind in ("discrete", "binary"):
                for m in range(len(ms)):
                    tab = A.asarray(rows[m][k])
                    exact = SymArray(before.shape, lambda idx, tab=tab: tab.at_index(idx[:2]), "real")
                    prove_arrays_equal(f"value:{nm}:cell-with-index-{m}-gets-coefficient-stack-of-material-{m}", got1, exact, where=lambda idx, m=m: A._vand(ins(idx), A.v_eq(d.rho_at(rhos1[d.name], idx[2:]), m)))
            prove_arrays_equal(f"frame:{nm}:cells-outside-the-device-unchanged", got1, before, where=lambda idx: A._vnot(ins(idx)))
            prove_arrays_equal(f"history:{nm}:apply(p2)_after_apply(p1)==apply(p2)", got12, got2)
        # the permittivity of the same cell comes from the SAME material m
        out = a1.inv_permittivities
        if kind in ("discrete", "binary"):
            for m in range(len(ms)):
                exact = _inv(_comps(tier, ms[m].permittivity))
                exact_arr = SymArray((tier, *S["shape"]), lambda idx, exact=exact: exact[idx[0]], "real")
                prove_arrays_equal(f"value:inv_permittivities:cell-with-index-{m}-gets-exactly-inv-eps-of-material-{m}", out, exact_arr, where=lambda idx, m=m: A._vand(d.inside(idx[1:]), A.v_eq(d.rho_at(rhos1[d.name], idx[1:]), m)))
        prove_arrays_equal("history:inv_permittivities", a12.inv_permittivities, a2.inv_permittivities)
        if not with_c4:
            c.prove("frame:no-c4-created", a12.dispersive_c4 is None)

    return body


# -- voxel expansion and Device.__call__ ----------------------------------------------------


def _expand_task(ndim):
    def body(c, inp):
        import fdtdx.core.misc as M

        _note(inp, task="expand", ndim=ndim)
        m = [sym_int(f"m{a}", lo=1) for a in range(ndim)]
        g = [sym_int(f"g{a}", lo=1) for a in range(3)]
        for a, v in enumerate(m):
            inp.scalar(f"m{a}", v)
        for a, v in enumerate(g):
            inp.scalar(f"g{a}", v)
        x = A.fresh_array("design", tuple(m))
        inp.array("design", x)
        c.cover("pre")
        out = M.expand_matrix(x, tuple(g))
        c.prove("expand/post:rank-3", out.ndim == 3)
        mm = m + [1] * (3 - ndim)

        def fn(idx):
            src = tuple(A._raw_index(A._wrap_idx(idx[a]) // g[a]) for a in range(3))
            return x.at_index(src[:ndim])

        spec = SymArray(tuple(mm[a] * g[a] for a in range(3)), fn, "real")
        prove_arrays_equal("expand/post:out[i,j,k]==in[i//g0,j//g1,k//g2]", out, spec)

    return body


def _expand_index_task(c, inp):
    """well-definedness of the expansion spec: the source voxel index is in range"""
    _note(inp, task="expand_index")
    m = sym_int("m", lo=1)
    g = sym_int("g", lo=1)
    i = sym_int("i", lo=0)
    inp.scalar("m", m)
    inp.scalar("g", g)
    inp.scalar("i", i)
    c.assume((i < m * g).z)
    c.cover("pre")
    q = i // g
    c.prove("expand/index-in-range:0<=i//g", q >= 0)
    c.prove("expand/index-in-range:i//g<m", q < m)
    c.prove("expand/voxel-block:g*(i//g)<=i<g*(i//g)+g", A._vand(g * q <= i, i < g * q + g))


def _call_task(mode):
    """the REAL Device.__call__: 'identity' = empty chain; 'chain' = two abstract transforms"""

    def body(c, inp):
        import fdtdx
        from fdtdx.objects.device.device import Device

        _note(inp, task="call", mode=mode)
        m = [sym_int(f"m{a}", lo=1) for a in range(3)]
        g = [sym_int(f"g{a}", lo=1) for a in range(3)]
        lo = [sym_int(f"lo{a}", lo=0) for a in range(3)]
        for a in range(3):
            inp.scalar(f"m{a}", m[a])
            inp.scalar(f"g{a}", g[a])
        cfg = scene.make_config()
        mats = {"a": fdtdx.Material(permittivity=2.0), "b": fdtdx.Material(permittivity=5.0)}
        x = A.fresh_array("design", tuple(m))
        inp.array("design", x)

        seen = []

        class T:
            def __init__(self, tag):
                self.tag = tag
                self._input_shape = {"params": tuple(m)}
                self._output_shape = {"params": tuple(m)}

            def __call__(self, params, **kw):
                seen.append((self.tag, kw))
                return {"params": params["params"]._map(lambda v: apply_uf(self.tag, v), "real")}

        chain = [] if mode == "identity" else [T("f"), T("g")]
        dev = Device(name="dev", materials=mats, param_transforms=chain, partial_voxel_grid_shape=(1, 1, 1))
        dev = scene._place(dev, tuple((lo[a], lo[a] + m[a] * g[a]) for a in range(3)), cfg)
        dev = dev.aset("_single_voxel_grid_shape", tuple(g))
        c.cover("pre")

        def expanded(arr):
            return SymArray(tuple(m[a] * g[a] for a in range(3)), lambda idx: arr.at_index(tuple(A._raw_index(A._wrap_idx(idx[a]) // g[a]) for a in range(3))), "real")

        if mode == "identity":
            want = x
        else:
            want = x._map(lambda v: apply_uf("g", apply_uf("f", v)), "real")
        for label, arg in (("array", x), ("dict", {"params": x})):
            got = dev(arg, expand_to_sim_grid=True, beta=3.0) if mode == "chain" else dev(arg, expand_to_sim_grid=True)
            prove_arrays_equal(f"call/post[{label}]:expanded==expand(chain(params))", got, expanded(want))
            got0 = dev(arg, beta=3.0) if mode == "chain" else dev(arg)
            prove_arrays_equal(f"call/post[{label}]:unexpanded==chain(params)", got0, want)
        if mode == "chain":
            c.prove("call/post:every-transform-called-in-order-with-transform_kwargs", seen == [("f", {"beta": 3.0}), ("g", {"beta": 3.0})] * 4)

    return body


def _pipeline_task(tier, kind, g):
    """real apply_params + REAL Device.__call__ (identity chain) + real expand_matrix: the cell
    (i,j,k) of the device gets the material of design voxel (i//g0, j//g1, k//g2)"""

    def body(c, inp):
        import jax

        import fdtdx.fdtd.initialization as I
        from fdtdx.fdtd.container import ArrayContainer, FieldState, ObjectContainer

        _note(inp, task="pipeline", tier=tier, kinds=[kind], g=list(g))
        shape = scene.sym_shape()
        for n, v in zip("xyz", shape):
            inp.scalar(f"N{n}", v)
        cfg = scene.make_config()
        m = [sym_int(f"m{a}", lo=1) for a in range(3)]
        box = []
        for a in range(3):
            lo = sym_int(f"dev0{a}lo", lo=0)
            hi = lo + m[a] * g[a]
            c.assume((hi <= shape[a]).z)
            inp.scalar(f"dev0{a}lo", lo)
            inp.scalar(f"dev0{a}hi", hi)
            inp.scalar(f"m{a}", m[a])
            box.append((lo, hi))
        mats9 = [_sym_mat9(f"e{j}", MATKIND_OF_TIER[tier]) for j in range(N_MATS[kind])]
        for a_, b_ in zip(mats9, mats9[1:]):
            c.assume((a_[0] < b_[0]).z)
        for j, mm in enumerate(mats9):
            for q, v in enumerate(mm):
                if isinstance(v, SymNum):
                    inp.scalar(f"dev0_mat{j}_{q}", v)
        dev = _make_device("dev0", kind, tuple(box), mats9, cfg, chain_as_dict=True)
        if kind != "continuous":
            raise ValueError("identity chain is continuous")
        dev = dev.aset("_single_voxel_grid_shape", tuple(g))
        vol = scene.real_volume(shape, cfg)
        objs = ObjectContainer(object_list=[vol, dev], volume_idx=0)
        pos = (lambda v, idx: v > 0) if tier in (1, 3) else None
        inv_eps = A.fresh_array("inv_eps", (tier, *shape), fact=pos)
        inp.array("inv_eps", inv_eps, default=1.0)
        arrays = ArrayContainer(fields=FieldState(E=A.zeros((3, *shape)), H=A.zeros((3, *shape)), psi_E={}, psi_H={}), inv_permittivities=inv_eps, inv_permeabilities=1.0, detector_states={}, recording_state=None)
        design = A.fresh_array("design", tuple(m), fact=lambda v, idx: A._vand(v >= 0, v <= 1))
        inp.array("design", design, default=0.5)
        c.cover("pre")
        out = I.apply_params(arrays, objs, {"dev0": design}, key=jax.random.PRNGKey(0))[0].inv_permittivities
        dshape = tuple(m[a] * g[a] for a in range(3))
        rho = SymArray(dshape, lambda idx: design.at_index(tuple(A._raw_index(A._wrap_idx(idx[a]) // g[a]) for a in range(3))), "real")
        d = DevSpec("dev0", kind, tuple(box), mats9, None)
        spec = _fold(tier, shape, inv_eps, [d], {"dev0": rho})
        prove_arrays_equal("pipeline/post:cell(i,j,k)-gets-blend-of-design-voxel(i//g)", out, spec)

    return body


# -- _init_arrays: the etch backup exists whenever a device etches -----------------------------


def _init_backup_task(tier, dev_kinds):
    def body(c, inp):
        import fdtdx
        import fdtdx.fdtd.initialization as I
        from fdtdx.fdtd.container import ObjectContainer
        from fdtdx.objects.device.device import Device
        from fdtdx.objects.static_material.static import UniformMaterialObject
        from fdtdx.typing import ParameterType

        _note(inp, task="init_backup", tier=tier, kinds=list(dev_kinds))
        shape = scene.sym_shape()
        for n, v in zip("xyz", shape):
            inp.scalar(f"N{n}", v)
        cfg = scene.make_config(nonuniform_shape=shape)
        slab_eps = {1: 2.5, 3: (2.0, 2.5, 3.0), 9: ((2.0, 0.1, 0.0), (0.1, 2.5, 0.2), (0.0, 0.2, 3.0))}[tier]
        vol = scene.real_volume(shape, cfg)
        slab_box = _sym_box("slab", shape, inp)
        slab = scene._place(UniformMaterialObject(name="slab", material=fdtdx.Material(permittivity=slab_eps), partial_grid_shape=(None, None, None)), slab_box, cfg)
        devs = []
        for k, kind in enumerate(dev_kinds):
            box = _sym_box(f"dev{k}", shape, inp)
            nm = N_MATS[kind]
            mats = {f"m{j}": fdtdx.Material(permittivity=1.0 + 1.5 * j) for j in range(nm)}
            chain = [] if kind in ("continuous", "etched") else [ChainStub(ParameterType.DISCRETE)]
            devs.append(scene._place(Device(name=f"dev{k}", materials=mats, param_transforms=chain, partial_voxel_grid_shape=(1, 1, 1), use_etching=(kind == "etched")), box, cfg))
        objs = ObjectContainer(object_list=[vol, slab, *devs], volume_idx=0)
        c.cover("pre")
        arrays, cfg2, info = I._init_arrays(objs, cfg)
        c.prove("init/post:tier", arrays.inv_permittivities.shape[0] == tier)
        if any(k == "etched" for k in dev_kinds):
            c.prove("init/post:etching=>backup-exists", arrays.initial_inv_permittivities is not None)
            if arrays.initial_inv_permittivities is not None:
                prove_arrays_equal("init/post:backup==inv_permittivities", arrays.initial_inv_permittivities, arrays.inv_permittivities)
        else:
            c.prove("init/post:no-etching=>no-backup", arrays.initial_inv_permittivities is None)

    return body


def _full(shape, value, sharding_axis=None, dtype=None, backend=None):
    return A.full(tuple(shape), value, "real")


INIT_PATCH = {
    "fdtdx.fdtd.initialization": {
        "create_named_sharded_matrix": _full,
        "sharding_preserving_set": lambda arr, index, values: arr.at[index].set(values),
        "sharding_preserving_add": lambda arr, index, values: arr.at[index].add(values),
        "_warn_if_simulation_volume_too_large": lambda shape: None,
    }
}


# ---------------------------------------------------------------------------------------
# solver budget: a wrong obligation in nonlinear arithmetic can cost ~40 s (z3 + cvc5 time-outs).
# When the code no longer satisfies the contract, hundreds of them would make the check run for
# hours.  Once the non-discharged obligations of a task have used up BUDGET_S, the remaining
# obligations of that task are NOT attempted and ONE obligation with status "unknown" is recorded
# instead (=> the task can never be reported as held; refutations found before still count).
# ---------------------------------------------------------------------------------------

BUDGET_S = 75.0


def _budgeted(body):
    import time

    state = {"spent": 0.0, "skipped": 0}

    def wrapped(c, inp):
        from vc.core import Obligation

        orig = c.prove

        def prove(name, goal, *a, **kw):
            if state["spent"] > BUDGET_S:
                if state["skipped"] == 0:
                    c.session.record(Obligation(f"budget-exhausted-after-failed-obligations(first skipped: {name})", "unknown", "none", 0.0, "", detail=f"more than {BUDGET_S:.0f} s spent on obligations that could not be discharged; remaining obligations of this task skipped"))
                state["skipped"] += 1
                return False
            t0 = time.time()
            ok = orig(name, goal, *a, **kw)
            if not ok:
                state["spent"] += time.time() - t0
            return ok

        c.prove = prove
        try:
            body(c, inp)
        finally:
            c.prove = orig

    return wrapped


def _raised(c, e):
    """the contracts promise a result for every valid input: an exception raised by the repository
    code on a feasible path refutes that (Unsupported / engine errors never get here)"""
    c.prove(f"no-exception-on-valid-input(raised {type(e).__name__}: {str(e)[:120]})", False)


def _T(body, **kw):
    kw.setdefault("max_paths", 256)
    kw.setdefault("on_exception", _raised)
    return Task(_budgeted(body), **kw)


# ---------------------------------------------------------------------------------------
# task table
# ---------------------------------------------------------------------------------------

PAIRS_QUICK = [("continuous", "continuous"), ("continuous", "etched"), ("etched", "continuous"), ("discrete", "etched"), ("etched", "discrete"), ("etched", "etched"), ("binary", "continuous")]
ALL_KINDS = ("continuous", "etched", "discrete", "binary")


def tasks(tier, seed):
    out = {}
    for t in TIERS:
        for kind in ALL_KINDS:
            out[f"cell/t{t}/{kind}"] = _T(_cell_task(t, kind))
            out[f"history/t{t}/{kind}"] = _T(_history_task(t, (kind,)))
    # materials of a lower tier stored in a wider array (other objects force the tier)
    out["cell/t3/continuous/iso-materials"] = _T(_cell_task(3, "continuous", mat_kind="iso"))
    out["cell/t9/discrete/diag-materials"] = _T(_cell_task(9, "discrete", mat_kind="diag"))
    out["cell/t1/continuous/plain-output-type"] = _T(_cell_task(1, "continuous", chain_as_dict=False))
    out["cell/t1/discrete/plain-output-type"] = _T(_cell_task(1, "discrete", chain_as_dict=False))
    pairs = list(itertools.product(ALL_KINDS, repeat=2)) if tier == "thorough" else PAIRS_QUICK
    for t in TIERS if tier == "thorough" else (1, 3):
        for p in pairs:
            out[f"history2/t{t}/{p[0]}+{p[1]}"] = _T(_history_task(t, p))
    if tier != "thorough":
        out["history2/t9/continuous+etched"] = _T(_history_task(9, ("continuous", "etched")))
        out["history2/t9/etched+discrete"] = _T(_history_task(9, ("etched", "discrete")))
    else:
        out["history3/t1/etched+continuous+etched"] = _T(_history_task(1, ("etched", "continuous", "etched")), max_paths=2048)
        out["history3/t3/discrete+etched+continuous"] = _T(_history_task(3, ("discrete", "etched", "continuous")), max_paths=2048)
    for variant in DISP_CFG:
        out[f"dispersive/{variant}/discrete3"] = _T(_dispersive_task(variant, 3, "discrete"))
        out[f"dispersive/{variant}/binary"] = _T(_dispersive_task(variant, 2, "binary"))
        out[f"dispersive/{variant}/continuous"] = _T(_dispersive_task(variant, 2, "continuous"))
    out["expand/3d"] = _T(_expand_task(3))
    out["expand/2d"] = _T(_expand_task(2))
    out["expand/index"] = _T(_expand_index_task)
    out["call/identity"] = _T(_call_task("identity"))
    out["call/chain"] = _T(_call_task("chain"), extra_patch={"fdtdx.objects.device.device": {"check_specs": lambda *a, **k: None}})
    for t in TIERS:
        out[f"pipeline/t{t}/g213"] = _T(_pipeline_task(t, "continuous", (2, 1, 3)))
    for t in TIERS:
        for kinds in ((("etched",), ("continuous", "etched"), ("continuous",), ("discrete", "continuous")) if (t == 1 or tier == "thorough") else (("etched",), ("continuous",))):
            out[f"init_backup/t{t}/{'+'.join(kinds)}"] = _T(_init_backup_task(t, kinds), extra_patch=INIT_PATCH, max_paths=4096)
    return out


# ---------------------------------------------------------------------------------------
# replay on the real code under real JAX (independent numpy oracle)
# ---------------------------------------------------------------------------------------


def _np_inv(v):
    """v: (tier, ...) -> reciprocal / matrix inverse, numpy"""
    import numpy as np

    if v.shape[0] in (1, 3):
        return 1.0 / v
    m = np.moveaxis(v, 0, -1).reshape(*v.shape[1:], 3, 3)
    return np.moveaxis(np.linalg.inv(m).reshape(*v.shape[1:], 9), -1, 0)


def _np_fold(tier, base, devs, rhos):
    """devs: list of (kind, box, mats9 sorted ascending xx); numpy version of the documented semantics"""
    import numpy as np

    cur = np.array(base, dtype=np.float64)
    for (kind, box, mats9), rho in zip(devs, rhos):
        sl = (slice(None),) + tuple(slice(lo, hi) for lo, hi in box)
        comp = lambda m: np.array(_comps(tier, m), dtype=np.float64)[:, None, None, None]  # noqa: E731
        if kind == "continuous":
            new = _np_inv(comp(mats9[0]) + rho[None] * (comp(mats9[1]) - comp(mats9[0])))
        elif kind == "etched":
            p = _np_inv(cur[sl])
            new = _np_inv(p + rho[None] * (comp(mats9[0]) - p))
        else:
            inv_m = [_np_inv(comp(m) * np.ones((1, 1, 1, 1)))[:, 0, 0, 0] for m in mats9]
            new = np.moveaxis(np.array(inv_m)[rho.astype(int)], -1, 0)
        cur[sl] = new
    return cur


def _replay_scene(spec, witness, rng, use_witness):
    """one concrete run of the REAL apply_params (real JAX) against the numpy oracle -> (bad, text)"""
    import jax
    import jax.numpy as jnp
    import numpy as np

    import fdtdx
    from fdtdx.config import SimulationConfig
    from fdtdx.core.grid import UniformGrid
    from fdtdx.fdtd.container import ArrayContainer, FieldState, ObjectContainer
    from fdtdx.fdtd.initialization import apply_params
    from fdtdx.objects.device.device import Device
    from fdtdx.typing import ParameterType
    from vc.harness import witness_arrays_to_numpy

    tier = int(spec.get("tier", 1))
    kinds = list(spec.get("kinds", ["continuous"]))
    mat_kind = spec.get("mat_kind", MATKIND_OF_TIER[tier])
    sc = (witness or {}).get("scalars", {}) if use_witness else {}
    wa = witness_arrays_to_numpy(witness or {}) if use_witness else {}

    def geti(name, default):
        v = sc.get(name)
        return int(v) if isinstance(v, (int, float)) and not isinstance(v, bool) else default

    shape = tuple(min(max(geti(f"N{a}", int(rng.integers(2, 6))), 1), 7) for a in "xyz")
    cfg = SimulationConfig(time=1e-15, grid=UniformGrid(spacing=2.0e-8), backend="cpu", dtype=jnp.float64)
    disp = spec.get("task") == "dispersive"
    devs, real_devs = [], []
    for k, kind in enumerate(kinds):
        box = []
        for a in range(3):
            lo, hi = geti(f"dev{k}{a}lo", -1), geti(f"dev{k}{a}hi", -1)
            if not (0 <= lo < hi <= shape[a]):
                lo = int(rng.integers(0, shape[a]))
                hi = int(rng.integers(lo + 1, shape[a] + 1))
            box.append((lo, hi))
        if disp:
            variant = spec["variant"]
            mats = _disp_materials("axes" if variant == "axes9" else variant)
            mats = mats[:2] if kind == "continuous" else mats[: int(spec["n_mats"])]
            mats9 = [tuple(float(x) for x in m.permittivity) for m in mats]
        else:
            mats9 = []
            for j in range(N_MATS[kind]):
                vals = [sc.get(f"dev{k}_mat{j}_{q}") for q in range(9)]
                if mat_kind == "iso":
                    e = vals[0] if isinstance(vals[0], float) and vals[0] > 0 else float(rng.uniform(1, 3)) + 3 * j
                    m9 = (e, 0.0, 0.0, 0.0, e, 0.0, 0.0, 0.0, e)
                elif mat_kind == "diag":
                    d = [vals[q] if isinstance(vals[q], float) and vals[q] > 0 else float(rng.uniform(1, 3)) + 3 * j for q in DIAG]
                    m9 = (d[0], 0.0, 0.0, 0.0, d[1], 0.0, 0.0, 0.0, d[2])
                else:
                    if all(isinstance(v, float) for v in vals) and abs(np.linalg.det(np.array(vals).reshape(3, 3))) > 1e-3:
                        m9 = tuple(vals)
                    else:
                        r = rng.uniform(-0.3, 0.3, size=(3, 3))
                        m9 = tuple((np.eye(3) * (2.0 + 3 * j) + r).reshape(-1).tolist())
                mats9.append(m9)
            mats9.sort(key=lambda m: m[0])
            if any(a[0] >= b[0] for a, b in zip(mats9, mats9[1:])):
                mats9 = [tuple(x + (3.0 * j if q in DIAG else 0.0) for q, x in enumerate(m)) for j, m in enumerate(mats9)]
            mats = [fdtdx.Material(permittivity=m) for m in mats9]
        ms = {_mat_key(f"dev{k}", j, len(mats)): m for j, m in reversed(list(enumerate(mats)))}
        chain = [] if kind in ("continuous", "etched") else [ChainStub(ParameterType.BINARY if kind == "binary" else ParameterType.DISCRETE)]
        rd = scene._place(Device(name=f"dev{k}", materials=ms, param_transforms=chain, partial_voxel_grid_shape=(1, 1, 1), use_etching=(kind == "etched")), tuple(box), cfg)
        real_devs.append(rd)
        devs.append((kind, tuple(box), mats9))
    vol = scene.real_volume(shape, cfg)
    objs = ObjectContainer(object_list=[vol, *real_devs], volume_idx=0)

    def arr(name, shp, lo, hi):
        a = wa.get(name)
        if a is None or a.shape != tuple(shp) or (tier == 9 and name != "inv_eps" and False):
            a = rng.uniform(lo, hi, size=shp)
            if tier == 9 and name in ("inv_eps", "initial_inv_eps"):
                a = a * 0.2
                for q in DIAG:
                    a[q] += 1.0
        return np.asarray(a, dtype=np.float64)

    x = arr("inv_eps", (tier, *shape), 0.2, 1.0)
    any_etch = any(k == "etched" for k in kinds)
    i0 = arr("initial_inv_eps", (tier, *shape), 0.2, 1.0) if any_etch else None
    if any_etch:  # invariant: outside the devices the working array equals the backup
        mask = np.zeros(shape, dtype=bool)
        for _, box, _ in devs:
            mask[tuple(slice(lo, hi) for lo, hi in box)] = True
        x = np.where(mask[None], x, i0)
    kw = {}
    rows = None
    if disp:
        t, n_poles, n_c, n_cc, with_c4 = DISP_CFG[spec["variant"]]
        for nm, cc in (("dispersive_c1", n_c), ("dispersive_c2", n_c), ("dispersive_c3", n_cc)) + ((("dispersive_c4", n_cc),) if with_c4 else ()):
            kw[nm] = jnp.asarray(rng.normal(size=(n_poles, cc, *shape)))
        rows = _coef_rows(sorted(mats, key=lambda m: m.permittivity[0]), cfg.time_step_duration, n_poles, n_c, n_cc)
    arrays = ArrayContainer(
        fields=FieldState(E=jnp.zeros((3, *shape)), H=jnp.zeros((3, *shape)), psi_E={}, psi_H={}),
        inv_permittivities=jnp.asarray(x),
        inv_permeabilities=1.0,
        detector_states={},
        recording_state=None,
        initial_inv_permittivities=None if i0 is None else jnp.asarray(i0),
        **kw,
    )
    sets = []
    for s in range(2):
        rhos = []
        for k, (kind, box, mats9) in enumerate(devs):
            dshape = tuple(hi - lo for lo, hi in box)
            r = wa.get(f"rho{s}_dev{k}")
            if r is None or r.shape != dshape:
                r = rng.uniform(0, 1, size=dshape) if kind in ("continuous", "etched") else rng.integers(0, len(mats9), size=dshape)
            rhos.append(np.asarray(r, dtype=np.float64))
        sets.append(rhos)
    orig = Device.__call__
    Device.__call__ = lambda self, params, expand_to_sim_grid=False, **kw_: jnp.asarray(params)
    try:
        P1 = {f"dev{k}": sets[0][k] for k in range(len(devs))}
        P2 = {f"dev{k}": sets[1][k] for k in range(len(devs))}
        key = jax.random.PRNGKey(0)
        try:
            a1 = apply_params(arrays, objs, P1, key=key)[0]
            a12 = apply_params(a1, objs, P2, key=key)[0]
            a2 = apply_params(arrays, objs, P2, key=key)[0]
        except Exception as e:  # noqa: BLE001
            return [(f"real apply_params raised {type(e).__name__}: {str(e)[:200]}", float("inf"))], f"tier={tier} grid={shape} devices={[(k_, b_) for k_, b_, _ in devs]}"
    finally:
        Device.__call__ = orig
    base = i0 if i0 is not None else x
    want1 = _np_fold(tier, base, devs, sets[0])
    want2 = _np_fold(tier, base, devs, sets[1])

    def diff(a, b):
        a, b = np.asarray(a), np.asarray(b)
        if a.shape != b.shape:
            return float("inf")
        return float(np.max(np.abs(a - b) / (1.0 + np.abs(b)))) if a.size else 0.0

    desc = f"tier={tier} grid={shape} devices={[(k, b) for k, b, _ in devs]} materials={[[tuple(round(v, 4) for v in _comps(tier, m)) for m in ms_] for _, _, ms_ in devs]}"
    checks = [
        ("apply(p1) vs documented cell values / frame", diff(a1.inv_permittivities, want1)),
        ("apply(p2) after apply(p1) vs documented values of p2", diff(a12.inv_permittivities, want2)),
        ("apply(p2) after apply(p1) vs apply(p2) alone (history)", diff(a12.inv_permittivities, a2.inv_permittivities)),
    ]
    if disp:
        kind, box, mats9 = devs[0]
        sl = (slice(None), slice(None)) + tuple(slice(lo, hi) for lo, hi in box)
        for nm in kw:
            k = int(nm[-1]) - 1
            checks.append((f"{nm} history", diff(getattr(a12, nm), getattr(a2, nm))))
            w = np.array(kw[nm])
            if kind in ("discrete", "binary"):
                tab = np.array([rows[m][k] for m in range(len(mats9))])
                w[sl] = np.moveaxis(tab[sets[0][0].astype(int)], (-2, -1), (0, 1))
                checks.append((f"{nm} coefficient stack of the indexed material / frame", diff(getattr(a1, nm), w)))
            else:
                got = np.array(getattr(a1, nm))
                got[sl] = w[sl]
                checks.append((f"{nm} frame", diff(got, w)))
    bad = [(n, d) for n, d in checks if not d <= 1e-9]
    return bad, desc


def _replay_expand(spec, witness, rng):
    import jax.numpy as jnp
    import numpy as np

    from fdtdx.core.misc import expand_matrix

    sc = (witness or {}).get("scalars", {})
    ndim = int(spec.get("ndim", 3))
    bad = []
    for trial in range(6):
        m = [int(sc.get(f"m{a}", 0)) if trial == 0 and isinstance(sc.get(f"m{a}"), int) and 1 <= sc.get(f"m{a}") <= 6 else int(rng.integers(1, 5)) for a in range(ndim)]
        g = [int(sc.get(f"g{a}", 0)) if trial == 0 and isinstance(sc.get(f"g{a}"), int) and 1 <= sc.get(f"g{a}") <= 6 else int(rng.integers(1, 4)) for a in range(3)]
        x = rng.normal(size=m)
        out = np.asarray(expand_matrix(jnp.asarray(x), tuple(g)))
        x3 = x if ndim == 3 else x[..., None]
        want = np.empty(tuple(x3.shape[a] * g[a] for a in range(3)))
        for idx in np.ndindex(*want.shape):
            want[idx] = x3[tuple(idx[a] // g[a] for a in range(3))]
        if out.shape != want.shape or np.max(np.abs(out - want)) > 0:
            bad.append(f"design shape {m}, grid_points_per_voxel {g}: got shape {out.shape}, expected {want.shape}" + ("" if out.shape != want.shape else f", max deviation {np.max(np.abs(out - want)):.3g}"))
    return bad


def _replay_call(spec, rng):
    """the REAL Device.__call__ (identity chain and a two-step concrete chain) under real JAX"""
    import jax.numpy as jnp
    import numpy as np

    import fdtdx
    from fdtdx.config import SimulationConfig
    from fdtdx.core.grid import UniformGrid
    from fdtdx.objects.device.device import Device

    bad = []
    cfg = SimulationConfig(time=1e-15, grid=UniformGrid(spacing=2.0e-8), backend="cpu", dtype=jnp.float64)
    mats = {"a": fdtdx.Material(permittivity=2.0), "b": fdtdx.Material(permittivity=5.0)}
    seen = []

    class T:
        def __init__(self, tag, shp):
            self.tag, self._input_shape, self._output_shape = tag, {"params": shp}, {"params": shp}

        def __call__(self, params, **kw):
            seen.append((self.tag, kw))
            x = params["params"]
            return {"params": x * 2.0 + 1.0 if self.tag == "f" else x * x}

    for trial in range(4):
        m = tuple(int(rng.integers(1, 4)) for _ in range(3))
        g = tuple(int(rng.integers(1, 4)) for _ in range(3))
        x = rng.uniform(0, 1, size=m)
        for mode in ("identity", "chain"):
            chain = [] if mode == "identity" else [T("f", m), T("g", m)]
            dev = scene._place(Device(name="dev", materials=mats, param_transforms=chain, partial_voxel_grid_shape=(1, 1, 1)), tuple((1, 1 + m[a] * g[a]) for a in range(3)), cfg)
            dev = dev.aset("_single_voxel_grid_shape", g)
            want = x if mode == "identity" else (x * 2.0 + 1.0) ** 2
            wexp = np.empty(tuple(m[a] * g[a] for a in range(3)))
            for idx in np.ndindex(*wexp.shape):
                wexp[idx] = want[tuple(idx[a] // g[a] for a in range(3))]
            try:
                got0 = np.asarray(dev(jnp.asarray(x)))
                got1 = np.asarray(dev({"params": jnp.asarray(x)}, expand_to_sim_grid=True))
            except Exception as e:  # noqa: BLE001
                bad.append(f"{mode} chain, design {m}, voxel {g}: real Device.__call__ raised {type(e).__name__}: {str(e)[:150]}")
                continue
            if got0.shape != want.shape or np.max(np.abs(got0 - want)) > 1e-12:
                bad.append(f"{mode} chain, design {m}, voxel {g}: unexpanded result has shape {got0.shape}, expected chain(params) of shape {want.shape}")
            if got1.shape != wexp.shape or np.max(np.abs(got1 - wexp)) > 1e-12:
                bad.append(f"{mode} chain, design {m}, voxel {g}: expanded result has shape {got1.shape}, expected expand(chain(params)) of shape {wexp.shape}")
    return bad


def _replay_pipeline(spec, witness, rng):
    """real apply_params + real Device.__call__ (identity chain) + real expand_matrix"""
    import jax
    import jax.numpy as jnp
    import numpy as np

    import fdtdx
    from fdtdx.config import SimulationConfig
    from fdtdx.core.grid import UniformGrid
    from fdtdx.fdtd.container import ArrayContainer, FieldState, ObjectContainer
    from fdtdx.fdtd.initialization import apply_params
    from fdtdx.objects.device.device import Device

    tier = int(spec.get("tier", 1))
    g = tuple(spec.get("g", (2, 1, 3)))
    bad = []
    for trial in range(4):
        m = [int(rng.integers(1, 4)) for _ in range(3)]
        lo = [int(rng.integers(0, 3)) for _ in range(3)]
        shape = tuple(lo[a] + m[a] * g[a] + int(rng.integers(0, 3)) for a in range(3))
        box = tuple((lo[a], lo[a] + m[a] * g[a]) for a in range(3))
        cfg = SimulationConfig(time=1e-15, grid=UniformGrid(spacing=2.0e-8), backend="cpu", dtype=jnp.float64)
        if tier == 9:
            mats9 = [tuple((np.eye(3) * (2.0 + 3 * j) + rng.uniform(-0.3, 0.3, size=(3, 3))).reshape(-1).tolist()) for j in range(2)]
        else:
            mats9 = []
            for j in range(2):
                d = [float(rng.uniform(1, 3)) + 3 * j for _ in range(3)]
                d = [d[0]] * 3 if tier == 1 else d
                mats9.append((d[0], 0.0, 0.0, 0.0, d[1], 0.0, 0.0, 0.0, d[2]))
        mats9.sort(key=lambda t: t[0])
        ms = {"hi": fdtdx.Material(permittivity=mats9[1]), "lo": fdtdx.Material(permittivity=mats9[0])}
        dev = scene._place(Device(name="dev0", materials=ms, param_transforms=[], partial_voxel_grid_shape=(1, 1, 1)), box, cfg)
        dev = dev.aset("_single_voxel_grid_shape", g)
        vol = scene.real_volume(shape, cfg)
        objs = ObjectContainer(object_list=[vol, dev], volume_idx=0)
        x = rng.uniform(0.2, 1.0, size=(tier, *shape))
        arrays = ArrayContainer(fields=FieldState(E=jnp.zeros((3, *shape)), H=jnp.zeros((3, *shape)), psi_E={}, psi_H={}), inv_permittivities=jnp.asarray(x), inv_permeabilities=1.0, detector_states={}, recording_state=None)
        design = rng.uniform(0, 1, size=m)
        try:
            out = np.asarray(apply_params(arrays, objs, {"dev0": jnp.asarray(design)}, key=jax.random.PRNGKey(0))[0].inv_permittivities)
        except Exception as e:  # noqa: BLE001
            bad.append(f"grid {shape}, device box {box}, design shape {m}, voxel {g}: real apply_params raised {type(e).__name__}: {str(e)[:150]}")
            continue
        rho = np.empty(tuple(m[a] * g[a] for a in range(3)))
        for idx in np.ndindex(*rho.shape):
            rho[idx] = design[tuple(idx[a] // g[a] for a in range(3))]
        want = _np_fold(tier, x, [("continuous", box, mats9)], [rho])
        d = float(np.max(np.abs(out - want) / (1 + np.abs(want)))) if out.shape == want.shape else float("inf")
        if not d <= 1e-9:
            bad.append(f"grid {shape}, device box {box}, design shape {m}, voxel {g}: max relative deviation {d:.3g}")
    return bad


def _replay_init_backup(spec, rng):
    """the REAL place_objects (hence _init_arrays) on a small scene"""
    import jax
    import jax.numpy as jnp
    import numpy as np

    import fdtdx

    kinds = list(spec.get("kinds", ["etched"]))
    cfg = fdtdx.SimulationConfig(time=20e-15, grid=fdtdx.UniformGrid(spacing=50e-9), backend="cpu", dtype=jnp.float32, gradient_config=None)
    vol = fdtdx.SimulationVolume(partial_real_shape=(0.4e-6, 0.4e-6, 0.4e-6), material=fdtdx.Material(permittivity=2.0))
    objs, cons = [vol], []
    for k, kind in enumerate(kinds):
        nm = N_MATS[kind]
        mats = {f"m{j}": fdtdx.Material(permittivity=1.0 + 1.5 * j) for j in range(nm)}
        chain = [] if kind in ("continuous", "etched") else [fdtdx.ClosestIndex()]
        d = fdtdx.Device(name=f"dev{k}", materials=mats, param_transforms=chain, partial_voxel_real_shape=(50e-9, 50e-9, 50e-9), partial_real_shape=(0.2e-6, 0.2e-6, 0.2e-6), use_etching=(kind == "etched"))
        objs.append(d)
        cons.append(d.place_at_center(vol))
    oc, arrays, params, cfg2, _ = fdtdx.place_objects(object_list=objs, config=cfg, constraints=cons, key=jax.random.PRNGKey(0))
    b = arrays.initial_inv_permittivities
    etch = any(k == "etched" for k in kinds)
    if etch and b is None:
        return [f"devices {kinds}: a device etches but initial_inv_permittivities is None"]
    if etch and (b.shape != arrays.inv_permittivities.shape or float(np.max(np.abs(np.asarray(b) - np.asarray(arrays.inv_permittivities)))) > 0):
        return [f"devices {kinds}: backup differs from inv_permittivities after place_objects"]
    if not etch and b is not None:
        return [f"devices {kinds}: no device etches but a backup was created"]
    return []


def _spec_from_key(key):
    """the configuration a task key stands for (used when the solver produced no model, e.g. cvc5)"""
    p = key.split("/")
    head = p[0]
    if head in ("cell", "history", "history2", "history3"):
        t = int(p[1][1:])
        kinds = p[2].split("+")
        mk = {"iso-materials": "iso", "diag-materials": "diag"}.get(p[3] if len(p) > 3 else "", MATKIND_OF_TIER[t])
        return {"task": "cell" if head == "cell" else "history", "tier": t, "kinds": kinds, "mat_kind": mk}
    if head == "dispersive":
        kind = {"discrete3": "discrete", "binary": "binary", "continuous": "continuous"}[p[2]]
        return {"task": "dispersive", "variant": p[1], "n_mats": 3 if p[2] == "discrete3" else 2, "kinds": [kind], "tier": DISP_CFG[p[1]][0]}
    if head == "pipeline":
        return {"task": "pipeline", "tier": int(p[1][1:]), "kinds": ["continuous"], "g": [int(ch) for ch in p[2][1:]]}
    if head == "init_backup":
        return {"task": "init_backup", "tier": int(p[1][1:]), "kinds": p[2].split("+")}
    if head == "expand":
        return {"task": "expand_index"} if p[1] == "index" else {"task": "expand", "ndim": int(p[1][0])}
    if head == "call":
        return {"task": "call", "mode": p[1]}
    return {}


def replay(key, obligation, witness):
    """re-run the failing configuration on the REAL code under REAL JAX (float64) with the witness
    data (first trial) and seeded random data (further trials), against an independent numpy oracle"""
    import numpy as np

    spec = (witness or {}).get("notes", {}).get("spec", {}) or _spec_from_key(key)
    task = spec.get("task") or key.split("/")[0]
    rng = np.random.default_rng(18)
    try:
        if task in ("cell", "history", "dispersive") or key.split("/")[0] in ("cell", "history", "history2", "history3", "dispersive"):
            if not spec:
                return False, "no configuration recorded in the witness"
            for trial in range(8):
                bad, desc = _replay_scene(spec, witness, rng, use_witness=(trial == 0))
                if bad:
                    return True, f"real apply_params under real JAX, {desc} ({'witness data' if trial == 0 else 'seeded random data'}): " + "; ".join(f"{n}: max relative deviation {d:.3g}" for n, d in bad)
            return False, "8 concrete runs of the real apply_params (witness + random data) agree with the numpy oracle"
        if task == "expand":
            bad = _replay_expand(spec, witness, rng)
            return (True, "real expand_matrix: " + "; ".join(bad[:3])) if bad else (False, "real expand_matrix agrees with out[i]=in[i//g] on 6 concrete cases")
        if task == "call":
            bad = _replay_call(spec, rng)
            return (True, "real Device.__call__: " + "; ".join(bad[:3])) if bad else (False, "real Device.__call__ agrees with expand(chain(params)) on 8 concrete cases")
        if task == "expand_index":
            return False, "pure integer lemma (no code to run)"
        if task == "pipeline":
            bad = _replay_pipeline(spec, witness, rng)
            return (True, "real apply_params + real Device.__call__ + real expand_matrix: " + "; ".join(bad[:3])) if bad else (False, "4 concrete pipeline runs agree with the numpy oracle")
        if task == "init_backup":
            bad = _replay_init_backup(spec, rng)
            return (True, "real place_objects: " + "; ".join(bad)) if bad else (False, "real place_objects creates a correct etch backup on the concrete scene")
    except Exception:  # noqa: BLE001
        import traceback

        return None, "replay crashed:\n" + traceback.format_exc()
    return False, f"no replay for task kind {task!r}"
