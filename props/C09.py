"""C09  Periodic and Bloch domains match their supercells.

Relational contract of the two REAL half steps update_E and update_H, each from an arbitrary phase-tiled
state (the forward step update_H o update_E follows by composition).  Along a periodic / Bloch
axis a with N cells and ghost phase phi = exp(i k L), build the supercell of m*N cells whose
materials are the N-cell ones repeated m times and whose fields are

        X(i) = phi^q(i) * x(r(i)),      i = q(i) * N + r(i),  0 <= r(i) < N,  0 <= q(i) < m

(phi = 1 for plain periodic axes).  Obligation per half step h:   h_big(X)(i) == phi^q(i) * h_small(x)(r(i))
for every i, for E and H, all shapes and values, m in {2, 3}.  The supercell's own ghost phase is the
real get_bloch_phase of the m*N-cell boundary; the only fact used about it is the homomorphism
exp(i k m L) = exp(i k L)^m (stated as an axiom instance for the two phase terms that occur) and
|phi| = 1.  Induction over steps gives whole runs; tiling along several axes composes axis by axis.
"""

from __future__ import annotations

from props import common as K
from vc import array as A
from vc import scene
from vc.array import SymArray
from vc.core import SymNum, ctx, ite
from vc.harness import Task
from vc.obl import prove_arrays_equal, sym_int, sym_real

ID = "C09"
LEVEL = "proof"
TECHNIQUE = "relational symbolic execution of the real update_E/update_H on an N-cell periodic/Bloch domain and on its m-fold supercell; pointwise obligations by z3 / ite-split ring normal form with the exp homomorphism as an axiom instance"
MODULES = K.SOLVER_MODULES
FILES = K.SOLVER_FILES
FUNCTIONS = [
    "fdtdx.fdtd.update.update_E / update_H",
    "fdtdx.fdtd.update.pad_fields_for_boundaries",
    "fdtdx.core.misc.pad_fields",
    "fdtdx.objects.boundaries.bloch.BlochBoundary.apply_pad_correction / get_bloch_phase",
    "fdtdx.core.physics.curl.curl_E / curl_H",
]
STUBS = ["exp(i k L) as (cos, sin) uninterpreted functions with the axiom instances exp(i k mL) = exp(i k L)^m and cos^2+sin^2 = 1"]
ASSUMPTIONS = ["real arithmetic", "exp homomorphism for the two Bloch phase terms that occur; exp(i*0*L) = 1 on the zero-wave-vector path", "tiling factors m in {2,3} (property text); several tiled axes follow by composing single-axis statements", "induction over steps is a pencil step"]
MIN_OBLIGATIONS = {"quick": 120, "thorough": 300}
LEVEL_TEXT = "Deductive proof for all cell counts N, transverse shapes, field and material values and wave vectors that one real forward step of the m-fold supercell equals the phase-tiled step of the N-cell domain; tiled axis, m, boundary kinds on the other axes and material tiers enumerated"
LEVEL_NOTE = "real arithmetic; m in {2,3}; exp homomorphism assumed for the occurring phase terms"


def _cpow(phi, q):
    r = 1
    for _ in range(q):
        r = r * phi
    return r


def _tile_index(i, N, m):
    """i -> (q, r) as values with ite (i symbolic, 0 <= i < m*N)"""
    q = 0
    r = i
    for j in range(1, m):
        ge = i >= N * j
        q = ite(ge, j, q)
        r = ite(ge, i - N * j, r)
    return q, r


def _task(spec):
    def body(c, inp):
        import fdtdx.fdtd.update as U

        ax = spec["axis"]
        m = spec["m"]
        assign = spec["bnd"]
        shape = scene.sym_shape()
        for n, v in zip("xyz", shape):
            inp.scalar(f"N{n}", v)
        big = tuple(shape[a] * m if a == ax else shape[a] for a in range(3))
        N = shape[ax]
        cfg = scene.make_config()
        cplx = assign[ax][0] == "bloch"
        kind = "complex" if cplx else "real"
        kb = {a: sym_real(f"bloch_k{a}") for a in range(3) if "bloch" in assign[a]}

        def boundaries(shp):
            out = []
            for a, (lo, hi) in enumerate(assign):
                for kname, d in ((lo, "-"), (hi, "+")):
                    if kname is not None:
                        out.append(scene.make_boundary(kname, a, d, shp, cfg, bloch_k=kb.get(a)))
            return out

        bs, bb = boundaries(shape), boundaries(big)
        objs_s = scene.make_objects(shape, cfg, bs)
        objs_b = scene.make_objects(big, cfg, bb)
        small = scene.make_arrays(shape, eps_tier=spec["eps"], mu_tier=spec["mu"], sigE_tier=spec.get("sigE"), sigH_tier=spec.get("sigH"), complex_fields=any("bloch" in p for p in assign))
        kind = "complex" if any("bloch" in p for p in assign) else "real"
        inp.array("E", small.fields.E)
        inp.array("H", small.fields.H)
        inp.note("spec", {k: str(v) for k, v in spec.items()})
        phi = 1
        if cplx:
            sp = cfg.uniform_spacing()
            bsm = next(b for b in bs if b.axis == ax)
            bbg = next(b for b in bb if b.axis == ax)
            phi = bsm.get_bloch_phase(shape, sp)
            if isinstance(phi, SymArray):
                phi = phi.item()
            PHI = bbg.get_bloch_phase(big, sp)
            if isinstance(PHI, SymArray):
                PHI = PHI.item()
            if kb[ax] == 0:  # (forks) zero wave vector: exp(i*0*L) = 1 exactly for both phase terms
                for term in (phi, PHI):
                    c.assume_rewrite(SymNum(term.re), SymNum(1), "exp(0) = 1 (re)")
                    c.assume_rewrite(SymNum(term.im), SymNum(0), "exp(0) = 1 (im)")
                phi = 1
            else:
                target = _cpow(phi, m)
                c.assume_rewrite(SymNum(PHI.re), SymNum(target.re), "exp homomorphism (re)")
                c.assume_rewrite(SymNum(PHI.im), SymNum(target.im), "exp homomorphism (im)")
                c.assume(A.v_eq(SymNum(phi.re) * SymNum(phi.re) + SymNum(phi.im) * SymNum(phi.im), 1), "|phi| = 1")

        def tiled(X, with_phase, lead=1):
            shp = tuple(X.shape[:lead]) + tuple(big if lead else ())
            shp = tuple(X.shape[:lead]) + big

            def fn(idx):
                sp_idx = [A._wrap_idx(i) for i in idx[lead:]]
                q, r = _tile_index(sp_idx[ax], N, m)
                sp_idx[ax] = r
                v = X.at_index(tuple(idx[:lead]) + tuple(A._raw_index(i) for i in sp_idx))
                if with_phase and cplx and not isinstance(phi, int):
                    f = 1
                    for j in range(1, m):
                        f = ite(A.v_eq(q, j), _cpow(phi, j), f)
                    v = v * f
                return v

            return SymArray(shp, fn, X.kind)

        def tiled_mat(X):
            return tiled(X, False) if isinstance(X, SymArray) else X

        from fdtdx.fdtd.container import ArrayContainer, FieldState

        bigarr = ArrayContainer(
            fields=FieldState(E=tiled(small.fields.E, True), H=tiled(small.fields.H, True), psi_E={}, psi_H={}),
            inv_permittivities=tiled_mat(small.inv_permittivities),
            inv_permeabilities=tiled_mat(small.inv_permeabilities),
            detector_states={},
            recording_state=None,
            electric_conductivity=tiled_mat(small.electric_conductivity) if small.electric_conductivity is not None else None,
            magnetic_conductivity=tiled_mat(small.magnetic_conductivity) if small.magnetic_conductivity is not None else None,
        )
        t_arr, t = K.time_scalar("t")
        c.cover("pre")
        # modular: each half step maps ANY phase-tiled state to the phase-tiled image of the small domain's
        # half step, so update_H o update_E does (composition).
        for hname, fn in (("update_E", U.update_E), ("update_H", U.update_H)):
            s1 = fn(t_arr, small, objs_s, cfg, True)
            b1 = fn(t_arr, bigarr, objs_b, cfg, True)
            prove_arrays_equal(f"{hname}:E_supercell", b1.fields.E, tiled(s1.fields.E, True))
            prove_arrays_equal(f"{hname}:H_supercell", b1.fields.H, tiled(s1.fields.H, True))

    return body


def tasks(tier, seed):
    out = {}
    P, B = ("periodic", "periodic"), ("bloch", "bloch")
    others = [((None, None), ("pec", "pmc")), (("periodic", "periodic"), (None, None)), (("pmc", None), ("pec", "pec"))]
    for ax in range(3):
        for pair, pname in ((P, "periodic"), (B, "bloch")):
            for m in (2, 3):
                for oi, oth in enumerate(others if tier == "thorough" else others[: 1 + (ax == 0)]):
                    assign = [None] * 3
                    assign[ax] = pair
                    rest = [a for a in range(3) if a != ax]
                    assign[rest[0]], assign[rest[1]] = oth
                    tiers = [(3, 3, 3, None), (1, "scalar", None, None)] if (tier == "thorough" or (ax == 0 and m == 2)) else [(3, 1, 1, None)]
                    for e, mu, se, sh in tiers:
                        out[f"{pname}/axis{ax}/m{m}/{K.bnd_label(tuple(assign))}/e{e}m{mu}s{se}"] = Task(_task(dict(axis=ax, m=m, bnd=tuple(assign), eps=e, mu=mu, sigE=se, sigH=sh)), max_paths=256)
    # both transverse axes Bloch as well (several periodic axes in one scene)
    out["bloch/axis1/m2/BBBBBB/e1m1"] = Task(_task(dict(axis=1, m=2, bnd=(B, B, B), eps=1, mu=1, sigE=None, sigH=None)), max_paths=256)
    # full-tensor media on a Bloch axis (the 9-component branch of update_E pads curl(H) through the boundary hook)
    oo = (None, None)
    out["bloch/axis0/m2/BBoooo/e9mscalar"] = Task(_task(dict(axis=0, m=2, bnd=(B, oo, oo), eps=9, mu="scalar", sigE=None, sigH=None)), max_paths=256)
    out["bloch/axis1/m2/ooBBoo/e9mscalar"] = Task(_task(dict(axis=1, m=2, bnd=(oo, B, oo), eps=9, mu="scalar", sigE=None, sigH=None)), max_paths=256)
    out["bloch/axis2/m2/ooooBB/e9mscalar"] = Task(_task(dict(axis=2, m=2, bnd=(oo, oo, B), eps=9, mu="scalar", sigE=None, sigH=None)), max_paths=256)
    out["periodic/axis2/m2/PPPPPP/e9m9"] = Task(_task(dict(axis=2, m=2, bnd=(P, P, P), eps=9, mu=9, sigE=None, sigH=None)), max_paths=256)
    return out


# ---------------------------------------------------------------------------------------------
# replay on the real code (real JAX, concrete arrays)


def replay(key, obligation, witness):
    """REAL update_E / update_H under real JAX on a concrete N-cell domain and on its m-fold supercell (materials
    tiled, fields tiled with the Bloch phase exp(i k L)^q per copy; K.concrete_scene uses k = 0.37e8 rad/m on
    Bloch axes): compares the supercell's half steps with the phase-tiled half steps of the small domain"""
    import jax.numpy as jnp
    import numpy as np

    import fdtdx.fdtd.update as U
    from fdtdx.fdtd.container import ObjectContainer

    spec = K.parse_spec((witness or {}).get("notes"))
    if not spec:
        return False, "witness carries no configuration"
    ax, m = int(spec["axis"]), int(spec["m"])
    cplx = any("bloch" in p for p in spec["bnd"])
    details = []
    for attempt in range(2):
        small_shape = [3, 2, 4] if attempt == 0 else [2, 3, 3]
        w = {"scalars": {f"N{c}": small_shape[i] for i, c in enumerate("xyz")}}
        sp = dict(bnd=spec["bnd"], eps=spec["eps"], mu=spec["mu"], sigE=spec.get("sigE"), sigH=spec.get("sigH"), complex=cplx)
        shape, cfg, objs, arr, rng = K.concrete_scene(sp, w, seed=attempt)
        big_shape = list(shape)
        big_shape[ax] *= m
        wb = {"scalars": {f"N{c}": big_shape[i] for i, c in enumerate("xyz")}}
        _, cfgb, objsb, arrb, _ = K.concrete_scene(sp, wb, seed=attempt, max_dim=32)
        phi = 1.0
        for o in objs:
            if getattr(o, "needs_complex_fields", False) and o.axis == ax:
                phi = complex(np.asarray(o.get_bloch_phase(shape, cfg.uniform_spacing())))

        def tile(X, phase):
            X = np.asarray(X)
            if X.ndim == 0:
                return X
            parts = [X * (phi**q if phase else 1.0) for q in range(m)]
            return np.concatenate(parts, axis=1 + ax)

        def tmat(X):
            return X if X is None or not hasattr(X, "shape") or np.ndim(X) == 0 else jnp.asarray(tile(X, False))

        arrb = arrb.aset("fields->E", jnp.asarray(tile(arr.fields.E, True))).aset("fields->H", jnp.asarray(tile(arr.fields.H, True)))
        for nm in ("inv_permittivities", "inv_permeabilities", "electric_conductivity", "magnetic_conductivity"):
            arrb = arrb.aset(nm, tmat(getattr(arr, nm)))
        oc, ocb = ObjectContainer(object_list=objs, volume_idx=0), ObjectContainer(object_list=objsb, volume_idx=0)
        t = jnp.asarray(1, dtype=jnp.int32)
        bad = False
        for hname, fn in (("update_E", U.update_E), ("update_H", U.update_H)):
            s1, b1 = fn(t, arr, oc, cfg, True), fn(t, arrb, ocb, cfgb, True)
            dE = K.max_abs_diff(np.asarray(b1.fields.E), tile(s1.fields.E, True))
            dH = K.max_abs_diff(np.asarray(b1.fields.H), tile(s1.fields.H, True))
            details.append(f"attempt {attempt}: N-cell shape {tuple(shape)}, m={m} along axis {ax}, phi={phi:.4f}: {hname}: |dE|={dE:.3e} |dH|={dH:.3e}")
            bad |= dE > 1e-9 or dH > 1e-9
        if bad:
            return True, "\n".join(details)
    return False, "\n".join(details)
