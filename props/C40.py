"""C40  Functional updates never mutate their input.

Contract of TreeClass.aset(path, val) (path = op0->op1->..., ops in {attribute, [index], ['key']}):

    ensures  type(result) is type(self)
    ensures  result == self[path := val]          (every slot off the addressed path holds an equal value)
    ensures  self is unchanged                     (same container objects holding the same child objects)

How it is checked
  * `aset` is object-model code: it never looks at the values stored in the slots.  The real `aset` is
    executed on trees whose slot values are OPAQUE: symbolic scalars (SymNum), symbolic arrays and
    inspection-trapping sentinels (any ==, hash, bool, len, iteration on them raises).  An execution that
    finishes without tripping a trap did not depend on the slot values, so the obligations of that
    execution hold for ALL slot values (value equality of copied symbolic leaves is discharged by the
    solver).  What such an execution does depend on is the STRUCTURE: the path shape (kind of every
    op, plain or frozen field, list length / index incl. negative, key), which is enumerated:
    every path shape of depth <= 4 (thorough: <= 5).  That enumeration is the bounded part of this check.
  * frame: a syntactic write-set analysis of the real source of `aset`/`_aset` shows for ALL inputs that
    stores only go into locals, objects freshly returned by `.copy()`, or the copy pytreeclass' `.at[...]`
    hands to `_aset`.  Anything it does not recognise makes the check UNDECIDED, never a violation.
  * bounded stand-ins (real fdtdx configuration objects, seeded random nested trees with concrete
    leaves incl. real jax arrays) are recorded with c.bounded.
"""

from __future__ import annotations

import ast
import copy
import inspect
import itertools
import random
import textwrap

from vc import array as A
from vc.array import SymArray
from vc.core import SymBool, SymNum, Undecided, Unsupported
from vc.harness import Task
from vc.obl import sym_int, sym_real

ID = "C40"
LEVEL = "other"
TECHNIQUE = "real aset executed on trees with opaque (symbolic / inspection-trapping) slot values for every path shape of depth <= 4 against a pure functional-update specification, identity snapshot of the input, syntactic write-set analysis of aset; bounded runs on real configuration objects"
MODULES = ["fdtdx.core.jax.pytrees"]
FILES = ["src/fdtdx/core/jax/pytrees.py"]
FUNCTIONS = ["fdtdx.core.jax.pytrees.TreeClass.aset", "fdtdx.core.jax.pytrees.TreeClass._aset", "fdtdx.core.jax.pytrees.TreeClass._parse_operations"]
INLINED = ["fdtdx.core.jax.pytrees.safe_hasattr", "pytreeclass TreeClassIndexer.__call__ (.at['_aset'](...): copy, apply, return) - executed, not stubbed", "pytreeclass freeze/unfreeze callbacks of frozen fields - executed"]
STUBS = []
ASSUMPTIONS = [
    "path shapes are enumerated up to depth 4 (thorough: 5) over {attribute of a plain field, attribute of a frozen field, list index, dict key}; list lengths 1..3 with every in-range index incl. negative ones; deeper paths / longer lists are not covered",
    "slot values are opaque to aset: established per executed path by inspection-trapping sentinels (an execution that inspects a slot value fails the check); values that are themselves containers are covered only through the enumerated path shapes",
    "write-set analysis assumes the contracts: list/dict `.copy()` returns a fresh object, pytreeclass `.at[method](...)` runs the method on a copy, attribute/item reads (`getattr`, `[]`, `in`, `dir`) have no side effects",
    "'only the addressed path changed' is value equality of all other slots (pytreeclass copies leaves of plain fields with copy.copy, so identity is not promised); 'original unchanged' is checked on identity level",
]
MIN_OBLIGATIONS = {"quick": 1700, "thorough": 7000}
LEVEL_TEXT = "For every enumerated update-path shape (all 170 shapes of depth <= 4 over attribute/index/key with plain and frozen fields, plus list-length/index, create-new and failing-path variants) the contract of the real TreeClass.aset holds for all slot values; a write-set analysis of the source gives the frame condition for all inputs under the stated library contracts; real configuration objects and random nested trees are run as bounded stand-ins"
LEVEL_NOTE = "bounded in path depth and container sizes; value-parametricity established dynamically per shape, not by a type-system argument; not counted as a proof of the property for all nested objects"
BOUNDED_RULE = "bounded stand-in: real aset on real fdtdx objects / seeded random nested trees with concrete leaves; not counted as proved"


# ---------------------------------------------------------------------------------------
# opaque leaves
# ---------------------------------------------------------------------------------------


class LeafInspected(Exception):
    pass


class Opaque:
    """a slot value nobody may look into: only identity, type() and copying are allowed"""

    __slots__ = ("tag",)

    def __init__(self, tag):
        self.tag = tag

    def _trap(self, *a, **k):
        raise LeafInspected(f"slot value {self.tag} was inspected")

    __eq__ = __ne__ = __lt__ = __le__ = __gt__ = __ge__ = _trap
    __hash__ = _trap
    __bool__ = __len__ = __iter__ = __contains__ = __getitem__ = __setitem__ = __call__ = _trap
    __add__ = __radd__ = __mul__ = __rmul__ = __sub__ = __rsub__ = __int__ = __float__ = __index__ = _trap

    def __copy__(self):
        return Opaque(self.tag)

    def __deepcopy__(self, memo):
        return Opaque(self.tag)

    def __repr__(self):
        return f"<opaque {self.tag}>"


_CLS = {}


def _node_class():
    """a generic TreeClass with two plain and two frozen slots, built with the real decorators"""
    if "Node" not in _CLS:
        from fdtdx.core.jax.pytrees import TreeClass, autoinit, field, frozen_field

        @autoinit
        class Node(TreeClass):
            p: object = field(default=None)
            q: object = field(default=None)
            f: object = frozen_field(default=None)
            g: object = frozen_field(default=None)

        @autoinit
        class Other(TreeClass):
            p: object = field(default=None)
            f: object = frozen_field(default=None)

        _CLS["Node"] = Node
        _CLS["Other"] = Other
    return _CLS["Node"], _CLS["Other"]


class LeafFactory:
    """symbolic=True: SymNum / SymArray / Opaque / plain constants in rotation (needs a session);
    symbolic=False: concrete floats, numpy / jax arrays, strings (replay and bounded runs)."""

    def __init__(self, symbolic, rnd=None):
        self.symbolic = symbolic
        self.n = 0
        self.rnd = rnd or random.Random(0)

    def __call__(self, hint=""):
        self.n += 1
        k = self.n
        if self.symbolic:
            m = k % 5
            if m == 0:
                return sym_real(f"leaf{k}")
            if m == 1:
                return Opaque(f"o{k}{hint}")
            if m == 2:
                return A.fresh_array(f"arr{k}", (sym_int(f"n{k}", lo=1),))
            if m == 3:
                return sym_int(f"ileaf{k}")
            return [None, "text", True, 7][(k // 5) % 4]
        import numpy as np

        m = k % 5
        if m == 0:
            return self.rnd.uniform(-10, 10)
        if m == 1:
            return f"s{k}"
        if m == 2:
            import jax.numpy as jnp

            return jnp.asarray(np.arange(3, dtype=np.float64) + k)
        if m == 3:
            return k
        return [None, "text", True, np.arange(2) + k][(k // 5) % 4]


# ---------------------------------------------------------------------------------------
# tree construction for a path shape
# ---------------------------------------------------------------------------------------
# op descriptors: ("ap",) attribute of a plain field; ("af",) attribute of a frozen field;
#                 ("ix", n, pos) index `pos` into a list of length n; ("ky",) dict key


def op_label(op):
    return op[0] if op[0] != "ix" else f"ix{op[1]}@{op[2]}"


def shape_label(ops):
    return ".".join(op_label(o) for o in ops)


def parse_shape(label):
    ops = []
    for t in label.split("."):
        if t.startswith("ix"):
            n, pos = t[2:].split("@")
            ops.append(("ix", int(n), int(pos)))
        else:
            ops.append((t,))
    return ops


def path_string(ops):
    out = []
    for op in ops:
        if op[0] == "ap":
            out.append("p")
        elif op[0] == "af":
            out.append("f")
        elif op[0] == "ix":
            out.append(f"[{op[2]}]")
        else:
            out.append("['kt']")
    return "->".join(out)


def build(ops, leaf, level=0):
    """container for ops[level] holding the container for ops[level+1] (or the old value) in the
    addressed slot and opaque values / mutable sibling containers in all other slots"""
    Node, Other = _node_class()
    child = build(ops, leaf, level + 1) if level + 1 < len(ops) else leaf("old")
    op = ops[level]
    if op[0] == "ap":
        return Node(p=child, q=leaf(), f=[leaf(), leaf()], g={"s": leaf()})
    if op[0] == "af":
        return Node(p=Other(p=leaf(), f=(leaf(),)), q=[leaf(), {"d": leaf()}], f=child, g=leaf())
    if op[0] == "ix":
        n, pos = op[1], op[2]
        items = [leaf() if i % 2 == 0 else [leaf()] for i in range(n)]
        items[pos] = child
        return items
    return {"ka": leaf(), "kt": child, "kz": [leaf()], "kn": Other(p=leaf(), f=leaf())}


# ---------------------------------------------------------------------------------------
# pure description of a tree, the functional-update SPEC on descriptions, comparison
# ---------------------------------------------------------------------------------------


def _is_tree(x):
    from fdtdx.core.jax.pytrees import TreeClass

    return isinstance(x, TreeClass)


def describe(x):
    """nested description; containers by kind, slot values kept as objects"""
    if _is_tree(x):
        return ("T", type(x), {k: describe(getattr(x, k)) for k in sorted(vars(x))})
    if isinstance(x, list):
        return ("L", [describe(v) for v in x])
    if isinstance(x, tuple):
        return ("U", [describe(v) for v in x])
    if isinstance(x, dict):
        return ("D", {k: describe(v) for k, v in x.items()})
    return ("leaf", x)


def spec_update(desc, ops, val_desc, create=False):
    """the property's reading of `x[path := val]` on descriptions (independent of aset)"""
    if not ops:
        return val_desc
    op = ops[0]
    kind = desc[0]
    if op[0] in ("ap", "af", "attr"):
        assert kind == "T"
        name = {"ap": "p", "af": "f"}.get(op[0]) or op[1]
        new = dict(desc[2])
        if name not in new:
            assert create and len(ops) == 1
            new[name] = val_desc
        else:
            new[name] = spec_update(new[name], ops[1:], val_desc, create)
        return ("T", desc[1], new)
    if op[0] == "ix":
        assert kind == "L"
        new = list(desc[1])
        pos = op[2] if op[2] >= 0 else len(new) + op[2]
        new[pos] = spec_update(new[pos], ops[1:], val_desc, create)
        return ("L", new)
    assert kind == "D"
    key = op[1] if len(op) > 1 else "kt"
    new = dict(desc[1])
    if key not in new:
        assert create and len(ops) == 1
        new[key] = val_desc
    else:
        new[key] = spec_update(new[key], ops[1:], val_desc, create)
    return ("D", new)


def leaf_equal(a, b):
    """value equality of two slot values -> bool | SymBool"""
    import numpy as np

    if isinstance(a, Opaque) or isinstance(b, Opaque):
        return isinstance(a, Opaque) and isinstance(b, Opaque) and a.tag == b.tag
    if isinstance(a, SymArray) or isinstance(b, SymArray):
        if not (isinstance(a, SymArray) and isinstance(b, SymArray)) or len(a.shape) != len(b.shape):
            return False
        res = True
        for da, db in zip(a.shape, b.shape):
            res = A._vand(res, A.v_eq(da, db))
        # generic element: same uninterpreted function application <=> same fn; compare at a fresh index
        idx = tuple(sym_int("cmp_i", lo=0) for _ in a.shape)
        return A._vand(res, A.v_eq(a.at_index(tuple(A._raw_index(i) for i in idx)), b.at_index(tuple(A._raw_index(i) for i in idx))))
    if isinstance(a, (SymNum, SymBool)) or isinstance(b, (SymNum, SymBool)):
        if isinstance(a, (bool, str, type(None))) or isinstance(b, (bool, str, type(None))):
            return False
        return A.v_eq(a, b)
    if type(a) is not type(b):
        # jax arrays of different concrete classes are still the same kind of value
        try:
            import jax

            if isinstance(a, jax.Array) and isinstance(b, jax.Array):
                return a.shape == b.shape and a.dtype == b.dtype and bool(np.array_equal(np.asarray(a), np.asarray(b)))
        except ImportError:  # pragma: no cover
            pass
        return False
    if isinstance(a, (np.ndarray, np.generic)) or (hasattr(a, "shape") and hasattr(a, "dtype") and not isinstance(a, type) and type(a).__module__.startswith(("jax", "jaxlib"))):
        return a.shape == b.shape and a.dtype == b.dtype and bool(np.array_equal(np.asarray(a), np.asarray(b), equal_nan=True))
    if isinstance(a, float) and a != a:
        return b != b
    if a is b:
        return True
    if not hasattr(a, "__dict__") and getattr(type(a), "__slots__", None) == ():
        return True  # stateless sentinels (pytreeclass / fdtdx NULL): copies are indistinguishable
    try:
        return bool(a == b)
    except Exception:  # noqa: BLE001
        return a is b


def same_desc(d1, d2, where="", diffs=None):
    """structural comparison; returns conjunction (bool | SymBool) and appends the first
    structural differences to `diffs`"""
    diffs = diffs if diffs is not None else []
    if d1[0] != d2[0]:
        diffs.append(f"{where or '<root>'}: {d1[0]} vs {d2[0]}")
        return False
    k = d1[0]
    if k == "leaf":
        r = leaf_equal(d1[1], d2[1])
        if r is False:
            diffs.append(f"{where or '<root>'}: {d1[1]!r} vs {d2[1]!r}")
        return r
    if k == "T":
        if d1[1] is not d2[1] or set(d1[2]) != set(d2[2]):
            diffs.append(f"{where or '<root>'}: {d1[1].__name__}{sorted(d1[2])} vs {d2[1].__name__}{sorted(d2[2])}")
            return False
        res = True
        for name in d1[2]:
            res = A._vand(res, same_desc(d1[2][name], d2[2][name], f"{where}.{name}", diffs))
        return res
    if k in ("L", "U"):
        if len(d1[1]) != len(d2[1]):
            diffs.append(f"{where or '<root>'}: length {len(d1[1])} vs {len(d2[1])}")
            return False
        res = True
        for i, (a, b) in enumerate(zip(d1[1], d2[1])):
            res = A._vand(res, same_desc(a, b, f"{where}[{i}]", diffs))
        return res
    if set(d1[1]) != set(d2[1]):
        diffs.append(f"{where or '<root>'}: keys {sorted(d1[1])} vs {sorted(d2[1])}")
        return False
    res = True
    for key in d1[1]:
        res = A._vand(res, same_desc(d1[1][key], d2[1][key], f"{where}[{key!r}]", diffs))
    return res


def identity_snapshot(x, out=None):
    """container object -> identities of the child objects it holds (objects kept alive)"""
    out = out if out is not None else {}
    if id(x) in out:
        return out
    if _is_tree(x):
        kids = [(k, vars(x)[k]) for k in sorted(vars(x))]  # raw storage (frozen wrappers included)
        out[id(x)] = (x, [(k, v) for k, v in kids])
        for k, _ in kids:
            identity_snapshot(getattr(x, k), out)
    elif isinstance(x, (list, tuple)):
        out[id(x)] = (x, list(enumerate(x)))
        for v in x:
            identity_snapshot(v, out)
    elif isinstance(x, dict):
        out[id(x)] = (x, list(x.items()))
        for v in x.values():
            identity_snapshot(v, out)
    return out


def identity_unchanged(snap):
    for _, (obj, kids) in snap.items():
        if _is_tree(obj):
            now = [(k, vars(obj)[k]) for k in sorted(vars(obj))]
        elif isinstance(obj, (list, tuple)):
            now = list(enumerate(obj))
        else:
            now = list(obj.items())
        if len(now) != len(kids):
            return False, f"{type(obj).__name__} changed its number of slots"
        for (k0, v0), (k1, v1) in zip(kids, now):
            if k0 != k1 or v0 is not v1:
                return False, f"slot {k0!r} of a {type(obj).__name__} of the original now holds another object"
    return True, ""


def get_path(x, ops):
    for op in ops:
        if op[0] in ("ap", "af", "attr"):
            x = getattr(x, {"ap": "p", "af": "f"}.get(op[0]) or op[1])
        elif op[0] == "ix":
            x = x[op[2]]
        else:
            x = x[op[1] if len(op) > 1 else "kt"]
    return x


# ---------------------------------------------------------------------------------------
# one case = one path shape: run the real aset, state the contract
# ---------------------------------------------------------------------------------------


def run_case(ops, leaf, prove, tag):
    """prove(name, goal, detail) is c.prove (symbolic) or a recorder (bounded / replay)"""
    root = build(ops, leaf)
    val = leaf("new")
    before = describe(root)
    snap = identity_snapshot(root)
    path = path_string(ops)
    try:
        res = root.aset(path, val)
    except LeafInspected as e:
        raise Undecided(f"aset looked into a slot value ({e}); the value-parametricity argument of this check no longer applies") from e
    except (Unsupported, Undecided):
        raise
    except Exception as e:  # noqa: BLE001 - the path exists and is writable: aset has to return
        prove(f"{tag}/post:returns_for_valid_path", False, f"aset({path!r}, v) raised {e!r}")
        return root, None
    diffs = []
    prove(f"{tag}/post:same_type", type(res) is type(root), "")
    prove(f"{tag}/post:addressed_slot_holds_value", leaf_equal(get_path(res, ops), val), f"path {path}")
    expected = spec_update(before, ops, describe(val))
    ok = same_desc(describe(res), expected, "", diffs)
    prove(f"{tag}/post:only_addressed_path_changed", ok, "; ".join(diffs[:3]))
    diffs2 = []
    ok2 = same_desc(describe(root), before, "", diffs2)
    prove(f"{tag}/frame:original_value_unchanged", ok2, "; ".join(diffs2[:3]))
    ok3, why = identity_unchanged(snap)
    prove(f"{tag}/frame:original_objects_unchanged", ok3, why)
    return root, res


def all_shapes(depth, index_variants):
    """every op sequence of length <= depth starting with an attribute"""
    first = [("ap",), ("af",)]
    out = []
    for d in range(1, depth + 1):
        for rest in itertools.product(range(4), repeat=d - 1):
            for f in first:
                ops = [f]
                for j, r in enumerate(rest):
                    if r == 0:
                        ops.append(("ap",))
                    elif r == 1:
                        ops.append(("af",))
                    elif r == 2:
                        ops.append(("ix",) + index_variants[(len(out) + j) % len(index_variants)])
                    else:
                        ops.append(("ky",))
                # an attribute op needs a TreeClass parent, which build() provides for every kind
                out.append(ops)
    return out


INDEX_VARIANTS = [(3, 1), (3, 0), (3, 2), (3, -1), (2, -2), (1, 0), (2, 1), (3, -3)]


def _shapes_task(group):
    def body(c, inp):
        leaf = LeafFactory(symbolic=True)
        inp.note("shapes", [shape_label(o) for o in group])
        fails = [0]
        for ops in group:
            tag = shape_label(ops)

            def prove(name, goal, detail, _c=c):
                if goal is False:
                    fails[0] += 1
                    if fails[0] > 6:  # one replay file per distinct failing name: cap them
                        name = name.split("/")[0] + "/further_failures"
                _c.prove(name, goal)

            run_case(ops, leaf, prove, tag)

    return body


def _index_task(c, inp):
    """every list length 1..3 and every in-range index (negative ones included), directly under a
    plain and a frozen field and one level deeper"""
    leaf = LeafFactory(symbolic=True)
    for n in (1, 2, 3):
        for pos in range(-n, n):
            for pre in ([("ap",)], [("af",)], [("ap",), ("ky",)], [("af",), ("ix", 2, 0)]):
                for post in ([], [("af",)]):
                    ops = pre + [("ix", n, pos)] + post
                    run_case(ops, leaf, lambda name, goal, detail: c.prove(name, goal), shape_label(ops))


def _create_new_task(c, inp):
    """create_new_ok=True on a not yet existing attribute / key at the END of the path: the new slot
    appears, nothing else changes, the original is unchanged; create_new_ok on existing slots behaves
    like a plain update"""
    leaf = LeafFactory(symbolic=True)
    prefixes = [[], [("ap",)], [("af",)], [("ap",), ("ix", 2, 1)], [("af",), ("ky",)], [("ap",), ("ap",), ("af",)]]
    for pre in prefixes:
        for last in ("attr", "key"):
            if last == "attr":
                ops_build = pre + [("ap",)]  # innermost container is a Node
                ops_full = pre + [("attr", "brand_new")]
                path = "->".join([p for p in [path_string(pre)] if p] + ["brand_new"])
            else:
                if not pre:
                    continue
                ops_build = pre + [("ky",)]
                ops_full = pre + [("ky", "fresh key")]
                path = path_string(pre) + "->['fresh key']"
            tag = f"create:{shape_label(pre) or 'root'}+{last}"
            root = build(ops_build, leaf)
            val = leaf("new")
            before = describe(root)
            snap = identity_snapshot(root)
            try:
                res = root.aset(path, val, create_new_ok=True)
            except (Unsupported, Undecided):
                raise
            except LeafInspected as e:
                raise Undecided(f"aset looked into a slot value ({e})") from e
            except Exception:  # noqa: BLE001 - create_new_ok=True on the last op has to succeed
                c.prove(f"{tag}/post:returns_with_create_new_ok", False)
                continue
            diffs = []
            c.prove(f"{tag}/post:same_type", type(res) is type(root))
            c.prove(f"{tag}/post:new_slot_holds_value", leaf_equal(get_path(res, ops_full), val))
            c.prove(f"{tag}/post:only_new_slot_added", same_desc(describe(res), spec_update(before, ops_full, ("leaf", val), create=True), "", diffs))
            c.prove(f"{tag}/frame:original_value_unchanged", same_desc(describe(root), before))
            c.prove(f"{tag}/frame:original_objects_unchanged", identity_unchanged(snap)[0])
    # existing slot + create_new_ok=True == plain update
    for ops in ([("ap",)], [("af",), ("ky",)], [("ap",), ("ix", 3, 2), ("af",)]):
        tag = f"create_existing:{shape_label(ops)}"
        root = build(ops, leaf)
        val = leaf("new")
        before = describe(root)
        snap = identity_snapshot(root)
        try:
            res = root.aset(path_string(ops), val, create_new_ok=True)
        except (Unsupported, Undecided):
            raise
        except Exception:  # noqa: BLE001
            c.prove(f"{tag}/post:returns_for_valid_path", False)
            continue
        c.prove(f"{tag}/post:only_addressed_path_changed", same_desc(describe(res), spec_update(before, ops, ("leaf", val))))
        c.prove(f"{tag}/frame:original_value_unchanged", same_desc(describe(root), before))
        c.prove(f"{tag}/frame:original_objects_unchanged", identity_unchanged(snap)[0])


def _failing_paths_task(c, inp):
    """whatever aset does on a path that cannot be followed or written (missing attribute / key,
    index out of range, malformed path, tuple on the path, non-TreeClass attribute parent): the
    original is unchanged"""
    leaf = LeafFactory(symbolic=True)
    Node, Other = _node_class()

    class Plain:
        def __init__(self, v):
            self.val = v

    AP, AF, KY = ("ap",), ("af",), ("ky",)
    cases = [
        ([AP], "missing_attr", False),
        ([AP], "missing_attr->deeper", True),
        ([AF], "f->missing_attr->deeper", True),
        ([AP, KY], "p->['absent']", False),
        ([AP, KY], "p->['absent']->['deeper']", True),
        ([AP, ("ix", 2, 0)], "p->[5]", False),
        ([AF, KY], "f->['absent']", False),
        ([AF, ("ix", 2, 0)], "f->[-3]", False),
        ([AP, AP, KY], "p->p->['absent']", False),
        ([AF, ("ix", 2, 1), AP], "f->[1]->nope", False),
        ([AP, KY, ("ix", 3, 0)], "p->['kt']->[7]", False),
        ([AP, KY, ("ix", 3, 0)], "p->['kt']->[0]->x", False),
        ([AP, AF, AP], "p->f->p->q->r", False),
        ([AP], "", False),
        ([AP], "p->", False),
        ([AP, ("ix", 2, 0)], "p->[", False),
        ([AP, ("ix", 2, 0)], "p->[abc]", False),
        ([AP, KY], "p->['k't']", False),
        ([AP], "p q", False),
    ]
    specials = [
        (Node(p=(leaf(), leaf()), q=leaf()), "p->[0]"),
        (Node(f=(leaf(), [leaf()])), "f->[1]->[0]"),
        (Node(f=(leaf(), [leaf()])), "f->[0]"),
        (Node(p=Plain(leaf())), "p->val"),
        (Node(p=leaf()), "p->[0]"),
        (Node(p=leaf()), "p->['k']"),
        (Node(p=[leaf()], q=leaf()), "p->['k']"),
    ]
    runs = [(build(ops, leaf), path, create, f"fail:{shape_label(ops)}:{path!r}") for ops, path, create in cases]
    runs += [(root, path, False, f"special:{path!r}#{i}") for i, (root, path) in enumerate(specials)]
    for root, path, create, tag in runs:
        before = describe(root)
        snap = identity_snapshot(root)
        outcome = "returned"
        try:
            root.aset(path, leaf("new"), create_new_ok=create)
        except LeafInspected:
            outcome = "refused"  # finding out that a slot value is no container may look at it
        except Exception:  # noqa: BLE001 - any refusal is fine, the frame is what is checked
            outcome = "refused"
        inp.note(tag, outcome)
        c.prove(f"{tag}/frame:original_value_unchanged", same_desc(describe(root), before))
        c.prove(f"{tag}/frame:original_objects_unchanged", identity_unchanged(snap)[0])


# ---------------------------------------------------------------------------------------
# frame: syntactic write-set analysis of the real source
# ---------------------------------------------------------------------------------------

_MUTATORS = {"append", "extend", "insert", "pop", "remove", "clear", "update", "setdefault", "popitem", "sort", "reverse", "add", "discard", "__setitem__", "__delitem__", "__setattr__", "__delattr__", "__iadd__"}
_PURE_CALLS = {"safe_hasattr", "getattr", "hasattr", "dir", "int", "len", "range", "list", "isinstance", "Exception", "ValueError", "TypeError", "KeyError", "enumerate", "str", "repr", "type", "reversed", "tuple"}


def _fresh_expr(node):
    """expressions that evaluate to an object nobody else holds"""
    if isinstance(node, (ast.List, ast.Dict, ast.ListComp, ast.DictComp, ast.Tuple, ast.Constant)):
        return True
    if isinstance(node, ast.Call):
        f = node.func
        if isinstance(f, ast.Attribute) and f.attr in ("copy", "deepcopy") and not node.args and not node.keywords:
            return True  # x.copy()
        if isinstance(f, ast.Attribute) and isinstance(f.value, ast.Name) and f.value.id == "copy" and f.attr in ("copy", "deepcopy"):
            return True
        if isinstance(f, ast.Name) and f.id in ("list", "dict", "range"):
            return True
        if isinstance(f, ast.Name) and f.id == "list" or (isinstance(f, ast.Subscript)):
            return False
    if isinstance(node, ast.Subscript) and isinstance(node.value, ast.Call) and _fresh_expr(node.value):
        return True  # list(range(n))[::-1]
    return False


def _write_set(c, inp):
    from fdtdx.core.jax.pytrees import TreeClass

    def fail(msg):
        raise Undecided(f"write-set analysis does not recognise the shape of aset any more: {msg}")

    fn = ast.parse(textwrap.dedent(inspect.getsource(TreeClass.aset))).body[0]
    bindings = {}
    stores = []
    for node in ast.walk(fn):
        tg = []
        if isinstance(node, ast.Assign):
            tg = [(t, node.value) for t in node.targets]
        elif isinstance(node, (ast.AugAssign, ast.AnnAssign)):
            tg = [(node.target, node.value)]
        elif isinstance(node, ast.Delete):
            for t in node.targets:
                stores.append(t)
        elif isinstance(node, (ast.For, ast.comprehension)):
            tg = [(node.target, None)]
        elif isinstance(node, (ast.Global, ast.Nonlocal)):
            fail("global/nonlocal statement")
        elif isinstance(node, ast.NamedExpr):
            tg = [(node.target, node.value)]
        for t, v in tg:
            leaves = [t]
            while leaves:
                x = leaves.pop()
                if isinstance(x, (ast.Tuple, ast.List)):
                    leaves.extend(x.elts)
                    if isinstance(v, (ast.Tuple, ast.List)) and len(v.elts) == len(x.elts) and x is t:
                        pass
                elif isinstance(x, ast.Starred):
                    leaves.append(x.value)
                elif isinstance(x, ast.Name):
                    # tuple-unpacking targets get value None (= unknown origin)
                    bindings.setdefault(x.id, []).append(v if x is t else None)
                else:
                    stores.append(x)
    n_obl = 0
    # (1) every store into an object goes into a freshly created one
    for s in stores:
        if not isinstance(s, (ast.Subscript, ast.Attribute)) or not isinstance(s.value, ast.Name):
            fail(f"store target {ast.unparse(s)}")
        name = s.value.id
        vals = bindings.get(name)
        if not vals or not all(v is not None and _fresh_expr(v) for v in vals):
            fail(f"`{ast.unparse(s)} = ...` stores into `{name}`, which is not (only) bound to a fresh copy")
        c.prove(f"write_set/store:{ast.unparse(s)}:target_is_fresh_copy", True)
        n_obl += 1
    if not stores:
        fail("no store statement found (the copy-on-write update was expected to store into copies)")
    # (2) calls: mutator methods only on fresh locals; unknown callables are not accepted
    at_calls = 0
    for node in ast.walk(fn):
        if not isinstance(node, ast.Call):
            continue
        f = node.func
        if isinstance(f, ast.Name):
            if f.id in ("setattr", "delattr", "exec", "eval"):
                fail(f"call of {f.id}")
            if f.id not in _PURE_CALLS:
                fail(f"call of unknown function {f.id}")
            continue
        if isinstance(f, ast.Attribute):
            if f.attr in _MUTATORS:
                recv = f.value
                vals = bindings.get(recv.id) if isinstance(recv, ast.Name) else None
                if not vals or not all(v is not None and _fresh_expr(v) for v in vals):
                    fail(f"mutating call {ast.unparse(node)} on a non-fresh receiver")
                c.prove(f"write_set/call:{ast.unparse(f)}:receiver_is_fresh_local", True)
                n_obl += 1
                continue
            if f.attr in ("copy", "startswith", "endswith", "isdigit", "strip", "isidentifier", "_parse_operations", "keys", "values", "items", "get"):
                continue
            fail(f"call of unknown method {ast.unparse(f)}")
        if isinstance(f, ast.Subscript) and isinstance(f.value, ast.Attribute) and f.value.attr == "at":
            # X.at["method"](...)  -- pytreeclass applies the method to a COPY of X
            key = f.slice
            if not (isinstance(key, ast.Constant) and key.value == "_aset"):
                fail(f"`.at[...]` call with method {ast.unparse(key)}")
            at_calls += 1
            continue
        fail(f"call {ast.unparse(node)}")
    if at_calls == 0:
        fail("no `.at['_aset'](...)` call")
    c.prove("write_set/attribute_updates_go_through_at_indexer_copy", True)
    # (3) `_aset` itself only does setattr(self, name, value)
    fn2 = ast.parse(textwrap.dedent(inspect.getsource(TreeClass._aset))).body[0]
    body = [s for s in fn2.body if not (isinstance(s, ast.Expr) and isinstance(s.value, ast.Constant))]
    ok = len(body) == 1 and isinstance(body[0], ast.Expr) and isinstance(body[0].value, ast.Call) and isinstance(body[0].value.func, ast.Name) and body[0].value.func.id == "setattr" and isinstance(body[0].value.args[0], ast.Name) and body[0].value.args[0].id == "self"
    if not ok:
        fail("_aset is not a single setattr(self, ...)")
    c.prove("write_set/_aset_only_sets_attribute_of_self", True)
    # (4) the library contract used in (2): `.at[m](...)` leaves the receiver alone -- exercised on
    # the generic node with trapping leaves (dynamic confirmation, the contract itself is assumed)
    Node, _ = _node_class()
    leaf = LeafFactory(symbolic=True)
    x = Node(p=leaf(), q=[leaf()], f=leaf(), g={"k": leaf()})
    snap = identity_snapshot(x)
    before = describe(x)
    _, y = x.at["_aset"]("p", leaf())
    c.prove("write_set/at_indexer_contract:receiver_unchanged", A._vand(identity_unchanged(snap)[0], same_desc(describe(x), before)))
    c.prove("write_set/at_indexer_contract:returns_new_object", y is not x)


# ---------------------------------------------------------------------------------------
# bounded stand-ins
# ---------------------------------------------------------------------------------------


class _Bounded:
    """records bounded evaluations; after three failures of a group the remaining ones share one name
    (the harness writes one replay file per distinct name)"""

    def __init__(self, c):
        self.c = c
        self.fails = {}

    def __call__(self, group, name, ok, case=None, witness=None):
        if not ok:
            self.fails[group] = self.fails.get(group, 0) + 1
            if self.fails[group] > 3:
                name = f"{group}/further_failures"
        self.c.bounded(name, ok, case=case, witness=witness)



def _check_concrete(root, path, ops, val, create=False):
    """real aset on a concrete tree; returns (ok, detail)"""
    before = describe(root)
    snap = identity_snapshot(root)
    res = root.aset(path, val, create_new_ok=create)
    diffs = []
    if type(res) is not type(root):
        return False, f"result type {type(res).__name__}"
    ok = same_desc(describe(res), spec_update(before, ops, describe(val), create), "", diffs)
    if ok is not True:
        return False, "result differs from x[path:=val]: " + "; ".join(diffs[:3])
    diffs = []
    if same_desc(describe(root), before, "", diffs) is not True:
        return False, "original changed: " + "; ".join(diffs[:3])
    ok3, why = identity_unchanged(snap)
    if not ok3:
        return False, "original changed: " + why
    return True, ""


def _real_objects(c, inp):
    import jax.numpy as jnp
    import numpy as np

    import fdtdx
    from fdtdx.config import SimulationConfig
    from fdtdx.core.grid import UniformGrid
    from fdtdx.core.switch import OnOffSwitch
    from fdtdx.core.wavelength import WaveCharacter
    from fdtdx.fdtd.container import ArrayContainer, FieldState, ObjectContainer

    cfg = SimulationConfig(time=1e-14, grid=UniformGrid(spacing=2e-8), backend="cpu", dtype=jnp.float32)
    vol = fdtdx.SimulationVolume(partial_real_shape=(1e-6, 1e-6, 1e-6), name="vol")
    src = fdtdx.UniformPlaneSource(wave_character=WaveCharacter(wavelength=1e-6), direction="+", name="src", switch=OnOffSwitch(fixed_on_time_steps=[1, 2, 5]))
    det = fdtdx.EnergyDetector(name="det", switch=OnOffSwitch(interval=3))
    cube = fdtdx.UniformMaterialObject(name="cube", material=fdtdx.Material(permittivity=2.0), partial_grid_shape=(2, 2, 2))
    objs = ObjectContainer(object_list=[vol, src, det, cube], volume_idx=0)
    E = jnp.zeros((3, 2, 2, 2))
    arrays = ArrayContainer(
        fields=FieldState(E=E, H=E + 1, psi_E={"pml": (E[0], E[1])}, psi_H={}),
        inv_permittivities=jnp.ones((1, 2, 2, 2)),
        inv_permeabilities=1.0,
        detector_states={"det": {"energy": jnp.zeros((4, 1))}, "other": {"x": jnp.ones(2)}},
        recording_state=None,
    )
    A_, X, K = (lambda n: ("attr", n)), (lambda i: ("ix", 0, i)), (lambda k: ("ky", k))
    cases = [
        (objs, "object_list->[1]->switch->is_always_off", [A_("object_list"), X(1), A_("switch"), A_("is_always_off")], True),
        (objs, "object_list->[1]->switch->fixed_on_time_steps->[2]", [A_("object_list"), X(1), A_("switch"), A_("fixed_on_time_steps"), X(2)], 9),
        (objs, "object_list->[-1]->material", [A_("object_list"), X(-1), A_("material")], fdtdx.Material(permittivity=4.0)),
        (objs, "object_list->[2]->name", [A_("object_list"), X(2), A_("name")], "renamed"),
        (objs, "volume_idx", [A_("volume_idx")], 3),
        (arrays, "fields->E", [A_("fields"), A_("E")], E + 5),
        (arrays, "fields->psi_E->['pml']", [A_("fields"), A_("psi_E"), K("pml")], (E[2], E[2])),
        (arrays, "detector_states->['det']->['energy']", [A_("detector_states"), K("det"), K("energy")], jnp.ones((4, 1))),
        (arrays, "inv_permeabilities", [A_("inv_permeabilities")], jnp.ones((1, 2, 2, 2))),
        (arrays, "recording_state", [A_("recording_state")], np.arange(3)),
        (cfg, "grid->spacing", [A_("grid"), A_("spacing")], 5e-8),
        (cfg, "time", [A_("time")], 3e-14),
        (cfg, "dtype", [A_("dtype")], jnp.float64),
        (src, "wave_character->wavelength", [A_("wave_character"), A_("wavelength")], 2e-6),
        (src, "partial_real_shape", [A_("partial_real_shape")], (1e-6, None, None)),
        (cube, "material->permittivity", [A_("material"), A_("permittivity")], (3.0, 0.0, 0.0, 0.0, 3.0, 0.0, 0.0, 0.0, 3.0)),
    ]
    for root, path, ops, val in cases:
        try:
            ok, detail = _check_concrete(root, path, ops, val)
        except Exception as e:  # noqa: BLE001
            ok, detail = False, f"aset raised {e!r}"
        c.bounded(f"real_objects/{type(root).__name__}:{path}", ok, case={"object": type(root).__name__, "path": path}, witness={"notes": {"kind": "real_object", "object": type(root).__name__, "path": path, "detail": detail}})
    # create_new_ok as used throughout the repository (private state attached after placement)
    ok, detail = _check_concrete(src, "_E", [("attr", "_E")], E, create=True)
    c.bounded("real_objects/UniformPlaneSource:_E(create_new_ok)", ok, case={"object": "UniformPlaneSource", "path": "_E", "create_new_ok": True}, witness={"notes": {"kind": "real_object", "detail": detail}})


def _random_tree(rnd, leaf, depth):
    """random nested tree + a random valid update path into it"""
    Node, Other = _node_class()

    def sub(d):
        if d == 0 or rnd.random() < 0.25:
            return leaf()
        k = rnd.choice(["node", "other", "list", "dict"])
        if k == "node":
            return Node(p=sub(d - 1), q=sub(d - 1), f=sub(d - 1), g=sub(d - 1))
        if k == "other":
            return Other(p=sub(d - 1), f=sub(d - 1))
        if k == "list":
            return [sub(d - 1) for _ in range(rnd.randint(1, 4))]
        return {f"k{i}": sub(d - 1) for i in range(rnd.randint(1, 3))}

    root = Node(p=sub(depth), q=sub(depth - 1), f=sub(depth), g=sub(depth - 1))
    ops, pieces, cur = [], [], root
    while True:
        if _is_tree(cur):
            name = rnd.choice(sorted(vars(cur)))
            ops.append(("attr", name))
            pieces.append(name)
            cur = getattr(cur, name)
        elif isinstance(cur, list):
            i = rnd.randrange(-len(cur), len(cur))
            ops.append(("ix", len(cur), i))
            pieces.append(f"[{i}]")
            cur = cur[i]
        elif isinstance(cur, dict):
            k = rnd.choice(sorted(cur))
            ops.append(("ky", k))
            pieces.append(f"['{k}']")
            cur = cur[k]
        else:
            break
        if not isinstance(cur, (list, dict)) and not _is_tree(cur):
            break
        if rnd.random() < 0.2:
            break
    return root, "->".join(pieces), ops


def _random_task(n_cases, seed, offset):
    def body(c, inp):
        rec = _Bounded(c)
        for i in range(n_cases):
            rnd = random.Random(f"{seed}/{offset + i}")
            leaf = LeafFactory(symbolic=False, rnd=rnd)
            root, path, ops = _random_tree(rnd, leaf, depth=rnd.randint(1, 4))
            try:
                ok, detail = _check_concrete(root, path, ops, leaf())
            except Exception as e:  # noqa: BLE001
                ok, detail = False, f"aset raised {e!r}"
            rec("random", f"random/{offset + i}", ok, case={"seed": f"{seed}/{offset + i}", "path": path}, witness={"notes": {"kind": "random", "seed": f"{seed}/{offset + i}", "path": path, "detail": detail}})

    return body


# ---------------------------------------------------------------------------------------


def tasks(tier, seed):
    depth = 5 if tier == "thorough" else 4
    shapes = all_shapes(depth, INDEX_VARIANTS)

    def aux(c, inp):
        _write_set(c, inp)
        _create_new_task(c, inp)
        _failing_paths_task(c, inp)
        _index_task(c, inp)

    out = {"frame/write_set+create_new+failing_paths+index_positions": Task(aux)}
    n_groups = 4 if tier == "thorough" else 1
    for g in range(n_groups):
        out[f"shapes/{g:02d}"] = Task(_shapes_task(shapes[g::n_groups]))
    n_rand = 4000 if tier == "thorough" else 400

    def bounded_all(c, inp):
        _real_objects(c, inp)
        _random_task(n_rand, seed, 0)(c, inp)

    out["bounded/real_objects+random"] = Task(bounded_all, modules=[])
    return out


def replay(key, obligation, witness):
    """re-run the failing case on the real aset with concrete slot values (floats, strings, real
    jax arrays), outside any symbolic session"""
    notes = (witness or {}).get("notes", {}) if isinstance(witness, dict) else {}
    if notes.get("kind") == "random":
        seed = notes["seed"]
        rnd = random.Random(seed)
        leaf = LeafFactory(symbolic=False, rnd=rnd)
        root, path, ops = _random_tree(rnd, leaf, depth=rnd.randint(1, 4))
        ok, detail = _check_concrete(root, path, ops, leaf())
        return (not ok), f"random tree seed={seed}, aset({path!r}, v): {detail or 'contract holds'}"
    if notes.get("kind") == "real_object":
        return bool(notes.get("detail")), f"real {notes.get('object')}.aset({notes.get('path')!r}, v) under real JAX: {notes.get('detail')}"
    label = obligation.split("/")[0]
    if label.startswith(("create", "fail", "special", "write_set")):
        label = None
    if label is None:
        # generic demonstration cases for the auxiliary tasks
        cands = [[("ap",)], [("af",), ("ky",)], [("ap",), ("ix", 3, 1)], [("af",), ("ix", 2, -1), ("ap",)]]
    else:
        try:
            cands = [parse_shape(label)]
        except Exception as e:  # noqa: BLE001
            return False, f"cannot parse the path shape from {obligation!r}: {e}"
    for ops in cands:
        leaf = LeafFactory(symbolic=False)
        root = build(ops, leaf)
        path = path_string(ops)
        try:
            ok, detail = _check_concrete(root, path, ops, leaf("new"))
        except Exception as e:  # noqa: BLE001
            ok, detail = False, f"aset raised {e!r}"
        if not ok:
            return True, f"generic tree for shape {shape_label(ops)}, real aset({path!r}, v) with concrete leaves: {detail}"
    return False, "contract holds on the concrete re-run"
